#!/bin/bash
# One-time build of the framework from files on disk only (offline).
set -e
export CARGO_NET_OFFLINE=true
mkdir -p /verif/.target /verif/.work /verif/evidence /verif/replays
cd /verif/harness
/verif/build_cli.sh &
P2=$!
# one crate at a time (shared dependencies are built once); a crate that does
# not build only disables its own checks (they then report exit 2)
for b in vc-front vc-eval vc-doc vc-engines vc-sv vc-loop vc-drv vc-proj vc-fault vc-ls vc-synth vc-dep vc-crash vc-aig; do
  cargo build --release -p $b || echo "WARNING: $b did not build"
done
wait $P2 || echo "WARNING: veryl CLI did not build"
echo "setup done"
