#!/bin/bash
# One-time build of the framework from files on disk only (offline).
set -e
export CARGO_NET_OFFLINE=true
mkdir -p /verif/.target /verif/.work /verif/evidence /verif/replays
cd /verif/harness
cargo build --release -p vc-front -p vc-sim -p vc-cli &
P1=$!
/verif/build_cli.sh &
P2=$!
wait $P1
wait $P2
cargo build --release -p vc-aig
echo "setup done"
