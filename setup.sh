#!/bin/bash
# One-time build of the framework from files on disk only (offline).
# Builds the harness binaries behind the checks that MANIFEST.json claims
# (all of them are in-process checks served by vc-front); `./check` rebuilds
# incrementally against /repo's current working tree on every call.
set -e
export CARGO_NET_OFFLINE=true
mkdir -p /verif/.target /verif/.work /verif/evidence /verif/replays
cd /verif/harness
cargo build --release -p vc-front
echo "setup done"
