#!/bin/bash
# One-time build of the framework from files on disk only (offline).
# Builds every harness binary behind a check that MANIFEST.json claims, plus
# the real veryl / veryl-ls binaries (harness packages vcli / vls compiled
# from /repo's own main.rs files) for the CLI-driven checks.  `./check`
# rebuilds incrementally against /repo's current working tree on every call.
set -e
export CARGO_NET_OFFLINE=true
mkdir -p /verif/.target /verif/.work /verif/evidence /verif/replays
cd /verif/harness
PKGS=$(python3 - <<'PY'
import json
m = json.load(open('/verif/MANIFEST.json'))
bins = sorted({c['engine'] for c in m['checks']} - {'vc-aig'})
if {'vc-proj', 'vc-fault', 'vc-ls', 'vc-dep', 'vc-test'} & set(bins):
    bins += ['vcli', 'vls']
print(' '.join('-p ' + b for b in bins))
PY
)
cargo build --release $PKGS
# vc-aig enables the synthesizer's `aig` feature: built on its own so the
# feature is not unified into the other binaries
if grep -q '"engine": "vc-aig"' /verif/MANIFEST.json; then cargo build --release -p vc-aig; fi
echo "setup done"
