#!/bin/bash
# Build the real `veryl` and `veryl-ls` binaries from /repo's working tree
# (hooks on) into /verif/.target/cli.  Profile: the repository's own
# `release-verylup` (opt-level 3, no LTO) — release semantics, quick to link.
set -e
export CARGO_NET_OFFLINE=true
cd /repo
exec cargo build --offline --profile release-verylup -p veryl -p veryl-ls \
  --target-dir /verif/.target/cli \
  --config 'build.rustflags=["--cfg","veryl_verif","--check-cfg","cfg(veryl_verif)","-A","unused_assignments","-A","unexpected_cfgs"]'
