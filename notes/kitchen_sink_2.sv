interface ks_Bus;
    logic         valid;
    logic [8-1:0] data ;
    modport master (
        output valid,
        output data 
    );
    modport slave (
        input valid,
        input data 
    );
endinterface

module ks_Prod (
    input var logic     [8-1:0] i_d,
    ks_Bus.master         bus
);
    always_comb bus.valid = |i_d;
    always_comb bus.data  = i_d;
endmodule

module ks_Cons (
    ks_Bus.slave         bus,
    output var logic    [8-1:0] o_d
);
    always_comb o_d = ((bus.valid) ? ( bus.data ) : ( 8'h00 ));
endmodule

module ks_Top2 #(
    parameter int unsigned N = 4
) (
    input  var logic                 clk,
    input  var logic                 rst,
    input  var logic        [16-1:0] a  ,
    input  var logic signed [16-1:0] b  ,
    input  var logic        [3-1:0]  idx,
    output var logic        [16-1:0] o0 ,
    output var logic        [8-1:0]  o1 ,
    output var logic        [16-1:0] o2 ,
    output var logic        [8-1:0]  o3 ,
    output var logic        [32-1:0] o4 ,
    output var logic signed [16-1:0] o5 ,
    output var logic        [4-1:0]  o6 
);
    typedef struct packed {
        logic [8-1:0] x;
        logic [8-1:0] y;
    } P;
    localparam int unsigned          L       = $clog2(N);
    logic        [16-1:0] acc    ;
    P                     p      ;
    logic        [8-1:0]  m   [N];
    logic        [L-1:0]  cnt    ;

    ks_Bus bus ();
    ks_Prod u_p (
        .i_d (a[7:0]),
        .bus (bus   )
    );
    ks_Cons u_c (
        .bus (bus),
        .o_d (o1 )
    );

    always_ff @ (negedge clk) begin
        if (rst) begin
            acc <= 16'h1234;
            cnt <= 0;
        end else begin
            acc <= acc + a;
            cnt <= cnt + (1);
        end
    end

    always_comb begin
        p = P'{x: a[15:8], y: a[idx+:8]};
        for (int i = 0; i < N; i++) begin
            m[i] = a[7:0] + 8'(i);
        end
        o6 = 0;
        for (int i = 0; i < 4; i++) begin
            if (a[i]) begin
                o6 = 4'(i);
                break;
            end
        end
    end

    always_comb o0 = {a[7:0], a[15:8]} + {2{p.y}};
    always_comb o2 = a[($size(a, 1) - 1):8] + a[0+:4] + acc;
    always_comb o3 = m[cnt];
    always_comb o4 = {a, b} >> idx;
    always_comb o5 = -b + (shortint'(a)) + $signed(16'(b));
endmodule
