package ks_Pkg;
    localparam int unsigned W = 8;
    typedef struct packed {
        logic [4-1:0] hi;
        logic [4-1:0] lo;
    } S;
    typedef enum logic [2-1:0] {
        E_A,
        E_B,
        E_C
    } E;
    function automatic logic [W-1:0] inc(
        input var logic [W-1:0] x
    ) ;
        return x + 1;
    endfunction
endpackage

module ks_Sub #(
    parameter int unsigned P = 3
) (
    input  var logic [8-1:0] i_a,
    output var logic [8-1:0] o_b
);
    always_comb o_b = i_a + 8'(P);
endmodule

module ks_Top
    import ks_Pkg::*;
(
    input  var logic                 clk ,
    input  var logic                 rst ,
    input  var logic        [8-1:0]  a   ,
    input  var logic signed [8-1:0]  b   ,
    input  var logic        [2-1:0]  sel ,
    input  var logic        [70-1:0] wide,
    output var logic        [8-1:0]  o0  ,
    output var logic signed [9-1:0]  o1  ,
    output var logic        [70-1:0] o2  ,
    output var logic                 o3  ,
    output var logic        [8-1:0]  o4  ,
    output var logic        [8-1:0]  o5  
);


    logic [8-1:0] r      ;
    S             s      ;
    E             e      ;
    logic [8-1:0] arr [4];
    logic [8-1:0] t      ;
    logic [8-1:0] u      ;
    logic [8-1:0] k      ; always_comb k       = a ^ 8'h5a;

    function automatic logic [8-1:0] f2(
        input var logic [8-1:0] x,
        input var logic [8-1:0] y
    ) ;
        logic [8-1:0] tmp;
        tmp = x & y;
        return tmp | 8'h01;
    endfunction

    always_ff @ (posedge clk, negedge rst) begin
        if (!rst) begin
            r <= 0;
        end else if (sel == 1) begin
            r <= r + a;
        end else begin
            r <= f2(r, k);
        end
    end

    always_ff @ (posedge clk, negedge rst) begin
        if (!rst) begin
            for (int i = 0; i < 4; i++) begin
                arr[i] <= 0;
            end
        end else begin
            arr[sel] <= a;
        end
    end

    always_comb begin
        s.hi = a[7:4];
        s.lo = a[3:0] + 1;
        case (sel)
            0      : e = ks_Pkg::E_A;
            1      : e = ks_Pkg::E_B;
            default: e = ks_Pkg::E_C;
        endcase
        t = 0;
        if (a > 8'd10) begin
            t = a - 10;
        end else if (a == 3) begin
            t = {a[3:0], a[7:4]};
        end
        case (1'b1)
            sel == 0: u = a;
            sel == 1: u = a << 1;
            default : u = ~a;
        endcase
    end

    always_comb o0 = r + arr[sel] + inc(a);
    always_comb o1 = (b >>> 1) + b;
    always_comb o2 = wide + {62'd0, a} * 70'd3;
    always_comb o3 = ((a) inside {1, [3:5], 8'hf0});
    always_comb o4 = ((sel == 2) ? (
        s
    ) : (
        ((((e) ==? (ks_Pkg::E_A)) ? (
            t
        ) : ((e) ==? (ks_Pkg::E_B)) ? (
            u
        ) : (
            8'hff
        )))
    ));
    ks_Sub #(
        .P  (5)
    ) u_sub (
        .i_a (a ),
        .o_b (o5)
    );

    for (genvar i = 0; i < 2; i++) begin :g
        logic [8-1:0] v;
        always_comb v = a + i;
    end
endmodule
