//! Third documented coarseness: *periodic transfers*.
//!
//! The checker refines a variable into atomic bit ranges by propagating range
//! end points along positional copy relations ("transfers"), and on purpose
//! lets every seed cross every directed relation only once
//! (comb_loop_detect.rs `propagate_packed_endpoints`: "Reusing a direction
//! around an offset cycle would materialize periodic repetitions as one
//! boundary per vector bit").  When a seed would reach the same directed
//! relation at two different points, some boundaries are never created, an
//! atom keeps several bits and a bit-acyclic chain such as
//! `assign o[7:1] = o[6:0];` is reported as a loop.
//!
//! This module decides, on the harness IR, whether that happens in a module:
//! it collects the positional copy relations and the access end points the
//! way the checker's documentation describes them, runs the bounded
//! propagation (per seed, breadth first, a direction consumed in one round is
//! closed for later rounds) and the unbounded closure, and flags the module if
//! the two differ for some variable.  A flagged module is held to the
//! variable-level graph only (either verdict accepted below that).

use crate::ir::*;
use std::collections::{BTreeMap, BTreeSet};

#[derive(Clone, Copy, Debug, PartialEq, Eq, PartialOrd, Ord)]
enum Var {
    Sig(SigId),
    Local(usize, usize),
    Ret(usize),
}

#[derive(Clone, Copy, Debug)]
struct Piece {
    /// position in the expression value
    lo: usize,
    len: usize,
    var: Var,
    var_lo: usize,
}

#[derive(Clone, Copy, Debug, PartialEq, Eq, PartialOrd, Ord)]
struct Rel {
    a: Var,
    a_lo: usize,
    b: Var,
    b_lo: usize,
    len: usize,
}

struct Coll<'a> {
    m: &'a Module,
    rels: BTreeSet<Rel>,
    /// end points of every read and written range
    seeds: BTreeSet<(Var, usize)>,
    /// function whose body is being walked (for `Expr::Local`)
    cur_fn: Option<usize>,
}

impl Coll<'_> {
    fn pos(&self, sig: SigId, bit: usize) -> usize {
        match &self.m.sigs[sig].shape {
            Shape::Arr { w, .. } => bit % w,
            _ => bit,
        }
    }

    fn pieces(&mut self, e: &Expr) -> Vec<Piece> {
        let fs = &self.m.funcs;
        match e {
            Expr::Ref(p) => {
                let lo = self.pos(p.sig, p.lo);
                self.seeds.insert((Var::Sig(p.sig), lo));
                self.seeds.insert((Var::Sig(p.sig), lo + p.w));
                vec![Piece { lo: 0, len: p.w, var: Var::Sig(p.sig), var_lo: lo }]
            }
            Expr::Local(i, lo, w) => {
                let v = Var::Local(self.cur_fn.unwrap(), *i);
                self.seeds.insert((v, *lo));
                self.seeds.insert((v, lo + w));
                vec![Piece { lo: 0, len: *w, var: v, var_lo: *lo }]
            }
            Expr::Const(..) => vec![],
            Expr::Concat(parts) => {
                let mut out = Vec::new();
                let mut off = 0;
                for p in parts.iter().rev() {
                    let w = width(p, fs);
                    for mut x in self.pieces(p) {
                        x.lo += off;
                        out.push(x);
                    }
                    off += w;
                }
                out
            }
            Expr::Not(a) | Expr::Neg(a) => self.pieces(a),
            Expr::Bit(_, a, b) => {
                let mut v = self.pieces(a);
                v.extend(self.pieces(b));
                v
            }
            Expr::Mux(c, a, b) => {
                let _ = self.pieces(c);
                let mut v = self.pieces(a);
                v.extend(self.pieces(b));
                v
            }
            Expr::Arith(_, a, b) | Expr::ArithCtx(_, a, b, _) | Expr::Cmp(_, a, b) => {
                let _ = self.pieces(a);
                let _ = self.pieces(b);
                vec![]
            }
            Expr::Red(_, a) => {
                let _ = self.pieces(a);
                vec![]
            }
            Expr::Shl(a, k) => {
                let w = width(a, fs);
                self.pieces(a)
                    .into_iter()
                    .filter_map(|x| {
                        let lo = x.lo + k;
                        if lo >= w {
                            return None;
                        }
                        let len = x.len.min(w - lo);
                        Some(Piece { lo, len, ..x })
                    })
                    .collect()
            }
            Expr::Shr(a, k) => self
                .pieces(a)
                .into_iter()
                .filter_map(|x| {
                    if x.lo + x.len <= *k {
                        return None;
                    }
                    let cut = k.saturating_sub(x.lo);
                    Some(Piece { lo: x.lo + cut - k, len: x.len - cut, var: x.var, var_lo: x.var_lo + cut })
                })
                .collect(),
            Expr::Call(f, args) => {
                for (k, a) in args.iter().enumerate() {
                    for x in self.pieces(a) {
                        self.rels.insert(Rel { a: x.var, a_lo: x.var_lo, b: Var::Local(*f, k), b_lo: x.lo, len: x.len });
                    }
                }
                vec![Piece { lo: 0, len: fs[*f].ret_w, var: Var::Ret(*f), var_lo: 0 }]
            }
        }
    }

    fn assign(&mut self, targets: &[(Var, usize, usize)], e: &Expr) {
        let ps = self.pieces(e);
        let mut off = 0;
        for (tv, tlo, tw) in targets.iter().rev() {
            self.seeds.insert((*tv, *tlo));
            self.seeds.insert((*tv, tlo + tw));
            for x in &ps {
                let lo = x.lo.max(off);
                let hi = (x.lo + x.len).min(off + tw);
                if lo < hi {
                    self.rels.insert(Rel { a: x.var, a_lo: x.var_lo + (lo - x.lo), b: *tv, b_lo: tlo + (lo - off), len: hi - lo });
                }
            }
            off += tw;
        }
    }

    fn stmts(&mut self, ss: &[Stmt]) {
        for s in ss {
            match s {
                Stmt::Assign(ts, e) => {
                    let t: Vec<(Var, usize, usize)> = ts
                        .iter()
                        .map(|t| match t {
                            Target::Sig(p) => (Var::Sig(p.sig), self.pos(p.sig, p.lo), p.w),
                            Target::Local(i, lo, w) => (Var::Local(self.cur_fn.unwrap(), *i), *lo, *w),
                        })
                        .collect();
                    self.assign(&t, e);
                }
                Stmt::If(c, t, f) => {
                    let _ = self.pieces(c);
                    self.stmts(t);
                    self.stmts(f);
                }
                Stmt::Call(fi, args) => {
                    // collect_call_transfers: actual -> input formal, output
                    // formal (at its offset) -> every destination of the actual
                    for (k, a) in args.iter().enumerate() {
                        match a {
                            Arg::In(e) => {
                                for x in self.pieces(e) {
                                    self.rels.insert(Rel { a: x.var, a_lo: x.var_lo, b: Var::Local(*fi, k), b_lo: x.lo, len: x.len });
                                }
                            }
                            Arg::Out(ts) => {
                                let mut off = 0;
                                for t in ts.iter().rev() {
                                    let (tv, tlo, tw) = match t {
                                        Target::Sig(p) => (Var::Sig(p.sig), self.pos(p.sig, p.lo), p.w),
                                        Target::Local(i, lo, w) => (Var::Local(self.cur_fn.unwrap(), *i), *lo, *w),
                                    };
                                    self.seeds.insert((tv, tlo));
                                    self.seeds.insert((tv, tlo + tw));
                                    self.rels.insert(Rel { a: Var::Local(*fi, k), a_lo: off, b: tv, b_lo: tlo, len: tw });
                                    off += tw;
                                }
                            }
                        }
                    }
                }
            }
        }
    }
}

/// Does the bounded end-point propagation of the checker lose a boundary in this module?
pub fn may_be_coarse(m: &Module) -> bool {
    let mut c = Coll { m, rels: BTreeSet::new(), seeds: BTreeSet::new(), cur_fn: None };
    for (fi, f) in m.funcs.iter().enumerate() {
        c.cur_fn = Some(fi);
        c.stmts(&f.body);
        if f.ret_w > 0 {
            let t = [(Var::Ret(fi), 0, f.ret_w)];
            c.assign(&t, &f.ret);
        }
    }
    c.cur_fn = None;
    for it in &m.items {
        match it {
            Item::Assign(ps, e) => {
                let t: Vec<(Var, usize, usize)> = ps.iter().map(|p| (Var::Sig(p.sig), c.pos(p.sig, p.lo), p.w)).collect();
                c.assign(&t, e);
            }
            Item::Comb(ss) => c.stmts(ss),
            Item::Ff(..) => {}
            Item::Inst { ins, outs, .. } => {
                // accesses only: the checker collects transfers from assign /
                // always_comb declarations and function bodies, not from
                // instance connections
                let keep = c.rels.clone();
                for e in ins {
                    let _ = c.pieces(e);
                }
                c.rels = keep;
                for p in outs {
                    let lo = c.pos(p.sig, p.lo);
                    c.seeds.insert((Var::Sig(p.sig), lo));
                    c.seeds.insert((Var::Sig(p.sig), lo + p.w));
                }
            }
        }
    }
    // directed relations
    let mut dirs: Vec<(Var, usize, usize, Var, usize)> = Vec::new();
    for r in &c.rels {
        dirs.push((r.a, r.a_lo, r.len, r.b, r.b_lo));
        dirs.push((r.b, r.b_lo, r.len, r.a, r.a_lo));
        for (v, p) in [(r.a, r.a_lo), (r.a, r.a_lo + r.len), (r.b, r.b_lo), (r.b, r.b_lo + r.len)] {
            c.seeds.insert((v, p));
        }
    }
    let mut by_src: BTreeMap<Var, Vec<usize>> = BTreeMap::new();
    for (i, d) in dirs.iter().enumerate() {
        by_src.entry(d.0).or_default().push(i);
    }
    let step = |x: Var, p: usize, di: usize| -> Option<(Var, usize)> {
        let d = dirs[di];
        if d.0 != x || p < d.1 || p > d.1 + d.2 {
            return None;
        }
        Some((d.3, d.4 + (p - d.1)))
    };
    // bounded propagation, seed by seed
    let mut bounded: BTreeSet<(Var, usize)> = BTreeSet::new();
    for seed in &c.seeds {
        let mut used = vec![false; dirs.len()];
        let mut visited: BTreeSet<(Var, usize)> = BTreeSet::new();
        visited.insert(*seed);
        let mut frontier = vec![*seed];
        while !frontier.is_empty() {
            let mut next = Vec::new();
            let mut used_now = Vec::new();
            for &(x, p) in &frontier {
                bounded.insert((x, p));
                for &di in by_src.get(&x).map(|v| v.as_slice()).unwrap_or(&[]) {
                    if used[di] {
                        continue;
                    }
                    if let Some(n) = step(x, p, di) {
                        used_now.push(di);
                        if visited.insert(n) {
                            next.push(n);
                        }
                    }
                }
            }
            for di in used_now {
                used[di] = true;
            }
            frontier = next;
        }
    }
    // unbounded closure
    let mut full: BTreeSet<(Var, usize)> = c.seeds.clone();
    let mut st: Vec<(Var, usize)> = full.iter().copied().collect();
    while let Some((x, p)) = st.pop() {
        for &di in by_src.get(&x).map(|v| v.as_slice()).unwrap_or(&[]) {
            if let Some(n) = step(x, p, di)
                && full.insert(n)
            {
                st.push(n);
            }
        }
    }
    bounded != full
}
