mod c14;
mod desugar;
mod dgen;
mod front;
mod graph;
mod ir;
mod periodic;
mod shrink;

fn main() {
    let args: Vec<String> = std::env::args().skip(1).collect();
    let id = args.first().cloned().unwrap_or_default();
    if id == "probe" {
        // debugging aid: vc-loop probe FILE...  -> diagnostics of the in-process pipeline
        for f in &args[1..] {
            let src = std::fs::read_to_string(f).expect("read");
            let r = std::thread::scope(|s| s.spawn(|| front::analyze(&src)).join().unwrap());
            match r {
                None => println!("{f}: does not parse"),
                Some(ds) => {
                    println!("{f}: {} diagnostics", ds.len());
                    for d in ds {
                        println!("  {} {} {} @{:?}", if d.is_error { "E" } else { "W" }, d.code, d.message, d.loop_at);
                    }
                }
            }
        }
        return;
    }
    if id == "gen" {
        // debugging aid: vc-loop gen REPLAY.json [main|defects] -> prints the generated design
        let v: serde_json::Value = serde_json::from_str(&std::fs::read_to_string(&args[1]).expect("read")).expect("json");
        let choices: Vec<u32> = v["choices"].as_array().expect("choices").iter().map(|x| x.as_u64().unwrap_or(0) as u32).collect();
        let defects = args.get(2).map(|s| s == "defects").unwrap_or(false);
        eprintln!("generating from {} choices", choices.len());
        let text = c14::gen_text(choices, defects);
        println!("{text}");
        return;
    }
    vcore::quiet_panics();
    let ctx = vcore::Ctx::new(&id, &args[1.min(args.len())..]);
    match id.as_str() {
        "C14" => c14::run(&ctx),
        _ => {
            eprintln!("unknown property id {id:?}");
            std::process::exit(2);
        }
    }
}
