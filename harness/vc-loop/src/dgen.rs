//! Generator of the "dependency dialect": small hierarchical designs whose
//! every driven bit has exactly one driver, whose `always_comb` blocks assign
//! their variables on every path and never read a bit they only write later,
//! so that the combinational-loop verdict is the only diagnostic in play.
//!
//! Construction.  A module is a list of *processes* (`assign`, `always_comb`,
//! instance, `always_ff`), each producing a few *chunks* (bit ranges).  Chunks
//! of different processes are then packed into variables (vectors, unpacked
//! arrays, packed structs), so one variable is usually driven bit-wise by
//! several processes.  Process k has level k; by default a process reads only
//! chunks of lower levels, which makes the bit-level graph acyclic while the
//! variable-level graph is full of cycles (near misses).  Deliberate feedback
//! ("back reads": a read of a chunk of the same or a higher level) is added
//! under a budget; whether that closes a true bit-level cycle or just another
//! near miss is decided by the oracle, not by the generator.

use crate::ir::*;
use std::collections::BTreeSet;
use vcore::Draw;

#[derive(Clone, Copy, Debug, Default)]
pub struct Cfg {
    /// number of deliberate back reads allowed in the design
    pub back_budget: usize,
    /// defect shapes (only in the dedicated sub)
    pub defect_neg: bool,
    pub defect_narrow: bool,
    /// statements whose right-hand side reads bits the statement itself writes
    pub defect_selfread: bool,
    /// `~s` with s a whole packed-struct variable
    pub defect_structnot: bool,
    /// thorough tier: larger designs
    pub big: bool,
}

#[derive(Clone, Debug, Default)]
pub struct GenInfo {
    pub back_reads: usize,
    pub back_in_inst: usize,
    pub back_in_func: usize,
    pub neg_used: usize,
    pub narrow_used: usize,
    pub self_reads: usize,
    pub struct_nots: usize,
    pub struct_nots_avoided: usize,
    /// self-reading statements that were avoided by construction (main sub)
    pub self_reads_avoided: usize,
    /// statement-style calls of functions with output arguments
    pub out_calls: usize,
    /// kinds of output actuals drawn: whole variable, part select not at bit 0,
    /// part select at bit 0, struct member, array element, concatenation piece
    pub out_actual: [usize; 6],
    /// output formals defined by a pure positional copy / by anything else
    pub out_body_copy: usize,
    pub out_body_other: usize,
    /// dead stores inside one if arm: (module index, target, module-level reads of the dead store)
    pub dead_stores: Vec<(usize, Place, Vec<Place>)>,
}

#[derive(Clone, Copy, PartialEq, Debug)]
enum PKind {
    Assign,
    Comb,
    Inst(usize),
    Ff,
}

struct FuncScope {
    /// per var: assigned bits (formals: all)
    assigned: Vec<Vec<bool>>,
}

struct MGen<'a, 'd> {
    d: &'d mut Draw,
    cfg: Cfg,
    info: &'a mut GenInfo,
    back_left: &'a mut usize,
    prior: &'a [Module],
    sigs: Vec<Sig>,
    funcs: Vec<Func>,
    /// functions that must not be called from another site
    func_private: Vec<bool>,
    /// level of every bit of every signal (0 = input / register)
    level: Vec<Vec<usize>>,
    /// level of the process being generated
    cur: usize,
    /// bits of the current always_comb block (own) and those definitely assigned so far
    own: BTreeSet<(SigId, usize)>,
    own_assigned: BTreeSet<(SigId, usize)>,
    /// reading everything is fine (always_ff right-hand sides)
    read_all: bool,
    fscope: Option<FuncScope>,
    in_inst: bool,
    /// set while a function body is generated for the current call site
    captured_back: bool,
    /// next module-level leaf reads a chunk of the same or a higher level
    /// without consuming the back-read budget (dead stores)
    force_back: bool,
    module_index: usize,
}

const MAXD: usize = 3;

impl MGen<'_, '_> {
    // ------------------------------------------------------------ leaves

    fn bit_ok(&self, s: SigId, b: usize, back: bool) -> bool {
        let own = self.own.contains(&(s, b));
        if self.read_all {
            return true;
        }
        if own {
            // own bits of an always_comb block: readable only once definitely
            // assigned (then it is a statement-order read, never a back read)
            return !back && self.own_assigned.contains(&(s, b));
        }
        let l = self.level[s][b];
        if back { l >= self.cur } else { l < self.cur }
    }

    /// maximal readable ranges under the mode
    fn ranges(&self, back: bool) -> Vec<Place> {
        let mut out = Vec::new();
        for (s, sig) in self.sigs.iter().enumerate() {
            let n = sig.shape.bits();
            // boundaries a single operand may not cross
            let cut = |b: usize| -> bool {
                match &sig.shape {
                    Shape::Vec(_) => false,
                    Shape::Arr { w, .. } => b % w == 0,
                    Shape::Struct(f) => {
                        let mut off = 0;
                        for (_, w) in f.iter().rev() {
                            if b == off {
                                return true;
                            }
                            off += w;
                        }
                        false
                    }
                }
            };
            let mut b = 0;
            while b < n {
                if !self.bit_ok(s, b, back) {
                    b += 1;
                    continue;
                }
                let lo = b;
                b += 1;
                while b < n && self.bit_ok(s, b, back) && !cut(b) {
                    b += 1;
                }
                out.push(Place { sig: s, lo, w: b - lo });
            }
            if let Shape::Struct(_) = &sig.shape
                && (0..n).all(|b| self.bit_ok(s, b, back))
            {
                out.push(Place { sig: s, lo: 0, w: n });
            }
        }
        out
    }

    fn module_leaf(&mut self, w: usize, no_const: bool) -> Expr {
        let mut back = false;
        let forced = self.force_back && !self.read_all;
        if forced {
            back = true;
            self.force_back = false;
        } else if *self.back_left > 0 && !self.read_all && self.d.chance(if self.in_inst { 2 } else { 1 }, 5) {
            back = true;
        }
        let mut rs = self.ranges(back);
        if rs.is_empty() && back {
            back = false;
            rs = self.ranges(false);
        }
        if forced && back {
            // not charged to the budget: a dead store adds no bit-level edge
            *self.back_left += 1;
            self.info.back_reads -= 0;
        }
        if rs.is_empty() {
            // cannot happen (inputs are level 0) unless the module has no input
            return Expr::Const(w, 0);
        }
        if back {
            *self.back_left -= 1;
            if !forced {
                self.info.back_reads += 1;
            }
            if self.in_inst {
                self.info.back_in_inst += 1;
            }
            if self.fscope.is_some() {
                self.info.back_in_func += 1;
            }
        }
        if self.fscope.is_some() && (back || self.read_all || !self.own.is_empty()) {
            // a function that captures such a signal is only safe at this call site
            self.captured_back = true;
        }
        let mut parts: Vec<Expr> = Vec::new();
        let mut left = w;
        let mut guard = 0;
        while left > 0 {
            guard += 1;
            // prefer a range that satisfies the rest in one piece; prefer recent levels
            let fit: Vec<usize> = (0..rs.len()).filter(|i| rs[*i].w >= left).collect();
            let pick = if !fit.is_empty() && (guard > 3 || self.d.chance(4, 5)) {
                // bias towards the most recent levels: pick two, keep the higher one
                let a = fit[self.d.below_usize(fit.len())];
                let b = fit[self.d.below_usize(fit.len())];
                if self.level[rs[a].sig][rs[a].lo] >= self.level[rs[b].sig][rs[b].lo] { a } else { b }
            } else {
                self.d.below_usize(rs.len())
            };
            let r = rs[pick];
            if !no_const && guard > 1 && self.d.chance(1, 8) {
                let take = 1 + self.d.below_usize(left);
                parts.push(Expr::Const(take, self.d.below(1 << take.min(4)) as u64));
                left -= take;
                continue;
            }
            let take = if r.w >= left { left } else { r.w };
            // whole-struct ranges can only be taken whole
            let whole_struct = matches!(self.sigs[r.sig].shape, Shape::Struct(_)) && r.lo == 0 && r.w == self.sigs[r.sig].shape.bits();
            if whole_struct && take != r.w {
                // use one of its fields instead next round
                rs.remove(pick);
                if rs.is_empty() {
                    parts.push(Expr::Const(left, 0));
                    break;
                }
                continue;
            }
            let lo = r.lo + self.d.below_usize(r.w - take + 1);
            parts.push(Expr::Ref(Place { sig: r.sig, lo, w: take }));
            left -= take;
        }
        if parts.len() == 1 { parts.pop().unwrap() } else { Expr::Concat(parts) }
    }

    fn func_leaf(&mut self, w: usize, no_const: bool) -> Expr {
        // mostly formals / locals, sometimes a captured module signal
        if self.d.chance(1, 7) {
            return self.module_leaf(w, no_const);
        }
        let fs = self.fscope.as_ref().unwrap();
        let mut rs: Vec<(usize, usize, usize)> = Vec::new();
        for (i, a) in fs.assigned.iter().enumerate() {
            let mut b = 0;
            while b < a.len() {
                if !a[b] {
                    b += 1;
                    continue;
                }
                let lo = b;
                while b < a.len() && a[b] {
                    b += 1;
                }
                rs.push((i, lo, b - lo));
            }
        }
        let mut parts = Vec::new();
        let mut left = w;
        let mut guard = 0;
        while left > 0 {
            guard += 1;
            let fit: Vec<usize> = (0..rs.len()).filter(|i| rs[*i].2 >= left).collect();
            let pick = if !fit.is_empty() && (guard > 3 || self.d.chance(4, 5)) {
                fit[self.d.below_usize(fit.len())]
            } else {
                self.d.below_usize(rs.len())
            };
            let (i, lo, len) = rs[pick];
            if !no_const && guard > 1 && self.d.chance(1, 8) {
                let take = 1 + self.d.below_usize(left);
                parts.push(Expr::Const(take, self.d.below(1 << take.min(4)) as u64));
                left -= take;
                continue;
            }
            let take = len.min(left);
            let off = lo + self.d.below_usize(len - take + 1);
            parts.push(Expr::Local(i, off, take));
            left -= take;
        }
        if parts.len() == 1 { parts.pop().unwrap() } else { Expr::Concat(parts) }
    }

    fn leaf(&mut self, w: usize, no_const: bool) -> Expr {
        if self.fscope.is_some() { self.func_leaf(w, no_const) } else { self.module_leaf(w, no_const) }
    }

    // ------------------------------------------------------- expressions

    /// Expression of exactly `w` bits.  `no_const`: contains no constant leaf
    /// (conditions: the checker prunes branches under constant conditions).
    fn expr(&mut self, w: usize, depth: usize, no_const: bool) -> Expr {
        if depth >= MAXD {
            return self.leaf(w, no_const);
        }
        // simplest first (an exhausted choice sequence yields a leaf)
        let n_val = self.funcs.iter().filter(|f| f.ret_w > 0).count();
        let can_call = self.fscope.is_none() && (n_val < 3 || self.funcs.iter().any(|f| f.ret_w == w));
        let weights = [
            34,                                  // 0 leaf
            if w >= 2 { 14 } else { 0 },         // 1 concat
            14,                                  // 2 bitwise
            5,                                   // 3 not
            8,                                   // 4 arith
            9,                                   // 5 mux
            if w >= 2 { 5 } else { 0 },          // 6 shift
            if can_call { 7 } else { 0 },        // 7 call
            if w == 1 { 9 } else { 0 },          // 8 compare / logical
            if w == 1 { 8 } else { 0 },          // 9 reduction
            if no_const || depth == 0 { 0 } else { 3 }, // 10 const
            if self.cfg.defect_neg { 10 } else { 0 }, // 11 unary minus
        ];
        match self.d.weighted(&weights) {
            0 => self.leaf(w, no_const),
            1 => {
                let k = 2 + self.d.below_usize(2.min(w - 1));
                // split w into k positive parts (terminates on an exhausted choice sequence)
                let mut parts = Vec::new();
                let mut remaining = w;
                for i in 0..k {
                    let size = if i == k - 1 {
                        remaining
                    } else {
                        1 + self.d.below_usize(remaining - (k - 1 - i))
                    };
                    parts.push(self.expr(size, depth + 1, no_const));
                    remaining -= size;
                }
                Expr::Concat(parts)
            }
            2 => {
                let op = *self.d.pick(&[BitOp::And, BitOp::Or, BitOp::Xor, BitOp::Xnor]);
                let a = self.expr(w, depth + 1, no_const);
                let b = self.expr(w, depth + 1, false);
                Expr::Bit(op, Box::new(a), Box::new(b))
            }
            3 => {
                let mut a = if self.cfg.defect_structnot && self.fscope.is_none() {
                    // bias towards the listed shape: ~ applied to a leaf
                    self.leaf(w, true)
                } else {
                    self.expr(w, depth + 1, no_const)
                };
                if let Expr::Ref(p) = &a
                    && matches!(self.sigs[p.sig].shape, Shape::Struct(_))
                    && p.lo == 0
                    && p.w == self.sigs[p.sig].shape.bits()
                {
                    if self.cfg.defect_structnot {
                        self.info.struct_nots += 1;
                    } else {
                        // listed finding: `~s` on a whole struct is typed as one bit;
                        // the equivalent `~{s}` is generated instead
                        self.info.struct_nots_avoided += 1;
                        a = Expr::Concat(vec![a]);
                    }
                }
                Expr::Not(Box::new(a))
            }
            4 => {
                let op = *self.d.pick(&[ArOp::Add, ArOp::Sub, ArOp::Mul]);
                let a = self.expr(w, depth + 1, no_const);
                let b = self.expr(w, depth + 1, false);
                Expr::Arith(op, Box::new(a), Box::new(b))
            }
            5 => {
                let c = self.expr(1, depth + 1, true);
                let a = self.expr(w, depth + 1, no_const);
                let b = self.expr(w, depth + 1, no_const);
                Expr::Mux(Box::new(c), Box::new(a), Box::new(b))
            }
            6 => {
                let k = 1 + self.d.below_usize(w - 1);
                let a = self.expr(w, depth + 1, no_const);
                if self.d.bool() { Expr::Shl(Box::new(a), k) } else { Expr::Shr(Box::new(a), k) }
            }
            7 => self.call(w, depth, no_const),
            8 => {
                let op = *self.d.pick(&[CmpOp::Eq, CmpOp::Ne, CmpOp::Lt, CmpOp::Ge, CmpOp::LAnd, CmpOp::LOr]);
                let ow = if matches!(op, CmpOp::LAnd | CmpOp::LOr) { 1 } else { 1 + self.d.below_usize(5) };
                let a = self.expr(ow, depth + 1, true);
                let b = self.expr(ow, depth + 1, matches!(op, CmpOp::LAnd | CmpOp::LOr));
                Expr::Cmp(op, Box::new(a), Box::new(b))
            }
            9 => {
                let op = *self.d.pick(&[RedOp::Or, RedOp::And, RedOp::Xor, RedOp::LNot]);
                let ow = if op == RedOp::LNot { 1 } else { 2 + self.d.below_usize(5) };
                Expr::Red(op, Box::new(self.expr(ow, depth + 1, true)))
            }
            10 => Expr::Const(w, self.d.below(1 << w.min(4)) as u64),
            _ => {
                self.info.neg_used += 1;
                Expr::Neg(Box::new(self.expr(w, depth + 1, true)))
            }
        }
    }

    fn call(&mut self, w: usize, depth: usize, _no_const: bool) -> Expr {
        let reusable: Vec<usize> =
            (0..self.funcs.len()).filter(|i| self.funcs[*i].ret_w == w && w > 0 && !self.func_private[*i]).collect();
        let n_val = self.funcs.iter().filter(|f| f.ret_w > 0).count();
        let fi = if !reusable.is_empty() && (n_val >= 3 || self.d.bool()) {
            reusable[self.d.below_usize(reusable.len())]
        } else if n_val < 3 {
            self.new_func(w)
        } else {
            return self.leaf(w, true);
        };
        let formals: Vec<usize> = self.funcs[fi].vars[..self.funcs[fi].n_formals].iter().map(|x| x.1).collect();
        let args = formals.into_iter().map(|fw| self.expr(fw, depth + 1, true)).collect();
        Expr::Call(fi, args)
    }

    fn new_func(&mut self, ret_w: usize) -> usize {
        let nf = 1 + self.d.below_usize(3);
        let nl = self.d.below_usize(3);
        let mut vars = Vec::new();
        let mut assigned = Vec::new();
        for k in 0..nf {
            let w = 1 + self.d.below_usize(6);
            vars.push((format!("a{k}"), w));
            assigned.push(vec![true; w]);
        }
        for k in 0..nl {
            let w = 1 + self.d.below_usize(6);
            vars.push((format!("t{k}"), w));
            assigned.push(vec![false; w]);
        }
        let saved_back = self.captured_back;
        self.captured_back = false;
        self.fscope = Some(FuncScope { assigned });
        let mut body = Vec::new();
        for l in nf..nf + nl {
            let w = vars[l].1;
            // define
            if self.d.chance(1, 3) {
                let c = self.expr(1, 2, true);
                let a = self.expr(w, 1, false);
                let b = self.expr(w, 1, false);
                body.push(Stmt::If(
                    c,
                    vec![Stmt::Assign(vec![Target::Local(l, 0, w)], a)],
                    vec![Stmt::Assign(vec![Target::Local(l, 0, w)], b)],
                ));
            } else {
                let e = self.expr(w, 1, false);
                body.push(Stmt::Assign(vec![Target::Local(l, 0, w)], e));
            }
            self.fscope.as_mut().unwrap().assigned[l] = vec![true; w];
            // sequential partial reassignment, possibly reading the old value
            if self.d.chance(1, 3) {
                let sw = 1 + self.d.below_usize(w);
                let lo = self.d.below_usize(w - sw + 1);
                let e = if self.cfg.defect_selfread {
                    let e = self.expr(sw, 1, false);
                    if reads_local(&e, l, lo, sw) {
                        self.info.self_reads += 1;
                    }
                    e
                } else {
                    for b in lo..lo + sw {
                        self.fscope.as_mut().unwrap().assigned[l][b] = false;
                    }
                    let e = self.expr(sw, 1, false);
                    for b in lo..lo + sw {
                        self.fscope.as_mut().unwrap().assigned[l][b] = true;
                    }
                    e
                };
                let st = Stmt::Assign(vec![Target::Local(l, lo, sw)], e);
                if self.d.chance(1, 3) {
                    let c = self.expr(1, 2, true);
                    body.push(Stmt::If(c, vec![st], vec![]));
                } else {
                    body.push(st);
                }
            }
        }
        // never constant (the checker may fold a constant call used as a condition)
        let ret = self.expr(ret_w, 1, true);
        self.fscope = None;
        let private = self.captured_back;
        self.captured_back = saved_back;
        let ix = self.funcs.len();
        self.funcs.push(Func { name: format!("f{ix}"), vars, n_formals: nf, outs: vec![false; nf], body, ret, ret_w });
        self.func_private.push(private);
        ix
    }

    // ------------------------------------------------------- always_comb

    /// A function without return value whose output formals have the widths `out_w`.
    fn new_proc(&mut self, out_w: &[usize]) -> usize {
        let n_in = 1 + self.d.below_usize(2);
        let nl = self.d.below_usize(2);
        let mut vars = Vec::new();
        let mut assigned = Vec::new();
        let mut outs = Vec::new();
        for k in 0..n_in {
            // mostly as wide as an output, so that a positional copy is possible
            let w = if self.d.chance(2, 3) { out_w[k % out_w.len()] } else { 1 + self.d.below_usize(6) };
            vars.push((format!("a{k}"), w));
            assigned.push(vec![true; w]);
            outs.push(false);
        }
        for (k, w) in out_w.iter().enumerate() {
            vars.push((format!("y{k}"), *w));
            assigned.push(vec![false; *w]);
            outs.push(true);
        }
        let nf = vars.len();
        for k in 0..nl {
            let w = 1 + self.d.below_usize(5);
            vars.push((format!("t{k}"), w));
            assigned.push(vec![false; w]);
        }
        let saved_back = self.captured_back;
        self.captured_back = false;
        self.fscope = Some(FuncScope { assigned });
        let mut body = Vec::new();
        for l in nf..nf + nl {
            let w = vars[l].1;
            let e = self.expr(w, 1, false);
            body.push(Stmt::Assign(vec![Target::Local(l, 0, w)], e));
            self.fscope.as_mut().unwrap().assigned[l] = vec![true; w];
        }
        for l in n_in..nf {
            let w = vars[l].1;
            match self.d.weighted(&[3, 3, 2]) {
                0 => {
                    // positional copy: selects / concatenations of formals only
                    let e = self.func_leaf_local(w);
                    body.push(Stmt::Assign(vec![Target::Local(l, 0, w)], e));
                    self.info.out_body_copy += 1;
                }
                1 => {
                    let e = self.expr(w, 1, false);
                    body.push(Stmt::Assign(vec![Target::Local(l, 0, w)], e));
                    self.info.out_body_other += 1;
                }
                _ => {
                    let c = self.expr(1, 2, true);
                    let a = self.expr(w, 1, false);
                    let b = self.expr(w, 1, false);
                    body.push(Stmt::If(
                        c,
                        vec![Stmt::Assign(vec![Target::Local(l, 0, w)], a)],
                        vec![Stmt::Assign(vec![Target::Local(l, 0, w)], b)],
                    ));
                    self.info.out_body_other += 1;
                }
            }
            self.fscope.as_mut().unwrap().assigned[l] = vec![true; w];
            if self.d.chance(1, 4) {
                // partial re-assignment of the output formal (own bits hidden, see rhs_for)
                let sw = 1 + self.d.below_usize(w);
                let lo = self.d.below_usize(w - sw + 1);
                let hide = !self.cfg.defect_selfread;
                if hide {
                    for b in lo..lo + sw {
                        self.fscope.as_mut().unwrap().assigned[l][b] = false;
                    }
                }
                let e = self.expr(sw, 1, false);
                for b in lo..lo + sw {
                    self.fscope.as_mut().unwrap().assigned[l][b] = true;
                }
                body.push(Stmt::Assign(vec![Target::Local(l, lo, sw)], e));
            }
        }
        self.fscope = None;
        let private = self.captured_back;
        self.captured_back = saved_back;
        let ix = self.funcs.len();
        self.funcs.push(Func { name: format!("f{ix}"), vars, n_formals: nf, outs, body, ret: Expr::Const(0, 0), ret_w: 0 });
        self.func_private.push(private);
        ix
    }

    /// leaf over formals / locals only (no captured module signal)
    fn func_leaf_local(&mut self, w: usize) -> Expr {
        loop {
            let e = self.func_leaf(w, true);
            if !any_expr(&e, &|x| matches!(x, Expr::Ref(_))) {
                return e;
            }
        }
    }

    fn note_actual(&mut self, p: &Place, in_concat: bool) {
        let k = if in_concat {
            5
        } else {
            match &self.sigs[p.sig].shape {
                Shape::Vec(w) => {
                    if p.lo == 0 && p.w == *w {
                        0
                    } else if p.lo > 0 {
                        1
                    } else {
                        2
                    }
                }
                Shape::Struct(_) => 3,
                Shape::Arr { .. } => 4,
            }
        };
        self.info.out_actual[k] += 1;
    }

    /// `f(ins.., outs..);` writing the given groups of places (one group per
    /// output formal; a group of several places is a concatenation actual).
    /// `None` if no more functions may be created.
    fn call_stmt(&mut self, groups: &[Vec<Place>], depth: usize) -> Option<Stmt> {
        let out_w: Vec<usize> = groups.iter().map(|g| g.iter().map(|p| p.w).sum()).collect();
        let n_proc = self.funcs.iter().filter(|f| f.ret_w == 0).count();
        let reusable: Vec<usize> = (0..self.funcs.len())
            .filter(|i| {
                let f = &self.funcs[*i];
                f.ret_w == 0
                    && !self.func_private[*i]
                    && (0..f.n_formals).filter(|k| f.outs[*k]).map(|k| f.vars[k].1).collect::<Vec<_>>() == out_w
            })
            .collect();
        let fi = if !reusable.is_empty() && (n_proc >= 3 || self.d.bool()) {
            reusable[self.d.below_usize(reusable.len())]
        } else if n_proc < 3 {
            self.new_proc(&out_w)
        } else {
            return None;
        };
        // targets hidden while the input actuals are drawn (a re-assignment must
        // not read the bits it writes, see rhs_for)
        let mut hidden = Vec::new();
        if !self.cfg.defect_selfread {
            for g in groups {
                for p in g {
                    for b in 0..p.w {
                        if self.own_assigned.remove(&(p.sig, p.lo + b)) {
                            hidden.push((p.sig, p.lo + b));
                        }
                    }
                }
            }
        }
        let f = self.funcs[fi].clone();
        let mut args = Vec::new();
        let mut gi = 0;
        for k in 0..f.n_formals {
            if f.outs[k] {
                let g = &groups[gi];
                gi += 1;
                for p in g {
                    self.note_actual(p, g.len() > 1);
                }
                args.push(Arg::Out(g.iter().map(|p| Target::Sig(*p)).collect()));
            } else {
                args.push(Arg::In(self.expr(f.vars[k].1, depth + 1, false)));
            }
        }
        self.own_assigned.extend(hidden);
        self.info.out_calls += 1;
        Some(Stmt::Call(fi, args))
    }

    /// assignment of `p` either directly or through an output-argument call
    fn store(&mut self, p: Place, depth: usize) -> Stmt {
        if self.d.chance(1, 4)
            && let Some(s) = self.call_stmt(&[vec![p]], depth)
        {
            return s;
        }
        let e = self.rhs_for(p, depth);
        Stmt::Assign(vec![Target::Sig(p)], e)
    }

    /// One if arm stores the same bits twice or more: the earlier stores are
    /// dead and read something downstream of the final value (a forced back
    /// read); the other arm leaves the signal as assigned before the branch or
    /// reads it.
    fn dead_store_arm(&mut self, c: Place, defined: &[Place]) -> Stmt {
        let cond = self.expr(1, 1, true);
        let p = self.sub_place(c);
        let mut arm = Vec::new();
        let n_dead = 1 + self.d.below_usize(2);
        for _ in 0..n_dead {
            // bits of p stay hidden: the dead store must not read its own target
            let mut hidden = Vec::new();
            for b in 0..p.w {
                if self.own_assigned.remove(&(p.sig, p.lo + b)) {
                    hidden.push((p.sig, p.lo + b));
                }
            }
            self.force_back = true;
            let leaf = self.module_leaf(p.w, true);
            self.force_back = false;
            let dead = if self.d.bool() {
                leaf
            } else {
                let other = self.expr(p.w, 2, false);
                Expr::Bit(BitOp::Xor, Box::new(leaf), Box::new(other))
            };
            self.own_assigned.extend(hidden);
            let mut reads = Vec::new();
            collect_refs(&dead, &mut reads);
            self.info.dead_stores.push((self.module_index, p, reads));
            arm.push(Stmt::Assign(vec![Target::Sig(p)], dead));
        }
        arm.push(self.store(p, 1));
        // the other arm
        let other: Vec<Stmt> = match self.d.weighted(&[2, 2]) {
            0 => vec![],
            _ => {
                // reads the signal: some other defined place gets a value computed from p
                let cands: Vec<Place> = defined.iter().copied().filter(|q| q.sig != p.sig || q.lo + q.w <= p.lo || p.lo + p.w <= q.lo).collect();
                if cands.is_empty() {
                    vec![]
                } else {
                    let q0 = cands[self.d.below_usize(cands.len())];
                    let q = self.sub_place(q0);
                    let e = if q.w <= p.w {
                        let a = self.rhs_for(q, 2);
                        Expr::Bit(BitOp::Xor, Box::new(a), Box::new(Expr::Ref(Place { sig: p.sig, lo: p.lo, w: q.w })))
                    } else {
                        let a = self.rhs_for(Place { sig: q.sig, lo: q.lo, w: q.w - p.w }, 2);
                        Expr::Concat(vec![a, Expr::Ref(p)])
                    };
                    vec![Stmt::Assign(vec![Target::Sig(q)], e)]
                }
            }
        };
        Stmt::If(cond, arm, other)
    }

    fn sub_place(&mut self, c: Place) -> Place {
        if c.w == 1 || self.d.chance(1, 3) {
            return c;
        }
        let w = 1 + self.d.below_usize(c.w);
        let lo = c.lo + self.d.below_usize(c.w - w + 1);
        Place { sig: c.sig, lo, w }
    }

    fn comb(&mut self, chunks: &[Place]) -> Vec<Stmt> {
        self.own.clear();
        self.own_assigned.clear();
        for c in chunks {
            for b in 0..c.w {
                self.own.insert((c.sig, c.lo + b));
            }
        }
        let mut pending: Vec<Place> = chunks.to_vec();
        // shuffle
        for i in (1..pending.len()).rev() {
            let j = self.d.below_usize(i + 1);
            pending.swap(i, j);
        }
        let mut defined: Vec<Place> = Vec::new();
        let mut extras = self.d.weighted(&[3, 3, 2, 1]);
        let mut out = Vec::new();
        while !pending.is_empty() || (extras > 0 && !defined.is_empty()) {
            let define = !pending.is_empty() && (defined.is_empty() || extras == 0 || self.d.chance(2, 3));
            if define {
                let c = pending.pop().unwrap();
                if self.d.chance(1, 4) {
                    // defined by an output-argument call: one or two outputs, or one
                    // output whose actual is a concatenation of two chunks
                    let mut groups = vec![vec![c]];
                    let mut taken = vec![c];
                    if !pending.is_empty() && self.d.chance(1, 3) {
                        let c2 = pending.pop().unwrap();
                        taken.push(c2);
                        if self.d.bool() {
                            groups[0].push(c2);
                        } else {
                            groups.push(vec![c2]);
                        }
                    }
                    if let Some(st) = self.call_stmt(&groups, 0) {
                        out.push(st);
                        for t in taken {
                            self.mark(t);
                            defined.push(t);
                        }
                        continue;
                    }
                    // no function left: fall back to plain assignments below
                    for t in taken.into_iter().skip(1) {
                        pending.push(t);
                    }
                }
                if !pending.is_empty() && self.d.chance(1, 6) {
                    // two chunks at once through a left-hand concatenation
                    let c2 = pending.pop().unwrap();
                    let e = self.expr(c.w + c2.w, 0, false);
                    out.push(Stmt::Assign(vec![Target::Sig(c), Target::Sig(c2)], e));
                    self.mark(c2);
                    defined.push(c2);
                } else if self.d.chance(1, 3) {
                    let cond = self.expr(1, 1, true);
                    let a = self.expr(c.w, 1, false);
                    let b = self.expr(c.w, 1, false);
                    out.push(Stmt::If(
                        cond,
                        vec![Stmt::Assign(vec![Target::Sig(c)], a)],
                        vec![Stmt::Assign(vec![Target::Sig(c)], b)],
                    ));
                } else {
                    let e = self.expr(c.w, 0, false);
                    out.push(Stmt::Assign(vec![Target::Sig(c)], e));
                }
                self.mark(c);
                defined.push(c);
            } else {
                extras -= 1;
                let c = defined[self.d.below_usize(defined.len())];
                let p = self.sub_place(c);
                match self.d.weighted(&[3, 4, 2, 3]) {
                    0 => {
                        // plain sequential reassignment (directly or through a call)
                        let st = self.store(p, 0);
                        out.push(st);
                    }
                    3 => {
                        let st = self.dead_store_arm(c, &defined);
                        out.push(st);
                    }
                    1 => {
                        // override under a condition (the other path keeps the earlier value)
                        let cond = self.expr(1, 1, true);
                        let mut body = vec![self.store(p, 1)];
                        if self.d.chance(1, 5) {
                            let q = self.sub_place(c);
                            let c2 = self.expr(1, 2, true);
                            let e2 = self.rhs_for(q, 2);
                            body.push(Stmt::If(c2, vec![Stmt::Assign(vec![Target::Sig(q)], e2)], vec![]));
                        }
                        out.push(Stmt::If(cond, body, vec![]));
                    }
                    _ => {
                        let cond = self.expr(1, 1, true);
                        let a = self.rhs_for(p, 1);
                        let q = self.sub_place(c);
                        let b = self.rhs_for(q, 1);
                        out.push(Stmt::If(
                            cond,
                            vec![Stmt::Assign(vec![Target::Sig(p)], a)],
                            vec![Stmt::Assign(vec![Target::Sig(q)], b)],
                        ));
                    }
                }
            }
        }
        self.own.clear();
        self.own_assigned.clear();
        out
    }

    /// Right-hand side for a re-assignment of the already assigned place `p`.
    /// Listed finding: a statement that reads bits it also writes is analysed
    /// against partially updated state by the checker, so the main sub never
    /// generates one (the bits are hidden while the expression is drawn).
    fn rhs_for(&mut self, p: Place, depth: usize) -> Expr {
        if self.cfg.defect_selfread {
            let e = self.expr(p.w, depth, false);
            if reads_place(&e, &p) {
                self.info.self_reads += 1;
            }
            return e;
        }
        let mut hidden = Vec::new();
        for b in 0..p.w {
            if self.own_assigned.remove(&(p.sig, p.lo + b)) {
                hidden.push((p.sig, p.lo + b));
            }
        }
        self.info.self_reads_avoided += 1;
        let e = self.expr(p.w, depth, false);
        self.own_assigned.extend(hidden);
        e
    }

    fn mark(&mut self, c: Place) {
        for b in 0..c.w {
            self.own_assigned.insert((c.sig, c.lo + b));
        }
    }
}

fn any_expr(e: &Expr, pred: &dyn Fn(&Expr) -> bool) -> bool {
    if pred(e) {
        return true;
    }
    match e {
        Expr::Ref(_) | Expr::Local(..) | Expr::Const(..) => false,
        Expr::Concat(v) | Expr::Call(_, v) => v.iter().any(|x| any_expr(x, pred)),
        Expr::Not(a) | Expr::Neg(a) | Expr::Red(_, a) | Expr::Shl(a, _) | Expr::Shr(a, _) => any_expr(a, pred),
        Expr::Bit(_, a, b) | Expr::Arith(_, a, b) | Expr::ArithCtx(_, a, b, _) | Expr::Cmp(_, a, b) => {
            any_expr(a, pred) || any_expr(b, pred)
        }
        Expr::Mux(c, a, b) => any_expr(c, pred) || any_expr(a, pred) || any_expr(b, pred),
    }
}

fn collect_refs(e: &Expr, out: &mut Vec<Place>) {
    match e {
        Expr::Ref(p) => out.push(*p),
        Expr::Local(..) | Expr::Const(..) => {}
        Expr::Concat(v) | Expr::Call(_, v) => v.iter().for_each(|x| collect_refs(x, out)),
        Expr::Not(a) | Expr::Neg(a) | Expr::Red(_, a) | Expr::Shl(a, _) | Expr::Shr(a, _) => collect_refs(a, out),
        Expr::Bit(_, a, b) | Expr::Arith(_, a, b) | Expr::ArithCtx(_, a, b, _) | Expr::Cmp(_, a, b) => {
            collect_refs(a, out);
            collect_refs(b, out);
        }
        Expr::Mux(c, a, b) => {
            collect_refs(c, out);
            collect_refs(a, out);
            collect_refs(b, out);
        }
    }
}

fn reads_place(e: &Expr, p: &Place) -> bool {
    any_expr(e, &|x| matches!(x, Expr::Ref(q) if q.sig == p.sig && q.lo < p.lo + p.w && p.lo < q.lo + q.w))
}

fn reads_local(e: &Expr, l: usize, lo: usize, w: usize) -> bool {
    any_expr(e, &|x| matches!(x, Expr::Local(i, qlo, qw) if *i == l && *qlo < lo + w && lo < qlo + qw))
}

fn shuffle<T>(d: &mut Draw, v: &mut [T]) {
    for i in (1..v.len()).rev() {
        let j = d.below_usize(i + 1);
        v.swap(i, j);
    }
}

fn gen_module(
    d: &mut Draw,
    idx: usize,
    prior: &[Module],
    has_clk: bool,
    cfg: Cfg,
    back_left: &mut usize,
    info: &mut GenInfo,
) -> Module {
    let mut sigs: Vec<Sig> = Vec::new();
    let n_in = 1 + d.below_usize(3);
    for k in 0..n_in {
        let w = 1 + d.below_usize(6);
        sigs.push(Sig { name: format!("i{k}"), kind: Kind::In, shape: Shape::Vec(w) });
    }
    // ---- process plan
    let n_proc = 2 + d.below_usize(if cfg.big { 8 } else { 5 });
    let mut kinds: Vec<PKind> = Vec::new();
    let mut chunk_w: Vec<Vec<usize>> = Vec::new();
    for _ in 0..n_proc {
        let k = d.weighted(&[5, 3, if prior.is_empty() { 0 } else { 4 }, if has_clk { 1 } else { 0 }]);
        match k {
            0 => {
                kinds.push(PKind::Assign);
                let n = if d.chance(1, 5) { 2 } else { 1 };
                chunk_w.push((0..n).map(|_| 1 + d.below_usize(5)).collect());
            }
            1 => {
                kinds.push(PKind::Comb);
                let n = 1 + d.below_usize(3);
                chunk_w.push((0..n).map(|_| 1 + d.below_usize(5)).collect());
            }
            2 => {
                // prefer the most recent module (deeper hierarchies)
                let a = d.below_usize(prior.len());
                let b = d.below_usize(prior.len());
                let c = a.max(b);
                kinds.push(PKind::Inst(c));
                chunk_w.push(prior[c].outputs().iter().map(|o| prior[c].sigs[*o].shape.bits()).collect());
            }
            _ => {
                kinds.push(PKind::Ff);
                chunk_w.push(vec![1 + d.below_usize(5)]);
            }
        }
    }
    // ---- pack chunks into signals
    let mut loose: Vec<(usize, usize, usize)> = Vec::new(); // (proc, ordinal, width)
    for (p, ws) in chunk_w.iter().enumerate() {
        if kinds[p] == PKind::Ff {
            continue;
        }
        for (o, w) in ws.iter().enumerate() {
            loose.push((p, o, *w));
        }
    }
    shuffle(d, &mut loose);
    let mut chunk_place: Vec<Vec<Option<Place>>> = chunk_w.iter().map(|v| vec![None; v.len()]).collect();
    let mut level: Vec<Vec<usize>> = sigs.iter().map(|s| vec![0; s.shape.bits()]).collect();
    let mut nvar = 0;
    let mut first = true;
    while let Some((p, o, w)) = loose.pop() {
        let shape_kind = if first { 0 } else { d.weighted(&[6, 2, 2]) };
        first = false;
        let sid = sigs.len();
        let name = format!("v{nvar}");
        nvar += 1;
        let mut members = vec![(p, o, w)];
        match shape_kind {
            1 if !loose.is_empty() => {
                let k = 1 + d.below_usize(2.min(loose.len()));
                for _ in 0..k {
                    members.push(loose.pop().unwrap());
                }
                // fields MSB first; members[0] becomes the lowest field
                let n = members.len();
                let fields: Vec<(String, usize)> = (0..n).map(|i| (format!("g{}", n - 1 - i), members[n - 1 - i].2)).collect();
                sigs.push(Sig { name, kind: Kind::Var, shape: Shape::Struct(fields) });
            }
            2 if loose.iter().any(|x| x.2 == w) => {
                let mut k = 1 + d.below_usize(2);
                let mut i = 0;
                while i < loose.len() && k > 0 {
                    if loose[i].2 == w {
                        members.push(loose.remove(i));
                        k -= 1;
                    } else {
                        i += 1;
                    }
                }
                sigs.push(Sig { name, kind: Kind::Var, shape: Shape::Arr { w, n: members.len() } });
            }
            _ => {
                let mut total = w;
                let k = d.weighted(&[3, 4, 2]);
                for _ in 0..k {
                    if let Some(x) = loose.last()
                        && total + x.2 <= 10
                    {
                        total += x.2;
                        members.push(loose.pop().unwrap());
                    }
                }
                sigs.push(Sig { name, kind: Kind::Var, shape: Shape::Vec(total) });
            }
        }
        let mut lo = 0;
        let mut lv = Vec::new();
        for (mp, mo, mw) in members {
            chunk_place[mp][mo] = Some(Place { sig: sid, lo, w: mw });
            lv.extend(std::iter::repeat_n(mp + 1, mw));
            lo += mw;
        }
        level.push(lv);
    }
    for (p, ws) in chunk_w.iter().enumerate() {
        if kinds[p] == PKind::Ff {
            let sid = sigs.len();
            sigs.push(Sig { name: format!("r{p}"), kind: Kind::Reg, shape: Shape::Vec(ws[0]) });
            level.push(vec![0; ws[0]]);
            chunk_place[p][0] = Some(Place { sig: sid, lo: 0, w: ws[0] });
        }
    }
    // outputs: one or two of the vector-shaped variables
    let vecs: Vec<usize> = (0..sigs.len()).filter(|i| sigs[*i].kind == Kind::Var && matches!(sigs[*i].shape, Shape::Vec(_))).collect();
    let n_out = (1 + d.below_usize(2)).min(vecs.len());
    let mut cand = vecs.clone();
    shuffle(d, &mut cand);
    let mut outs: Vec<usize> = cand.into_iter().take(n_out).collect();
    outs.sort_unstable();
    for (k, s) in outs.iter().enumerate() {
        sigs[*s].kind = Kind::Out;
        sigs[*s].name = format!("o{k}");
    }

    let mut g = MGen {
        d,
        cfg,
        info,
        back_left,
        prior,
        sigs,
        funcs: Vec::new(),
        func_private: Vec::new(),
        level,
        cur: 0,
        own: BTreeSet::new(),
        own_assigned: BTreeSet::new(),
        read_all: false,
        fscope: None,
        in_inst: false,
        captured_back: false,
        force_back: false,
        module_index: idx,
    };
    let mut items = Vec::new();
    let mut n_inst = 0;
    for p in 0..n_proc {
        g.cur = p + 1;
        let places: Vec<Place> = chunk_place[p].iter().map(|x| x.unwrap()).collect();
        match kinds[p] {
            PKind::Assign => {
                let w: usize = places.iter().map(|x| x.w).sum();
                let e = if g.cfg.defect_narrow && w >= 2 && g.d.chance(1, 3) {
                    g.info.narrow_used += 1;
                    let ow = 1 + g.d.below_usize(w - 1);
                    let op = *g.d.pick(&[ArOp::Add, ArOp::Sub]);
                    let a = g.expr(ow, 1, true);
                    let b = g.expr(ow, 1, false);
                    Expr::ArithCtx(op, Box::new(a), Box::new(b), w)
                } else {
                    g.expr(w, 0, false)
                };
                items.push(Item::Assign(places, e));
            }
            PKind::Comb => {
                let ss = g.comb(&places);
                items.push(Item::Comb(ss));
            }
            PKind::Inst(c) => {
                g.in_inst = true;
                let child = &g.prior[c];
                let in_w: Vec<usize> = child.inputs().iter().map(|i| child.sigs[*i].shape.bits()).collect();
                let ins = in_w.into_iter().map(|w| g.expr(w, 1, false)).collect();
                g.in_inst = false;
                items.push(Item::Inst { name: format!("u{n_inst}"), child: c, ins, outs: places });
                n_inst += 1;
            }
            PKind::Ff => {
                g.read_all = true;
                let e = g.expr(places[0].w, 1, false);
                g.read_all = false;
                items.push(Item::Ff(places[0].sig, e));
            }
        }
    }
    let mut order: Vec<usize> = (0..items.len()).collect();
    if g.d.bool() {
        shuffle(g.d, &mut order);
    }
    Module { name: format!("M{idx}"), sigs: g.sigs, funcs: g.funcs, items, order, has_clk }
}

pub fn gen_design(d: &mut Draw, cfg: Cfg) -> (Design, GenInfo) {
    let n_mod = 1 + d.weighted(&[3, 4, 4]);
    let has_clk = d.chance(1, 4);
    let mut info = GenInfo::default();
    let mut back_left = cfg.back_budget;
    let mut modules: Vec<Module> = Vec::new();
    for idx in 0..n_mod {
        let m = gen_module(d, idx, &modules, has_clk, cfg, &mut back_left, &mut info);
        modules.push(m);
    }
    (Design { modules }, info)
}
