//! The veryl front end driven the way `veryl check` drives it: parse, pass 1,
//! post-pass 1, pass 2 (builds the analyzer IR), post-pass 2 (runs
//! `comb_loop_detect::check` among others).  Must be called on a fresh thread
//! per design (parser / analyzer tables are thread-local; `ctx.run` does that).

use miette::Diagnostic;
use std::path::Path;
use veryl_analyzer::ir::Ir;
use veryl_analyzer::{Analyzer, AnalyzerError, Context};
use veryl_metadata::Metadata;
use veryl_parser::Parser;

#[derive(Clone, Debug)]
pub struct Diag {
    pub is_error: bool,
    pub code: String,
    pub message: String,
    /// `CombinationalLoop`: byte offset of the primary location in the text
    pub loop_at: Option<usize>,
}

fn rec(e: &AnalyzerError) -> Diag {
    Diag {
        is_error: e.is_error(),
        code: e.code().map(|c| c.to_string()).unwrap_or_default(),
        message: e.to_string(),
        loop_at: match e {
            AnalyzerError::CombinationalLoop { error_location, .. } => Some(error_location.offset()),
            _ => None,
        },
    }
}

/// `None` if the text does not parse.
pub fn analyze(text: &str) -> Option<Vec<Diag>> {
    let md = Metadata::create_default("prj").expect("default metadata");
    let parsed = Parser::parse(text, &Path::new("d.veryl")).ok()?;
    let mut diags = Vec::new();
    let prj = md.project.name.clone();
    let analyzer = Analyzer::new(&md);
    for e in analyzer.analyze_pass1(&prj, &parsed.veryl) {
        diags.push(rec(&e));
    }
    for e in Analyzer::analyze_post_pass1() {
        diags.push(rec(&e));
    }
    let mut context = Context::default();
    let mut ir = Ir::default();
    for e in analyzer.analyze_pass2(&parsed.veryl, &mut context, Some(&mut ir)) {
        diags.push(rec(&e));
    }
    for e in Analyzer::analyze_post_pass2(&ir) {
        diags.push(rec(&e));
    }
    analyzer.clear();
    Some(diags)
}
