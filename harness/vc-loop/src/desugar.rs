//! Metamorphic attribution for one listed finding: an equivalent design in
//! which no statement reads bits it also writes (every such read goes through
//! a fresh temporary that is assigned just before the statement).  If the
//! checker's verdict is right on the rewritten design and wrong on the
//! original, the wrong verdict is due to that construct.

use crate::ir::*;

fn overlaps(a_lo: usize, a_w: usize, b_lo: usize, b_w: usize) -> bool {
    a_lo < b_lo + b_w && b_lo < a_lo + a_w
}

/// Replace reads that overlap the targets; returns the (temp index, read) pairs created.
fn rewrite_expr(e: &mut Expr, ts: &[Target], fresh: &mut dyn FnMut(&Expr, usize) -> Expr) {
    let hit = match e {
        Expr::Ref(q) => ts.iter().any(|t| matches!(t, Target::Sig(p) if p.sig == q.sig && overlaps(p.lo, p.w, q.lo, q.w))),
        Expr::Local(i, lo, w) => ts.iter().any(|t| matches!(t, Target::Local(j, plo, pw) if j == i && overlaps(*plo, *pw, *lo, *w))),
        _ => false,
    };
    if hit {
        let w = match e {
            Expr::Ref(q) => q.w,
            Expr::Local(_, _, w) => *w,
            _ => unreachable!(),
        };
        *e = fresh(e, w);
        return;
    }
    match e {
        Expr::Ref(_) | Expr::Local(..) | Expr::Const(..) => {}
        Expr::Concat(v) | Expr::Call(_, v) => v.iter_mut().for_each(|x| rewrite_expr(x, ts, fresh)),
        Expr::Not(a) | Expr::Neg(a) | Expr::Red(_, a) | Expr::Shl(a, _) | Expr::Shr(a, _) => rewrite_expr(a, ts, fresh),
        Expr::Bit(_, a, b) | Expr::Arith(_, a, b) | Expr::ArithCtx(_, a, b, _) | Expr::Cmp(_, a, b) => {
            rewrite_expr(a, ts, fresh);
            rewrite_expr(b, ts, fresh);
        }
        Expr::Mux(c, a, b) => {
            rewrite_expr(c, ts, fresh);
            rewrite_expr(a, ts, fresh);
            rewrite_expr(b, ts, fresh);
        }
    }
}

/// `mk(width) -> (target of the new temporary, read of it)`
fn rewrite_stmts(ss: &mut Vec<Stmt>, mk: &mut dyn FnMut(usize) -> (Target, Expr), defaults: &mut Vec<Stmt>, count: &mut usize) {
    let mut i = 0;
    while i < ss.len() {
        let mut pre: Vec<Stmt> = Vec::new();
        match &mut ss[i] {
            Stmt::Assign(ts, e) => {
                let ts2 = ts.clone();
                let mut fresh = |old: &Expr, w: usize| -> Expr {
                    let (t, r) = mk(w);
                    defaults.push(Stmt::Assign(vec![t], Expr::Const(w, 0)));
                    pre.push(Stmt::Assign(vec![t], old.clone()));
                    *count += 1;
                    r
                };
                rewrite_expr(e, &ts2, &mut fresh);
            }
            Stmt::If(_, t, f) => {
                rewrite_stmts(t, mk, defaults, count);
                rewrite_stmts(f, mk, defaults, count);
            }
            // input actuals are evaluated before the call writes anything
            Stmt::Call(..) => {}
        }
        let n = pre.len();
        for (k, p) in pre.into_iter().enumerate() {
            ss.insert(i + k, p);
        }
        i += n + 1;
    }
}

pub fn desugar_self_reads(d: &Design) -> (Design, usize) {
    let mut d = d.clone();
    let mut count = 0;
    for m in d.modules.iter_mut() {
        let mut new_sigs: Vec<Sig> = Vec::new();
        let base = m.sigs.len();
        for it in m.items.iter_mut() {
            if let Item::Comb(ss) = it {
                let mut defaults = Vec::new();
                let mut mk = |w: usize| -> (Target, Expr) {
                    let sid = base + new_sigs.len();
                    new_sigs.push(Sig { name: format!("w{}", new_sigs.len()), kind: Kind::Var, shape: Shape::Vec(w) });
                    let p = Place { sig: sid, lo: 0, w };
                    (Target::Sig(p), Expr::Ref(p))
                };
                rewrite_stmts(ss, &mut mk, &mut defaults, &mut count);
                for (k, s) in defaults.into_iter().enumerate() {
                    ss.insert(k, s);
                }
            }
        }
        m.sigs.extend(new_sigs);
        for f in m.funcs.iter_mut() {
            let mut defaults = Vec::new();
            let vars = std::cell::RefCell::new(&mut f.vars);
            let mut mk = |w: usize| -> (Target, Expr) {
                let mut v = vars.borrow_mut();
                let ix = v.len();
                v.push((format!("w{ix}"), w));
                (Target::Local(ix, 0, w), Expr::Local(ix, 0, w))
            };
            rewrite_stmts(&mut f.body, &mut mk, &mut defaults, &mut count);
            for (k, s) in defaults.into_iter().enumerate() {
                f.body.insert(k, s);
            }
        }
    }
    (d, count)
}

/// `~s` with `s` a whole packed-struct variable rewritten to the equivalent
/// `~{s}` (second metamorphic attribution: the analyzer types `~s` as 1 bit).
pub fn rewrite_struct_not(d: &Design) -> (Design, usize) {
    let mut d = d.clone();
    let mut count = 0;
    for m in d.modules.iter_mut() {
        let whole: Vec<Option<usize>> =
            m.sigs.iter().map(|s| if matches!(s.shape, Shape::Struct(_)) { Some(s.shape.bits()) } else { None }).collect();
        crate::shrink::visit_module(
            m,
            &mut |e| {
                if let Expr::Not(a) = e
                    && let Expr::Ref(p) = a.as_ref()
                    && whole[p.sig] == Some(p.w)
                    && p.lo == 0
                {
                    let r = Expr::Ref(*p);
                    *e = Expr::Not(Box::new(Expr::Concat(vec![r])));
                    count += 1;
                }
            },
            &mut |_| {},
        );
    }
    (d, count)
}
