//! The oracle: dependency graphs computed from the harness IR only.
//!
//! Per module (children summarised by their input-bit -> output-bit
//! reachability, which is exact for the question "is there a cycle"):
//!
//! * `fine`   — bit level.  Bit-to-bit for copies, selects, concatenations,
//!   bitwise operators, constant shifts and the data inputs of `if ? :`;
//!   all-read-bits -> all-result-bits for arithmetic, comparison, reduction and
//!   logical operators (4-state: one x operand bit makes every result bit x);
//!   conditions -> every bit assigned under them; inside `always_comb` and
//!   function bodies a read sees the latest earlier write (statement order);
//!   functions are inlined per call; instances are flattened.
//! * `doc`    — `fine` made as coarse as the checker documents itself to be
//!   (c14.rs `DOCUMENTED_COARSE`): instance boundaries are port level
//!   (`ModuleCombSummary`: "Port-level only"), a constant shift nested under an
//!   every-bit operator keeps the bits shifted out; modules in which the
//!   bounded end-point propagation loses a boundary (periodic.rs) are held to
//!   `coarse` only.
//! * `coarse` — one node per variable / port, no statement order.
//!
//! `Sem` also carries the *defect models*: the semantics the checker is known
//! to apply wrongly, used only to attribute a missed loop to a listed finding.

use crate::ir::*;
use std::collections::{BTreeMap, BTreeSet};

#[derive(Clone, Copy, Debug, Default)]
pub struct Sem {
    /// instance boundaries at port level
    pub port_level: bool,
    /// unused function formals are dependencies of the result (not used: the
    /// checker turned out to be precise here)
    pub unused_formal: bool,
    /// a constant shift nested under an every-bit operator (arithmetic,
    /// comparison, reduction) does not drop the bits shifted out: the checker
    /// collects every bit *mentioned* in such an operand
    pub flat_under_op: bool,
    /// defect model: unary minus treated as a bitwise operator
    pub neg_bitwise: bool,
    /// defect model: bits of an assignment above the self-determined width of
    /// the right-hand side are constant (no carry into the context width)
    pub narrow_zero: bool,
}

pub type Node = u32;
pub type Deps = BTreeSet<Node>;

#[derive(Clone, Debug, Default)]
pub struct ModGraph {
    pub n: usize,
    pub base: Vec<usize>,
    /// (src, dst, item index that produced the edge)
    pub edges: Vec<(Node, Node, usize)>,
    /// for each (input port ordinal, bit): set of (output port ordinal, bit) reachable
    pub feed: BTreeSet<(usize, usize, usize, usize)>,
}

struct Eval<'a> {
    d: &'a Design,
    m: &'a Module,
    sem: Sem,
    base: Vec<usize>,
    unused_formals: Vec<Vec<bool>>,
}

#[derive(Clone, Default)]
struct Env {
    /// SSA state of the enclosing always_comb: latest write per module bit
    written: BTreeMap<Node, Deps>,
    /// function frame: per local, per bit
    locals: Vec<Vec<Deps>>,
}

fn union_all(v: &[Deps]) -> Deps {
    let mut s = Deps::new();
    for x in v {
        s.extend(x.iter().copied());
    }
    s
}

impl Eval<'_> {
    fn node(&self, sig: SigId, bit: usize) -> Node {
        (self.base[sig] + bit) as Node
    }

    fn expr(&self, e: &Expr, env: &Env) -> Vec<Deps> {
        self.expr_f(e, env, false)
    }

    /// `flat`: we are inside an operand of an every-bit operator under `flat_under_op`
    fn expr_f(&self, e: &Expr, env: &Env, flat: bool) -> Vec<Deps> {
        let fs = &self.m.funcs;
        let under = flat || self.sem.flat_under_op;
        match e {
            Expr::Ref(p) => (0..p.w)
                .map(|i| {
                    let n = self.node(p.sig, p.lo + i);
                    match env.written.get(&n) {
                        Some(d) => d.clone(),
                        None => {
                            // a register is a source: reading it is not a
                            // combinational dependency on anything, but the node
                            // itself is harmless (nothing drives it combinationally)
                            [n].into_iter().collect()
                        }
                    }
                })
                .collect(),
            Expr::Local(i, lo, w) => (0..*w).map(|k| env.locals[*i][lo + k].clone()).collect(),
            Expr::Const(w, _) => vec![Deps::new(); *w],
            Expr::Concat(parts) => {
                let mut v = Vec::new();
                for p in parts.iter().rev() {
                    v.extend(self.expr_f(p, env, flat));
                }
                v
            }
            Expr::Not(a) => self.expr_f(a, env, flat),
            Expr::Neg(a) => {
                let v = self.expr_f(a, env, if self.sem.neg_bitwise { flat } else { under });
                if self.sem.neg_bitwise {
                    v
                } else {
                    let all = union_all(&v);
                    vec![all; v.len()]
                }
            }
            Expr::Bit(_, a, b) => {
                let x = self.expr_f(a, env, flat);
                let y = self.expr_f(b, env, flat);
                x.into_iter()
                    .zip(y)
                    .map(|(mut p, q)| {
                        p.extend(q);
                        p
                    })
                    .collect()
            }
            Expr::Arith(_, a, b) => {
                let mut all = union_all(&self.expr_f(a, env, under));
                all.extend(union_all(&self.expr_f(b, env, under)));
                vec![all; width(e, fs)]
            }
            Expr::ArithCtx(_, a, b, cw) => {
                let x = self.expr_f(a, env, under);
                let mut all = union_all(&x);
                all.extend(union_all(&self.expr_f(b, env, under)));
                if self.sem.narrow_zero {
                    let mut v = vec![all; x.len()];
                    v.resize(*cw, Deps::new());
                    v
                } else {
                    vec![all; *cw]
                }
            }
            Expr::Cmp(_, a, b) => {
                let mut all = union_all(&self.expr_f(a, env, under));
                all.extend(union_all(&self.expr_f(b, env, under)));
                vec![all]
            }
            Expr::Red(_, a) => vec![union_all(&self.expr_f(a, env, under))],
            Expr::Mux(c, a, b) => {
                let cd = union_all(&self.expr_f(c, env, under));
                let x = self.expr_f(a, env, flat);
                let y = self.expr_f(b, env, flat);
                x.into_iter()
                    .zip(y)
                    .map(|(mut p, q)| {
                        p.extend(q);
                        p.extend(cd.iter().copied());
                        p
                    })
                    .collect()
            }
            Expr::Shl(a, _) | Expr::Shr(a, _) if flat => self.expr_f(a, env, flat),
            Expr::Shl(a, k) => {
                let x = self.expr(a, env);
                (0..x.len()).map(|i| if i >= *k { x[i - k].clone() } else { Deps::new() }).collect()
            }
            Expr::Shr(a, k) => {
                let x = self.expr(a, env);
                (0..x.len()).map(|i| if i + k < x.len() { x[i + k].clone() } else { Deps::new() }).collect()
            }
            Expr::Call(fi, args) => {
                let f = &fs[*fi];
                let mut frame = Env { written: env.written.clone(), locals: Vec::new() };
                let mut extra = Deps::new();
                for (k, a) in args.iter().enumerate() {
                    let v = self.expr(a, env);
                    if self.sem.unused_formal && self.unused_formals[*fi][k] {
                        extra.extend(union_all(&v));
                    }
                    frame.locals.push(v);
                }
                for (_, w) in &f.vars[f.n_formals..] {
                    frame.locals.push(vec![Deps::new(); *w]);
                }
                self.stmts(&f.body, &mut frame, &Deps::new());
                let mut r = self.expr(&f.ret, &frame);
                if !extra.is_empty() {
                    for b in r.iter_mut() {
                        b.extend(extra.iter().copied());
                    }
                }
                r
            }
        }
    }

    fn stmts(&self, ss: &[Stmt], env: &mut Env, ctrl: &Deps) {
        for s in ss {
            match s {
                Stmt::Assign(ts, e) => {
                    let v = self.expr(e, env);
                    let mut off = 0;
                    for t in ts.iter().rev() {
                        for i in 0..t.w() {
                            let mut dep = v[off + i].clone();
                            dep.extend(ctrl.iter().copied());
                            match t {
                                Target::Sig(p) => {
                                    env.written.insert(self.node(p.sig, p.lo + i), dep);
                                }
                                Target::Local(ix, lo, _) => env.locals[*ix][lo + i] = dep,
                            }
                        }
                        off += t.w();
                    }
                    assert_eq!(off, v.len(), "assignment width mismatch in the harness IR");
                }
                Stmt::Call(fi, args) => {
                    // inputs are evaluated first (they see the state before the
                    // call), the body runs in its own frame, then every output
                    // formal is copied bit by bit onto its actual (MSB first)
                    let f = &self.m.funcs[*fi];
                    let mut frame = Env { written: env.written.clone(), locals: Vec::new() };
                    for (k, a) in args.iter().enumerate() {
                        match a {
                            Arg::In(e) => frame.locals.push(self.expr(e, env)),
                            Arg::Out(_) => frame.locals.push(vec![Deps::new(); f.vars[k].1]),
                        }
                    }
                    for (_, w) in &f.vars[f.n_formals..] {
                        frame.locals.push(vec![Deps::new(); *w]);
                    }
                    self.stmts(&f.body, &mut frame, &Deps::new());
                    for (k, a) in args.iter().enumerate() {
                        if let Arg::Out(ts) = a {
                            let v = &frame.locals[k];
                            let mut off = 0;
                            for t in ts.iter().rev() {
                                for i in 0..t.w() {
                                    let mut dep = v[off + i].clone();
                                    dep.extend(ctrl.iter().copied());
                                    match t {
                                        Target::Sig(p) => {
                                            env.written.insert(self.node(p.sig, p.lo + i), dep);
                                        }
                                        Target::Local(ix, lo, _) => env.locals[*ix][lo + i] = dep,
                                    }
                                }
                                off += t.w();
                            }
                            assert_eq!(off, v.len(), "output actual width mismatch in the harness IR");
                        }
                    }
                }
                Stmt::If(c, t, f) => {
                    let mut cd = union_all(&self.expr_f(c, env, self.sem.flat_under_op));
                    cd.extend(ctrl.iter().copied());
                    let mut et = env.clone();
                    self.stmts(t, &mut et, &cd);
                    let mut ef = env.clone();
                    self.stmts(f, &mut ef, &cd);
                    // merge: a value that differs between the two exits is selected
                    // by the condition
                    let keys: BTreeSet<Node> = et.written.keys().chain(ef.written.keys()).copied().collect();
                    for k in keys {
                        let a = et.written.get(&k);
                        let b = ef.written.get(&k);
                        let merged = match (a, b) {
                            (Some(x), Some(y)) => {
                                let mut u = x.clone();
                                u.extend(y.iter().copied());
                                u
                            }
                            // written on one path only and never before: the other
                            // path retains the old value (a latch; not generated),
                            // which is state, not a combinational read
                            (Some(x), None) | (None, Some(x)) => x.clone(),
                            (None, None) => unreachable!(),
                        };
                        env.written.insert(k, merged);
                    }
                    for i in 0..env.locals.len() {
                        for b in 0..env.locals[i].len() {
                            let mut u = et.locals[i][b].clone();
                            u.extend(ef.locals[i][b].iter().copied());
                            env.locals[i][b] = u;
                        }
                    }
                }
            }
        }
    }
}

fn expr_uses_local(e: &Expr, ix: usize) -> bool {
    match e {
        Expr::Local(i, _, _) => *i == ix,
        Expr::Ref(_) | Expr::Const(..) => false,
        Expr::Concat(v) => v.iter().any(|x| expr_uses_local(x, ix)),
        Expr::Not(a) | Expr::Neg(a) | Expr::Red(_, a) | Expr::Shl(a, _) | Expr::Shr(a, _) => expr_uses_local(a, ix),
        Expr::Bit(_, a, b) | Expr::Arith(_, a, b) | Expr::ArithCtx(_, a, b, _) | Expr::Cmp(_, a, b) => {
            expr_uses_local(a, ix) || expr_uses_local(b, ix)
        }
        Expr::Mux(c, a, b) => expr_uses_local(c, ix) || expr_uses_local(a, ix) || expr_uses_local(b, ix),
        Expr::Call(_, args) => args.iter().any(|x| expr_uses_local(x, ix)),
    }
}

fn stmts_use_local(ss: &[Stmt], ix: usize) -> bool {
    ss.iter().any(|s| match s {
        Stmt::Assign(_, e) => expr_uses_local(e, ix),
        Stmt::If(c, t, f) => expr_uses_local(c, ix) || stmts_use_local(t, ix) || stmts_use_local(f, ix),
        Stmt::Call(_, args) => args.iter().any(|a| matches!(a, Arg::In(e) if expr_uses_local(e, ix))),
    })
}

/// formals never read anywhere in the function (syntactically)
pub fn unused_formals(f: &Func) -> Vec<bool> {
    (0..f.n_formals).map(|i| !(stmts_use_local(&f.body, i) || expr_uses_local(&f.ret, i))).collect()
}

/// Is some node of `to` reachable from some node of `from` (in one or more steps)?
pub fn reaches(g: &ModGraph, from: &[Node], to: &BTreeSet<Node>) -> bool {
    let mut adj: Vec<Vec<Node>> = vec![Vec::new(); g.n];
    for (s, t, _) in &g.edges {
        adj[*s as usize].push(*t);
    }
    let mut seen = vec![false; g.n];
    let mut st: Vec<Node> = Vec::new();
    for f in from {
        for y in &adj[*f as usize] {
            if !seen[*y as usize] {
                seen[*y as usize] = true;
                st.push(*y);
            }
        }
    }
    while let Some(x) = st.pop() {
        if to.contains(&x) {
            return true;
        }
        for y in &adj[x as usize] {
            if !seen[*y as usize] {
                seen[*y as usize] = true;
                st.push(*y);
            }
        }
    }
    false
}

/// Bit-level graphs of every module of the design under `sem`.
pub fn build(d: &Design, sem: Sem) -> Vec<ModGraph> {
    let mut graphs: Vec<ModGraph> = Vec::new();
    for m in &d.modules {
        let mut base = Vec::new();
        let mut n = 0;
        for s in &m.sigs {
            base.push(n);
            n += s.shape.bits();
        }
        let ev = Eval {
            d,
            m,
            sem,
            base: base.clone(),
            unused_formals: m.funcs.iter().map(unused_formals).collect(),
        };
        let _ = ev.d;
        let mut edges: Vec<(Node, Node, usize)> = Vec::new();
        for (ix, it) in m.items.iter().enumerate() {
            match it {
                Item::Assign(ps, e) => {
                    let v = ev.expr(e, &Env::default());
                    let mut off = 0;
                    for p in ps.iter().rev() {
                        for i in 0..p.w {
                            let dst = ev.node(p.sig, p.lo + i);
                            for s in &v[off + i] {
                                edges.push((*s, dst, ix));
                            }
                        }
                        off += p.w;
                    }
                    assert_eq!(off, v.len(), "assign width mismatch in the harness IR");
                }
                Item::Comb(ss) => {
                    let mut env = Env::default();
                    ev.stmts(ss, &mut env, &Deps::new());
                    for (dst, deps) in &env.written {
                        for s in deps {
                            edges.push((*s, *dst, ix));
                        }
                    }
                }
                Item::Ff(..) => {}
                Item::Inst { child, ins, outs, .. } => {
                    let c = &d.modules[*child];
                    let cg = &graphs[*child];
                    let cin = c.inputs();
                    let cout = c.outputs();
                    // port level: every bit *mentioned* in the actual counts (a shift
                    // inside the actual does not drop bits), see InstanceActualAnalysis
                    let act: Vec<Vec<Deps>> = ins.iter().map(|e| ev.expr_f(e, &Env::default(), sem.port_level)).collect();
                    if sem.port_level {
                        let mut pairs: BTreeSet<(usize, usize)> = BTreeSet::new();
                        for (ip, _, op, _) in &cg.feed {
                            pairs.insert((*ip, *op));
                        }
                        for (ip, op) in pairs {
                            let srcs = union_all(&act[ip]);
                            let o = outs[op];
                            for b in 0..o.w {
                                let dst = ev.node(o.sig, o.lo + b);
                                for s in &srcs {
                                    edges.push((*s, dst, ix));
                                }
                            }
                        }
                    } else {
                        for (ip, ib, op, ob) in &cg.feed {
                            let o = outs[*op];
                            let dst = ev.node(o.sig, o.lo + ob);
                            for s in &act[*ip][*ib] {
                                edges.push((*s, dst, ix));
                            }
                        }
                    }
                    let _ = (cin, cout);
                }
            }
        }
        edges.sort_unstable();
        edges.dedup();
        // feedthrough summary of this module
        let mut adj: Vec<Vec<Node>> = vec![Vec::new(); n];
        for (s, t, _) in &edges {
            adj[*s as usize].push(*t);
        }
        let outs = m.outputs();
        let mut out_of: BTreeMap<Node, (usize, usize)> = BTreeMap::new();
        for (k, o) in outs.iter().enumerate() {
            for b in 0..m.sigs[*o].shape.bits() {
                out_of.insert((base[*o] + b) as Node, (k, b));
            }
        }
        let mut feed = BTreeSet::new();
        for (k, i) in m.inputs().iter().enumerate() {
            for b in 0..m.sigs[*i].shape.bits() {
                let start = (base[*i] + b) as Node;
                let mut seen = vec![false; n];
                let mut st = vec![start];
                seen[start as usize] = true;
                while let Some(x) = st.pop() {
                    if let Some((ok, ob)) = out_of.get(&x) {
                        feed.insert((k, b, *ok, *ob));
                    }
                    for y in &adj[x as usize] {
                        if !seen[*y as usize] {
                            seen[*y as usize] = true;
                            st.push(*y);
                        }
                    }
                }
            }
        }
        graphs.push(ModGraph { n, base, edges, feed });
    }
    graphs
}

/// Strongly connected components (iterative Tarjan); returns the components
/// that contain a cycle (size > 1 or a self edge).
pub fn cyclic_sccs(n: usize, edges: &[(Node, Node)]) -> Vec<Vec<Node>> {
    let mut adj: Vec<Vec<Node>> = vec![Vec::new(); n];
    let mut selfloop = vec![false; n];
    for (s, t) in edges {
        adj[*s as usize].push(*t);
        if s == t {
            selfloop[*s as usize] = true;
        }
    }
    let mut index = vec![usize::MAX; n];
    let mut low = vec![0usize; n];
    let mut on = vec![false; n];
    let mut stack: Vec<usize> = Vec::new();
    let mut next = 0usize;
    let mut out = Vec::new();
    for root in 0..n {
        if index[root] != usize::MAX {
            continue;
        }
        let mut work: Vec<(usize, usize)> = vec![(root, 0)];
        while let Some(&mut (v, ref mut ci)) = work.last_mut() {
            if *ci == 0 {
                index[v] = next;
                low[v] = next;
                next += 1;
                stack.push(v);
                on[v] = true;
            }
            if *ci < adj[v].len() {
                let w = adj[v][*ci] as usize;
                *ci += 1;
                if index[w] == usize::MAX {
                    work.push((w, 0));
                } else if on[w] {
                    low[v] = low[v].min(index[w]);
                }
            } else {
                work.pop();
                if let Some(&(p, _)) = work.last() {
                    low[p] = low[p].min(low[v]);
                }
                if low[v] == index[v] {
                    let mut comp = Vec::new();
                    loop {
                        let w = stack.pop().unwrap();
                        on[w] = false;
                        comp.push(w as Node);
                        if w == v {
                            break;
                        }
                    }
                    if comp.len() > 1 || selfloop[v] {
                        out.push(comp);
                    }
                }
            }
        }
    }
    out
}

#[derive(Clone, Debug, Default)]
pub struct CycleInfo {
    pub cyclic: bool,
    /// largest number of distinct items (processes) whose edges lie inside one cyclic SCC
    pub max_items: usize,
    /// some cyclic SCC contains an edge produced by an instance
    pub through_inst: bool,
    /// item indices participating in cyclic SCCs
    pub items: BTreeSet<usize>,
    /// bit nodes of all cyclic SCCs
    pub nodes: BTreeSet<Node>,
}

pub fn cycle_info(m: &Module, g: &ModGraph) -> CycleInfo {
    let plain: Vec<(Node, Node)> = g.edges.iter().map(|(s, t, _)| (*s, *t)).collect();
    let sccs = cyclic_sccs(g.n, &plain);
    let mut info = CycleInfo::default();
    for comp in sccs {
        info.cyclic = true;
        let set: BTreeSet<Node> = comp.into_iter().collect();
        let mut items = BTreeSet::new();
        for (s, t, ix) in &g.edges {
            if set.contains(s) && set.contains(t) {
                items.insert(*ix);
            }
        }
        info.max_items = info.max_items.max(items.len());
        if items.iter().any(|ix| matches!(m.items[*ix], Item::Inst { .. })) {
            info.through_inst = true;
        }
        info.items.extend(items);
        info.nodes.extend(set);
    }
    info
}

// ------------------------------------------------------------------ coarse

fn expr_sigs(e: &Expr, funcs: &[Func], out: &mut BTreeSet<SigId>) {
    match e {
        Expr::Ref(p) => {
            out.insert(p.sig);
        }
        Expr::Local(..) | Expr::Const(..) => {}
        Expr::Concat(v) => v.iter().for_each(|x| expr_sigs(x, funcs, out)),
        Expr::Not(a) | Expr::Neg(a) | Expr::Red(_, a) | Expr::Shl(a, _) | Expr::Shr(a, _) => expr_sigs(a, funcs, out),
        Expr::Bit(_, a, b) | Expr::Arith(_, a, b) | Expr::ArithCtx(_, a, b, _) | Expr::Cmp(_, a, b) => {
            expr_sigs(a, funcs, out);
            expr_sigs(b, funcs, out);
        }
        Expr::Mux(c, a, b) => {
            expr_sigs(c, funcs, out);
            expr_sigs(a, funcs, out);
            expr_sigs(b, funcs, out);
        }
        Expr::Call(f, args) => {
            args.iter().for_each(|x| expr_sigs(x, funcs, out));
            let f = &funcs[*f];
            stmts_sigs(&f.body, funcs, out);
            expr_sigs(&f.ret, funcs, out);
        }
    }
}

fn stmts_sigs(ss: &[Stmt], funcs: &[Func], out: &mut BTreeSet<SigId>) {
    for s in ss {
        match s {
            Stmt::Assign(_, e) => expr_sigs(e, funcs, out),
            Stmt::If(c, t, f) => {
                expr_sigs(c, funcs, out);
                stmts_sigs(t, funcs, out);
                stmts_sigs(f, funcs, out);
            }
            Stmt::Call(fi, args) => {
                for a in args {
                    if let Arg::In(e) = a {
                        expr_sigs(e, funcs, out);
                    }
                }
                stmts_sigs(&funcs[*fi].body, funcs, out);
            }
        }
    }
}

fn coarse_stmts(ss: &[Stmt], funcs: &[Func], ctrl: &BTreeSet<SigId>, edges: &mut Vec<(Node, Node)>) {
    for s in ss {
        match s {
            Stmt::Assign(ts, e) => {
                let mut r = ctrl.clone();
                expr_sigs(e, funcs, &mut r);
                for t in ts {
                    if let Target::Sig(p) = t {
                        for x in &r {
                            edges.push((*x as Node, p.sig as Node));
                        }
                    }
                }
            }
            Stmt::If(c, t, f) => {
                let mut cc = ctrl.clone();
                expr_sigs(c, funcs, &mut cc);
                coarse_stmts(t, funcs, &cc, edges);
                coarse_stmts(f, funcs, &cc, edges);
            }
            Stmt::Call(fi, args) => {
                let mut r = ctrl.clone();
                for a in args {
                    if let Arg::In(e) = a {
                        expr_sigs(e, funcs, &mut r);
                    }
                }
                stmts_sigs(&funcs[*fi].body, funcs, &mut r);
                for a in args {
                    if let Arg::Out(ts) = a {
                        for t in ts {
                            if let Target::Sig(p) = t {
                                for x in &r {
                                    edges.push((*x as Node, p.sig as Node));
                                }
                            }
                        }
                    }
                }
            }
        }
    }
}

/// Variable-level graphs: per module (edges, port-level feedthrough pairs).
pub fn coarse(d: &Design) -> Vec<(usize, Vec<(Node, Node)>)> {
    let mut res: Vec<(usize, Vec<(Node, Node)>)> = Vec::new();
    let mut feeds: Vec<BTreeSet<(usize, usize)>> = Vec::new();
    for m in &d.modules {
        let mut edges = Vec::new();
        for it in &m.items {
            match it {
                Item::Assign(ps, e) => {
                    let mut r = BTreeSet::new();
                    expr_sigs(e, &m.funcs, &mut r);
                    for p in ps {
                        for x in &r {
                            edges.push((*x as Node, p.sig as Node));
                        }
                    }
                }
                Item::Comb(ss) => coarse_stmts(ss, &m.funcs, &BTreeSet::new(), &mut edges),
                Item::Ff(..) => {}
                Item::Inst { child, ins, outs, .. } => {
                    for (ip, op) in &feeds[*child] {
                        let mut r = BTreeSet::new();
                        expr_sigs(&ins[*ip], &m.funcs, &mut r);
                        for x in &r {
                            edges.push((*x as Node, outs[*op].sig as Node));
                        }
                    }
                }
            }
        }
        edges.sort_unstable();
        edges.dedup();
        let n = m.sigs.len();
        let mut adj = vec![Vec::new(); n];
        for (s, t) in &edges {
            adj[*s as usize].push(*t as usize);
        }
        let outs = m.outputs();
        let mut feed = BTreeSet::new();
        for (k, i) in m.inputs().iter().enumerate() {
            let mut seen = vec![false; n];
            let mut st = vec![*i];
            seen[*i] = true;
            while let Some(x) = st.pop() {
                if let Some(ok) = outs.iter().position(|o| *o == x) {
                    feed.insert((k, ok));
                }
                for y in &adj[x] {
                    if !seen[*y] {
                        seen[*y] = true;
                        st.push(*y);
                    }
                }
            }
        }
        feeds.push(feed);
        res.push((n, edges));
    }
    res
}
