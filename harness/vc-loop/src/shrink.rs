//! Structural minimisation of a failing design on the harness IR (the choice
//! sequence shrinks poorly because one early choice moves everything after
//! it).  Every candidate is re-judged by the full oracle, so a minimised
//! reproducer fails for the same root-cause signature as the original.

use crate::ir::*;

/// Conditions must keep a variable leaf: the checker legitimately prunes the
/// dead branch of a constant condition, which a shrunk design must not rely on.
fn has_var_leaf(e: &Expr) -> bool {
    match e {
        Expr::Ref(_) | Expr::Local(..) => true,
        Expr::Const(..) => false,
        Expr::Concat(v) | Expr::Call(_, v) => v.iter().any(has_var_leaf),
        Expr::Not(a) | Expr::Neg(a) | Expr::Red(_, a) | Expr::Shl(a, _) | Expr::Shr(a, _) => has_var_leaf(a),
        Expr::Bit(_, a, b) | Expr::Arith(_, a, b) | Expr::ArithCtx(_, a, b, _) | Expr::Cmp(_, a, b) => has_var_leaf(a) || has_var_leaf(b),
        Expr::Mux(c, a, b) => has_var_leaf(c) || has_var_leaf(a) || has_var_leaf(b),
    }
}

fn expr_variants(e: &Expr, funcs: &[Func], out: &mut Vec<Expr>) {
    let w = width(e, funcs);
    if !matches!(e, Expr::Const(..)) {
        out.push(Expr::Const(w, 0));
    }
    let wrap = |out: &mut Vec<Expr>, child: &Expr, mk: &dyn Fn(Expr) -> Expr| {
        let mut vs = Vec::new();
        expr_variants(child, funcs, &mut vs);
        for v in vs {
            out.push(mk(v));
        }
    };
    match e {
        Expr::Ref(p) => {
            // narrower reads do not preserve the width: nothing
            let _ = p;
        }
        Expr::Local(..) | Expr::Const(..) => {}
        Expr::Concat(parts) => {
            if parts.len() == 1 {
                out.push(parts[0].clone());
            }
            for i in 0..parts.len() {
                let mut vs = Vec::new();
                expr_variants(&parts[i], funcs, &mut vs);
                for v in vs {
                    let mut p = parts.clone();
                    p[i] = v;
                    out.push(Expr::Concat(p));
                }
            }
            // merge two adjacent constants
            for i in 0..parts.len().saturating_sub(1) {
                if let (Expr::Const(a, _), Expr::Const(b, _)) = (&parts[i], &parts[i + 1]) {
                    let mut p = parts.clone();
                    p[i] = Expr::Const(a + b, 0);
                    p.remove(i + 1);
                    out.push(if p.len() == 1 { p.pop().unwrap() } else { Expr::Concat(p) });
                }
            }
        }
        Expr::Not(a) => {
            out.push((**a).clone());
            wrap(out, a, &|v| Expr::Not(Box::new(v)));
        }
        Expr::Neg(a) => {
            out.push((**a).clone());
            wrap(out, a, &|v| Expr::Neg(Box::new(v)));
        }
        Expr::Shl(a, k) => {
            out.push((**a).clone());
            wrap(out, a, &|v| Expr::Shl(Box::new(v), *k));
        }
        Expr::Shr(a, k) => {
            out.push((**a).clone());
            wrap(out, a, &|v| Expr::Shr(Box::new(v), *k));
        }
        Expr::Bit(op, a, b) => {
            out.push((**a).clone());
            out.push((**b).clone());
            wrap(out, a, &|v| Expr::Bit(*op, Box::new(v), b.clone()));
            wrap(out, b, &|v| Expr::Bit(*op, a.clone(), Box::new(v)));
        }
        Expr::Arith(op, a, b) => {
            out.push((**a).clone());
            out.push((**b).clone());
            wrap(out, a, &|v| Expr::Arith(*op, Box::new(v), b.clone()));
            wrap(out, b, &|v| Expr::Arith(*op, a.clone(), Box::new(v)));
        }
        Expr::ArithCtx(op, a, b, cw) => {
            wrap(out, a, &|v| Expr::ArithCtx(*op, Box::new(v), b.clone(), *cw));
            wrap(out, b, &|v| Expr::ArithCtx(*op, a.clone(), Box::new(v), *cw));
        }
        Expr::Cmp(op, a, b) => {
            if width(a, funcs) == 1 {
                out.push((**a).clone());
                out.push((**b).clone());
            }
            let logical = matches!(op, CmpOp::LAnd | CmpOp::LOr);
            let mut vs = Vec::new();
            expr_variants(a, funcs, &mut vs);
            for v in vs {
                // a constant left operand of && / || lets the checker drop the right one
                if !logical || has_var_leaf(&v) {
                    out.push(Expr::Cmp(*op, Box::new(v), b.clone()));
                }
            }
            let mut vs = Vec::new();
            expr_variants(b, funcs, &mut vs);
            for v in vs {
                if !logical || has_var_leaf(&v) {
                    out.push(Expr::Cmp(*op, a.clone(), Box::new(v)));
                }
            }
        }
        Expr::Red(op, a) => {
            if width(a, funcs) == 1 {
                out.push((**a).clone());
            }
            wrap(out, a, &|v| Expr::Red(*op, Box::new(v)));
        }
        Expr::Mux(c, a, b) => {
            out.push((**a).clone());
            out.push((**b).clone());
            {
                let mut vs = Vec::new();
                expr_variants(c, funcs, &mut vs);
                for v in vs {
                    if has_var_leaf(&v) {
                        out.push(Expr::Mux(Box::new(v), a.clone(), b.clone()));
                    }
                }
            }
            wrap(out, a, &|v| Expr::Mux(c.clone(), Box::new(v), b.clone()));
            wrap(out, b, &|v| Expr::Mux(c.clone(), a.clone(), Box::new(v)));
        }
        Expr::Call(f, args) => {
            for i in 0..args.len() {
                let mut vs = Vec::new();
                expr_variants(&args[i], funcs, &mut vs);
                for v in vs {
                    let mut a = args.clone();
                    a[i] = v;
                    out.push(Expr::Call(*f, a));
                }
            }
        }
    }
}

fn stmts_variants(ss: &[Stmt], funcs: &[Func], out: &mut Vec<Vec<Stmt>>) {
    for i in 0..ss.len() {
        let mut v = ss.to_vec();
        v.remove(i);
        out.push(v);
    }
    for i in 0..ss.len() {
        match &ss[i] {
            Stmt::Assign(ts, e) => {
                let mut vs = Vec::new();
                expr_variants(e, funcs, &mut vs);
                for x in vs {
                    let mut v = ss.to_vec();
                    v[i] = Stmt::Assign(ts.clone(), x);
                    out.push(v);
                }
            }
            Stmt::Call(fi, args) => {
                for k in 0..args.len() {
                    if let Arg::In(e) = &args[k] {
                        let mut vs = Vec::new();
                        expr_variants(e, funcs, &mut vs);
                        for x in vs {
                            let mut a = args.clone();
                            a[k] = Arg::In(x);
                            let mut v = ss.to_vec();
                            v[i] = Stmt::Call(*fi, a);
                            out.push(v);
                        }
                    }
                }
            }
            Stmt::If(c, t, f) => {
                for body in [t, f] {
                    let mut v = ss.to_vec();
                    v.splice(i..=i, body.iter().cloned());
                    out.push(v);
                }
                let mut vs = Vec::new();
                expr_variants(c, funcs, &mut vs);
                for x in vs {
                    if !has_var_leaf(&x) {
                        continue;
                    }
                    let mut v = ss.to_vec();
                    v[i] = Stmt::If(x, t.clone(), f.clone());
                    out.push(v);
                }
                let mut ts = Vec::new();
                stmts_variants(t, funcs, &mut ts);
                for x in ts {
                    let mut v = ss.to_vec();
                    v[i] = Stmt::If(c.clone(), x, f.clone());
                    out.push(v);
                }
                let mut fs = Vec::new();
                stmts_variants(f, funcs, &mut fs);
                for x in fs {
                    let mut v = ss.to_vec();
                    v[i] = Stmt::If(c.clone(), t.clone(), x);
                    out.push(v);
                }
            }
        }
    }
}

fn candidates(d: &Design) -> Vec<Design> {
    let mut out = Vec::new();
    let nm = d.modules.len();
    // drop a module nobody instantiates
    if nm > 1 {
        for i in (0..nm).rev() {
            let used = d.modules.iter().any(|m| m.items.iter().any(|it| matches!(it, Item::Inst { child, .. } if *child == i)));
            if used {
                continue;
            }
            let mut c = d.clone();
            c.modules.remove(i);
            for m in c.modules.iter_mut() {
                for it in m.items.iter_mut() {
                    if let Item::Inst { child, .. } = it
                        && *child > i
                    {
                        *child -= 1;
                    }
                }
            }
            out.push(c);
        }
    }
    for mi in 0..nm {
        let m = &d.modules[mi];
        for (ix, it) in m.items.iter().enumerate() {
            let mut push = |new: Item| {
                let mut c = d.clone();
                c.modules[mi].items[ix] = new;
                out.push(c);
            };
            match it {
                Item::Assign(ps, e) => {
                    let mut vs = Vec::new();
                    expr_variants(e, &m.funcs, &mut vs);
                    for v in vs {
                        push(Item::Assign(ps.clone(), v));
                    }
                }
                Item::Comb(ss) => {
                    let mut vs = Vec::new();
                    stmts_variants(ss, &m.funcs, &mut vs);
                    for v in vs {
                        push(Item::Comb(v));
                    }
                }
                Item::Ff(s, e) => {
                    let mut vs = Vec::new();
                    expr_variants(e, &m.funcs, &mut vs);
                    for v in vs {
                        push(Item::Ff(*s, v));
                    }
                }
                Item::Inst { name, child, ins, outs } => {
                    // the instance replaced by constants on its outputs
                    push(Item::Comb(outs.iter().map(|p| Stmt::Assign(vec![Target::Sig(*p)], Expr::Const(p.w, 0))).collect()));
                    for k in 0..ins.len() {
                        let mut vs = Vec::new();
                        expr_variants(&ins[k], &m.funcs, &mut vs);
                        for v in vs {
                            let mut i2 = ins.clone();
                            i2[k] = v;
                            push(Item::Inst { name: name.clone(), child: *child, ins: i2, outs: outs.clone() });
                        }
                    }
                }
            }
        }
        for (fi, f) in m.funcs.iter().enumerate() {
            let mut vs = Vec::new();
            stmts_variants(&f.body, &m.funcs, &mut vs);
            for v in vs {
                let mut c = d.clone();
                c.modules[mi].funcs[fi].body = v;
                out.push(c);
            }
            let mut rs = Vec::new();
            expr_variants(&f.ret, &m.funcs, &mut rs);
            for v in rs {
                if !has_var_leaf(&v) {
                    continue;
                }
                let mut c = d.clone();
                c.modules[mi].funcs[fi].ret = v;
                out.push(c);
            }
        }
        if m.has_clk && !m.items.iter().any(|it| matches!(it, Item::Ff(..))) && d.modules.iter().all(|x| !x.items.iter().any(|it| matches!(it, Item::Ff(..)))) {
            let mut c = d.clone();
            for x in c.modules.iter_mut() {
                x.has_clk = false;
            }
            out.push(c);
        }
        if m.order.iter().enumerate().any(|(a, b)| a != *b) {
            let mut c = d.clone();
            c.modules[mi].order = (0..m.items.len()).collect();
            out.push(c);
        }
    }
    out
}

// ------------------------------------------------------------ cleanup

fn visit_expr(e: &mut Expr, f: &mut dyn FnMut(&mut Expr)) {
    f(e);
    match e {
        Expr::Ref(_) | Expr::Local(..) | Expr::Const(..) => {}
        Expr::Concat(v) | Expr::Call(_, v) => v.iter_mut().for_each(|x| visit_expr(x, f)),
        Expr::Not(a) | Expr::Neg(a) | Expr::Red(_, a) | Expr::Shl(a, _) | Expr::Shr(a, _) => visit_expr(a, f),
        Expr::Bit(_, a, b) | Expr::Arith(_, a, b) | Expr::ArithCtx(_, a, b, _) | Expr::Cmp(_, a, b) => {
            visit_expr(a, f);
            visit_expr(b, f);
        }
        Expr::Mux(c, a, b) => {
            visit_expr(c, f);
            visit_expr(a, f);
            visit_expr(b, f);
        }
    }
}

fn visit_stmts(ss: &mut [Stmt], fe: &mut dyn FnMut(&mut Expr), ft: &mut dyn FnMut(&mut Target)) {
    for s in ss {
        match s {
            Stmt::Assign(ts, e) => {
                ts.iter_mut().for_each(|t| ft(t));
                visit_expr(e, fe);
            }
            Stmt::If(c, t, f) => {
                visit_expr(c, fe);
                visit_stmts(t, fe, ft);
                visit_stmts(f, fe, ft);
            }
            Stmt::Call(_, args) => {
                for a in args.iter_mut() {
                    match a {
                        Arg::In(e) => visit_expr(e, fe),
                        Arg::Out(ts) => ts.iter_mut().for_each(|t| ft(t)),
                    }
                }
            }
        }
    }
}

pub fn visit_module(m: &mut Module, fe: &mut dyn FnMut(&mut Expr), fp: &mut dyn FnMut(&mut Place)) {
    for f in m.funcs.iter_mut() {
        visit_stmts(&mut f.body, fe, &mut |_| {});
        visit_expr(&mut f.ret, fe);
    }
    for it in m.items.iter_mut() {
        match it {
            Item::Assign(ps, e) => {
                ps.iter_mut().for_each(|p| fp(p));
                visit_expr(e, fe);
            }
            Item::Comb(ss) => {
                let mut ft = |t: &mut Target| {
                    if let Target::Sig(p) = t {
                        fp(p)
                    }
                };
                visit_stmts(ss, fe, &mut ft);
            }
            Item::Ff(_, e) => visit_expr(e, fe),
            Item::Inst { ins, outs, .. } => {
                ins.iter_mut().for_each(|e| visit_expr(e, fe));
                outs.iter_mut().for_each(|p| fp(p));
            }
        }
    }
}

fn stmt_calls_in(ss: &mut [Stmt], f: &mut dyn FnMut(&mut usize)) {
    for s in ss {
        match s {
            Stmt::Assign(..) => {}
            Stmt::If(_, t, e) => {
                stmt_calls_in(t, f);
                stmt_calls_in(e, f);
            }
            Stmt::Call(fi, _) => f(fi),
        }
    }
}

/// function indices of statement-style calls
fn stmt_calls(m: &mut Module, f: &mut dyn FnMut(&mut usize)) {
    for func in m.funcs.iter_mut() {
        stmt_calls_in(&mut func.body, f);
    }
    for it in m.items.iter_mut() {
        if let Item::Comb(ss) = it {
            stmt_calls_in(ss, f);
        }
    }
}

/// Drop functions that are never called and variables that are never mentioned.
fn cleanup(d: &Design) -> Design {
    let mut d = d.clone();
    for m in d.modules.iter_mut() {
        // empty always_comb blocks left behind by statement removal
        let keep: Vec<bool> = m.items.iter().map(|it| !matches!(it, Item::Comb(ss) if ss.is_empty())).collect();
        let map: Vec<usize> = {
            let mut k = 0;
            keep.iter()
                .map(|u| {
                    let r = k;
                    if *u {
                        k += 1;
                    }
                    r
                })
                .collect()
        };
        let mut idx = 0;
        m.items.retain(|_| {
            idx += 1;
            keep[idx - 1]
        });
        m.order = m.order.iter().filter(|i| keep[**i]).map(|i| map[*i]).collect();
        // functions
        let mut used = vec![false; m.funcs.len()];
        visit_module(
            m,
            &mut |e| {
                if let Expr::Call(f, _) = e {
                    used[*f] = true;
                }
            },
            &mut |_| {},
        );
        stmt_calls(m, &mut |f| used[*f] = true);
        let map: Vec<usize> = {
            let mut k = 0;
            used.iter()
                .map(|u| {
                    let r = k;
                    if *u {
                        k += 1;
                    }
                    r
                })
                .collect()
        };
        let mut idx = 0;
        m.funcs.retain(|_| {
            idx += 1;
            used[idx - 1]
        });
        visit_module(
            m,
            &mut |e| {
                if let Expr::Call(f, _) = e {
                    *f = map[*f];
                }
            },
            &mut |_| {},
        );
        stmt_calls(m, &mut |f| *f = map[*f]);
        // signals
        let mut sused = vec![false; m.sigs.len()];
        for (i, s) in m.sigs.iter().enumerate() {
            if matches!(s.kind, Kind::In | Kind::Out) {
                sused[i] = true;
            }
        }
        let ffs: Vec<SigId> = m.items.iter().filter_map(|it| if let Item::Ff(s, _) = it { Some(*s) } else { None }).collect();
        for s in ffs {
            sused[s] = true;
        }
        {
            let cell = std::cell::RefCell::new(&mut sused);
            visit_module(
                m,
                &mut |e| {
                    if let Expr::Ref(p) = e {
                        cell.borrow_mut()[p.sig] = true;
                    }
                },
                &mut |p| cell.borrow_mut()[p.sig] = true,
            );
        }
        let smap: Vec<usize> = {
            let mut k = 0;
            sused
                .iter()
                .map(|u| {
                    let r = k;
                    if *u {
                        k += 1;
                    }
                    r
                })
                .collect()
        };
        // struct type names carry the signal index: keep names stable by
        // renaming nothing; only indices move
        let mut idx = 0;
        m.sigs.retain(|_| {
            idx += 1;
            sused[idx - 1]
        });
        visit_module(
            m,
            &mut |e| {
                if let Expr::Ref(p) = e {
                    p.sig = smap[p.sig];
                }
            },
            &mut |p| p.sig = smap[p.sig],
        );
        for it in m.items.iter_mut() {
            if let Item::Ff(s, _) = it {
                *s = smap[*s];
            }
        }
    }
    d
}

/// Greedy minimisation; `fails` must be true for `d`.
pub fn shrink(d: &Design, fails: &dyn Fn(&Design) -> bool, budget: usize) -> Design {
    let mut cur = d.clone();
    let mut calls = 0;
    loop {
        let mut progressed = false;
        let mut k = 0;
        let mut cands = candidates(&cur);
        while k < cands.len() {
            if calls >= budget {
                break;
            }
            calls += 1;
            if fails(&cands[k]) {
                cur = cands[k].clone();
                cands = candidates(&cur);
                progressed = true;
                // stay at the same position: the list shifted towards us
            } else {
                k += 1;
            }
        }
        if !progressed || calls >= budget {
            break;
        }
    }
    let c = cleanup(&cur);
    if fails(&c) { c } else { cur }
}
