//! C14 — "Combinational loop detection is exact".
//!
//! Generated-input search: designs of the dependency dialect (dgen.rs) are
//! rendered to Veryl, analysed by the real front end (front.rs: the passes
//! `veryl check` runs), and the `CombinationalLoop` verdict of every module is
//! compared with three graphs computed from the harness' own IR (graph.rs):
//!
//!   fine   ⊆ doc ⊆ coarse            (as "has a cycle" predicates)
//!
//!   R2  fine has a cycle                  ⇒ a loop is reported   (else *missed loop*)
//!   R3  a loop is reported                ⇒ doc has a cycle      (else *false loop*)
//!   R1  a loop is reported                ⇒ coarse has a cycle   (else *false loop
//!                                           beyond any granularity*)
//!
//! `doc` is `fine` coarsened exactly where the checker documents that it is
//! coarser than bit level (see `DOCUMENTED_COARSE`); where `fine` and `doc`
//! agree the module is *decided exactly*, otherwise either verdict is accepted
//! and counted.

use crate::dgen::{self, Cfg};
use crate::front;
use crate::graph::{self, Sem};
use crate::ir::*;
use serde_json::Value;
use vcore::{CaseCfg, Ctx, Draw, Outcome, hash_str, json};

/// Constructs for which the checker promises bit-level precision (so the
/// exact direction R3 is asserted at bit level), each with the place in /repo
/// that makes the promise.  A test states the promise whether or not it is
/// currently `#[ignore]`d: on this tree most "comb-loop migration: false
/// positive" markers are stale (the ignored positional tests for shifts,
/// ternaries, bitwise operators, left-hand concatenations and unused function
/// actuals all hold when run through the front end).
pub const BIT_PRECISE: &[(&str, &str)] = &[
    ("bit / part selects, both sides", "region.rs NodeKey doc: \"bit-disjoint reads/writes form disjoint nodes\"; tests.rs comb_loop_through_disjoint_bits; procedural_tests ..disjoint_partial_write_self_reference.., ..opposite_directions_on_disjoint_bits"),
    ("array elements with constant index", "function_tests ..static_array_elements_remain_distinct_regions; procedural_tests ..forward_array_chain.., ..bit_precise_nodekey_distinguishes_ca_0_ca_1_ca_2.."),
    ("packed struct members", "function_tests ..static_struct_members_remain_distinct_regions"),
    ("concatenation on the right and on the left", "positional_tests preserves_concatenated_lhs_bits.. (both), ..concatenation_permutation_preserves_structural_feedback, ..local_concatenation_does_not_taint_a_constant_low_bit"),
    ("bitwise operators ~ & | ^ ~^", "positional_tests ..same_width_bitwise_operators_preserve_positional_provenance; sparse_tests ..same_width_bitwise_operators_retain_same_bit_feedback"),
    ("constant shifts at the top level of an assignment / concatenation / bitwise expression", "positional_tests preserves_constant_shift_positions.., preserves_local_right_shift_positions.., left_shift_beyond_width_has_no_value_dependency"),
    ("if ? : data inputs (condition -> every bit)", "positional_tests preserves_vector_ternary_positions.., preserves_nested_vector_ternary_positions.."),
    ("statement order in always_comb, branch merges", "ssa.rs module doc \"statement-ordered SSA state\"; procedural_tests statement_order_and_observer_semantics.., ..procedural_overwrite_within_always_comb_is_not_a_loop.., ordered_module_scope_reassignments_are_feed_forward, ..case_phi_with_complete_definitions"),
    ("if conditions -> every bit assigned under them", "procedural_tests if_assignment_to_array_is_feed_forward_condition_driven_loop_is_reported"),
    ("functions: per-call inlining, return bits, locals in statement order, unused actuals", "function_tests preserves_vector_function_return_bits.., ..function_local_partial_writes_are_ordered, ..function_bit_select_must_not_taint_a_disjoint_actual_bit, function_local_state_does_not_leak_between_calls, ..merely_evaluating_an.. (unused actual)"),
    ("always_ff registers break paths", "procedural_tests ..ff_broken_feedback..; module_tests ..module_instance_with_ff_driven_output.."),
    ("parent side of an instance connection (actual reads, destination bits)", "comb_loop_detect.rs ModuleCombSummary doc: \"the parent keeps bit precision via BitPartition\"; module_tests ..a_static_slice_connection_does_not_contaminate_its_sibling_bit"),
];

/// Where `doc` is coarser than `fine`; R3 is asserted against `doc`, and a
/// module on which the two disagree accepts either verdict (counted).
pub const DOCUMENTED_COARSE: &[(&str, &str)] = &[
    ("module instance boundary: child input port -> child output port; every bit read by the actual -> every destination bit", "comb_loop_detect.rs `ModuleCombSummary` doc: \"Port-level only -- the parent keeps bit precision via BitPartition\""),
    ("periodic transfers: when a range end point would have to cross the same positional copy relation twice (e.g. `assign o[7:1] = o[6:0];`) the partition is deliberately not refined to single bits; such a module is held to the variable-level graph only", "comb_loop_detect.rs propagate_packed_endpoints comment: \"Each observed endpoint crosses each directed relation once ... Reusing a direction around an offset cycle would materialize periodic repetitions as one boundary per vector bit\"; periodic.rs over-approximates the condition"),
    ("a constant shift nested under an every-bit operator (arithmetic, comparison, reduction, condition) does not drop the bits shifted out", "not documented either way: the tests promise shift positions only at the top level of an assignment, and promise that such operators depend on \"every operand bit\" (sparse_tests ..four_state_arithmetic.., ..reduction_operators..); observed: `(o << 2) * c` counts o[2:1]. Accepted either way rather than reported (a false alarm is worse than a missed bug)"),
];

use std::sync::atomic::{AtomicU64, Ordering};
static EXCL_SELF_READ: AtomicU64 = AtomicU64::new(0);
static EXCL_STRUCT_NOT: AtomicU64 = AtomicU64::new(0);
static DECIDED_EXACT_MODULES: AtomicU64 = AtomicU64::new(0);
static DECIDED_EITHER_MODULES: AtomicU64 = AtomicU64::new(0);

#[derive(Clone, Copy, PartialEq)]
enum Mode {
    Main,
    Defects,
}

fn expr_has(e: &Expr, pred: &dyn Fn(&Expr) -> bool) -> bool {
    if pred(e) {
        return true;
    }
    match e {
        Expr::Ref(_) | Expr::Local(..) | Expr::Const(..) => false,
        Expr::Concat(v) | Expr::Call(_, v) => v.iter().any(|x| expr_has(x, pred)),
        Expr::Not(a) | Expr::Neg(a) | Expr::Red(_, a) | Expr::Shl(a, _) | Expr::Shr(a, _) => expr_has(a, pred),
        Expr::Bit(_, a, b) | Expr::Arith(_, a, b) | Expr::ArithCtx(_, a, b, _) | Expr::Cmp(_, a, b) => {
            expr_has(a, pred) || expr_has(b, pred)
        }
        Expr::Mux(c, a, b) => expr_has(c, pred) || expr_has(a, pred) || expr_has(b, pred),
    }
}

fn stmts_have(ss: &[Stmt], pred: &dyn Fn(&Expr) -> bool) -> bool {
    ss.iter().any(|s| match s {
        Stmt::Assign(_, e) => expr_has(e, pred),
        Stmt::If(c, t, f) => expr_has(c, pred) || stmts_have(t, pred) || stmts_have(f, pred),
        Stmt::Call(_, args) => args.iter().any(|a| matches!(a, Arg::In(e) if expr_has(e, pred))),
    })
}

fn item_has(it: &Item, pred: &dyn Fn(&Expr) -> bool) -> bool {
    match it {
        Item::Assign(_, e) | Item::Ff(_, e) => expr_has(e, pred),
        Item::Comb(ss) => stmts_have(ss, pred),
        Item::Inst { ins, .. } => ins.iter().any(|e| expr_has(e, pred)),
    }
}

/// always_comb with sequential reassignment: some bit is assigned more than
/// once and the block reads one of its own bits in between / afterwards
fn comb_seq_reassign(ss: &[Stmt]) -> bool {
    fn walk(ss: &[Stmt], seen: &mut std::collections::BTreeSet<(SigId, usize)>, twice: &mut bool, own_read: &mut bool) {
        for s in ss {
            match s {
                Stmt::Assign(ts, e) => {
                    if expr_has(e, &|x| matches!(x, Expr::Ref(p) if (0..p.w).any(|i| seen.contains(&(p.sig, p.lo + i))))) {
                        *own_read = true;
                    }
                    for t in ts {
                        if let Target::Sig(p) = t {
                            for i in 0..p.w {
                                if !seen.insert((p.sig, p.lo + i)) {
                                    *twice = true;
                                }
                            }
                        }
                    }
                }
                Stmt::If(c, t, f) => {
                    if expr_has(c, &|x| matches!(x, Expr::Ref(p) if (0..p.w).any(|i| seen.contains(&(p.sig, p.lo + i))))) {
                        *own_read = true;
                    }
                    walk(t, seen, twice, own_read);
                    walk(f, seen, twice, own_read);
                }
                Stmt::Call(_, args) => {
                    for a in args {
                        if let Arg::In(e) = a
                            && expr_has(e, &|x| matches!(x, Expr::Ref(p) if (0..p.w).any(|i| seen.contains(&(p.sig, p.lo + i)))))
                        {
                            *own_read = true;
                        }
                    }
                    for a in args {
                        if let Arg::Out(ts) = a {
                            for t in ts {
                                if let Target::Sig(p) = t {
                                    for i in 0..p.w {
                                        if !seen.insert((p.sig, p.lo + i)) {
                                            *twice = true;
                                        }
                                    }
                                }
                            }
                        }
                    }
                }
            }
        }
    }
    let mut seen = Default::default();
    let (mut twice, mut own_read) = (false, false);
    walk(ss, &mut seen, &mut twice, &mut own_read);
    twice && own_read
}

fn node_name(m: &Module, g: &graph::ModGraph, n: graph::Node) -> String {
    let n = n as usize;
    let s = (0..m.sigs.len()).rev().find(|s| g.base[*s] <= n).unwrap();
    format!("{}#{}", m.sigs[s].name, n - g.base[s])
}

fn witness(m: &Module, g: &graph::ModGraph) -> String {
    let plain: Vec<(graph::Node, graph::Node)> = g.edges.iter().map(|(s, t, _)| (*s, *t)).collect();
    let sccs = graph::cyclic_sccs(g.n, &plain);
    sccs.iter()
        .take(2)
        .map(|c| {
            let mut v: Vec<String> = c.iter().map(|n| node_name(m, g, *n)).collect();
            v.sort();
            format!("{{{}}}", v.join(" "))
        })
        .collect::<Vec<_>>()
        .join(" ; ")
}

struct Verdicts {
    fine: Vec<graph::CycleInfo>,
    doc: Vec<bool>,
    coarse: Vec<bool>,
    periodic: Vec<bool>,
}

fn verdicts(d: &Design, sem_extra: Sem) -> (Verdicts, Vec<graph::ModGraph>) {
    let gf = graph::build(d, sem_extra);
    let gd = graph::build(d, Sem { port_level: true, flat_under_op: true, ..sem_extra });
    let gc = graph::coarse(d);
    let fine = d.modules.iter().zip(&gf).map(|(m, g)| graph::cycle_info(m, g)).collect();
    let coarse: Vec<bool> = gc.iter().map(|(n, e)| !graph::cyclic_sccs(*n, e).is_empty()).collect();
    let periodic: Vec<bool> = d.modules.iter().map(crate::periodic::may_be_coarse).collect();
    // where the bounded end-point propagation may leave multi-bit atoms, only
    // the variable-level graph bounds what the checker may report
    let doc = (0..d.modules.len())
        .map(|i| if periodic[i] { coarse[i] } else { graph::cycle_info(&d.modules[i], &gd[i]).cyclic })
        .collect();
    (Verdicts { fine, doc, coarse, periodic }, gf)
}

enum Judged {
    Skip(String),
    Fail { sig: String, msg: String, module: String },
    Ok { v: Verdicts, reported: Vec<bool>, text: String, warned: bool, gf: Vec<graph::ModGraph> },
}

/// Render, analyse with the real front end, compare with the graphs.
fn judge(design: &Design, _mode: Mode) -> Judged {
    let (text, spans) = render(design);
    let Some(diags) = front::analyze(&text) else {
        return Judged::Skip("generated text does not parse (harness)".into());
    };
    // acceptance: the loop verdict must be the only error.  The one warning
    // the dialect can draw is `unassign_variable` (an always_comb that reads
    // bits of a variable it partly writes, the bits read being driven by
    // another process: flagged at variable granularity, C15's subject); it
    // does not affect the loop analysis and is kept, counted as a class.
    if let Some(o) = diags.iter().find(|x| x.loop_at.is_none() && (x.is_error || x.code != "unassign_variable")) {
        return Judged::Skip(format!("not accepted: {} {}", if o.is_error { "error" } else { "warning" }, o.code));
    }
    let warned = diags.iter().any(|x| x.loop_at.is_none());
    let nm = design.modules.len();
    let mut reported = vec![false; nm];
    for x in diags.iter().filter(|x| x.loop_at.is_some()) {
        let at = x.loop_at.unwrap();
        match spans.iter().position(|(a, b)| *a <= at && at < *b) {
            Some(i) => reported[i] = true,
            None => {
                return Judged::Fail {
                    sig: "harness/loop-location-outside-modules".into(),
                    msg: format!("loop diagnostic at byte {at} is in no module"),
                    module: String::new(),
                };
            }
        }
    }
    let (v, gf) = verdicts(design, Sem::default());
    for i in 0..nm {
        let m = &design.modules[i];
        let (fine, doc, coarse, rep) = (v.fine[i].cyclic, v.doc[i], v.coarse[i], reported[i]);
        let fail = |sig: &str, what: &str, extra: String| Judged::Fail {
            sig: sig.to_string(),
            msg: format!("module {}: {what}\nreported={rep} fine_cycle={fine} doc_cycle={doc} variable_cycle={coarse}\n{extra}", m.name),
            module: m.name.clone(),
        };
        if fine && !rep {
            let sig = attribute(design, i, "missed-loop");
            return fail(
                &sig,
                "a true bit-level cycle is not reported",
                format!("cycle (bit nodes of one SCC): {}", witness(m, &gf[i])),
            );
        }
        if rep && !coarse {
            return fail(&attribute(design, i, "false-loop/no-variable-level-cycle"), "a loop is reported although not even the variable-level graph has a cycle", String::new());
        }
        if rep && !doc {
            return fail(
                &attribute(design, i, "false-loop/bit-precise-constructs-only"),
                "a loop is reported although the bit-level graph (coarsened where the checker documents it) has no cycle",
                String::new(),
            );
        }
    }
    Judged::Ok { v, reported, text, warned, gf }
}

/// Root-cause attribution of a wrong verdict on module `i` to a listed
/// finding; the raw signature if none explains it.
fn attribute(design: &Design, i: usize, raw: &str) -> String {
    if raw == "missed-loop" {
        // the cycle only exists under the correct semantics of a construct the
        // checker is known to model wrongly
        let (vn, _) = verdicts(design, Sem { neg_bitwise: true, ..Sem::default() });
        if !vn.fine[i].cyclic {
            return "missed-loop/unary-minus-treated-bitwise".into();
        }
        let (vc, _) = verdicts(design, Sem { narrow_zero: true, ..Sem::default() });
        if !vc.fine[i].cyclic {
            return "missed-loop/carry-into-context-width-dropped".into();
        }
    }
    // the verdict becomes right once no statement reads bits it also writes
    let (d2, n) = crate::desugar::desugar_self_reads(design);
    if n > 0 && matches!(judge_isolated(&d2, Mode::Main), Judged::Ok { .. }) {
        return "wrong-verdict/statement-reads-bits-it-writes".into();
    }
    // the verdict becomes right once `~s` (s a packed struct) is written `~{s}`
    let (d3, n) = crate::desugar::rewrite_struct_not(design);
    if n > 0 && matches!(judge_isolated(&d3, Mode::Main), Judged::Ok { .. }) {
        return "missed-loop/bitwise-not-of-struct-typed-as-1-bit".into();
    }
    raw.to_string()
}

/// `judge` on its own thread (the analyzer state is thread-local).
fn judge_isolated(design: &Design, mode: Mode) -> Judged {
    std::thread::scope(|s| {
        std::thread::Builder::new()
            .stack_size(8 << 20)
            .spawn_scoped(s, || judge(design, mode))
            .expect("spawn")
            .join()
            .unwrap_or_else(|_| Judged::Fail { sig: "panic:front-end".into(), msg: "front end panicked".into(), module: String::new() })
    })
}

fn draw_design(d: &mut Draw, mode: Mode, big: bool) -> (Design, dgen::GenInfo) {
    let back_budget = d.weighted(&[3, 4, 2, 1]);
    let mut cfg = Cfg { back_budget, big, ..Cfg::default() };
    if mode == Mode::Defects {
        // one listed defect shape per case, so that a wrong verdict has one cause
        match d.below(4) {
            0 => cfg.defect_selfread = true,
            1 => cfg.defect_neg = true,
            2 => cfg.defect_narrow = true,
            _ => cfg.defect_structnot = true,
        }
    }
    dgen::gen_design(d, cfg)
}

/// debugging aid (`vc-loop gen`)
pub fn gen_text(choices: Vec<u32>, defects: bool) -> String {
    let mut d = Draw::new(choices);
    let (design, _) = draw_design(&mut d, if defects { Mode::Defects } else { Mode::Main }, false);
    render(&design).0
}

fn case(d: &mut Draw, mode: Mode, big: bool, known: &[String]) -> Outcome {
    let (design, info) = draw_design(d, mode, big);
    let nm = design.modules.len();
    let (v, reported, text, warned, gf) = match judge(&design, mode) {
        Judged::Skip(r) => {
            // development aid: keep a few rejected designs for inspection
            if let Ok(dir) = std::env::var("C14_DUMP_SKIPS") {
                let (t, _) = render(&design);
                let _ = std::fs::write(format!("{dir}/skip-{:016x}.veryl", hash_str(&t)), format!("// {r}\n{t}"));
            }
            return Outcome::skip(r);
        }
        Judged::Ok { v, reported, text, warned, gf } => (v, reported, text, warned, gf),
        Judged::Fail { sig, msg, module } => {
            let (text, _) = render(&design);
            if known.contains(&sig) || sig.starts_with("harness/") {
                return Outcome::fail(sig, format!("{msg}\n--- design ---\n{text}"), json!({"text": text, "module": module}));
            }
            // minimise on the IR: same root-cause signature required
            let small = crate::shrink::shrink(
                &design,
                &|c| matches!(judge_isolated(c, mode), Judged::Fail { sig: s2, .. } if s2 == sig),
                400,
            );
            let (stext, _) = render(&small);
            let smsg = match judge_isolated(&small, mode) {
                Judged::Fail { msg, .. } => msg,
                _ => msg.clone(),
            };
            return Outcome::fail(
                sig,
                format!("{smsg}\n--- minimised design ---\n{stext}\n--- original: {msg}\n{text}"),
                json!({"text": stext, "original": text, "module": module}),
            );
        }
    };
    EXCL_SELF_READ.fetch_add(info.self_reads_avoided as u64, Ordering::Relaxed);
    EXCL_STRUCT_NOT.fetch_add(info.struct_nots_avoided as u64, Ordering::Relaxed);
    for i in 0..nm {
        if v.doc[i] == v.fine[i].cyclic {
            DECIDED_EXACT_MODULES.fetch_add(1, Ordering::Relaxed);
        } else {
            DECIDED_EITHER_MODULES.fetch_add(1, Ordering::Relaxed);
        }
    }
    let mut classes: Vec<String> = Vec::new();
    // ---- classification
    let any = |f: &dyn Fn(usize) -> bool| (0..nm).any(f);
    let true_loop = any(&|i| v.fine[i].cyclic);
    let multi = any(&|i| v.fine[i].max_items >= 2);
    let near = any(&|i| v.coarse[i] && !v.fine[i].cyclic);
    let either = any(&|i| v.doc[i] != v.fine[i].cyclic);
    if true_loop {
        classes.push("loop:true".into());
        classes.push(if multi { "loop:through>=2-processes" } else { "loop:single-process" }.into());
    }
    if near {
        classes.push("near-miss(variable cycle, no bit cycle)".into());
    }
    if !true_loop && !near {
        classes.push("acyclic-at-every-granularity".into());
    }
    if any(&|i| v.fine[i].through_inst) {
        classes.push("loop:through-instance".into());
    }
    let call = |e: &Expr| matches!(e, Expr::Call(..));
    if any(&|i| v.fine[i].items.iter().any(|ix| item_has(&design.modules[i].items[*ix], &call))) {
        classes.push("loop:through-function".into());
    }
    if any(&|i| v.coarse[i] && !v.fine[i].cyclic && design.modules[i].items.iter().any(|it| matches!(it, Item::Inst { .. }))) {
        classes.push("near-miss:module-with-instance".into());
    }
    if any(&|i| v.coarse[i] && !v.fine[i].cyclic && design.modules[i].items.iter().any(|it| item_has(it, &call))) {
        classes.push("near-miss:module-with-function-call".into());
    }
    // ---- statement-style calls with output arguments
    fn out_calls<'a>(ss: &'a [Stmt], out: &mut Vec<&'a Vec<Arg>>) {
        for s in ss {
            match s {
                Stmt::Assign(..) => {}
                Stmt::If(_, t, f) => {
                    out_calls(t, out);
                    out_calls(f, out);
                }
                Stmt::Call(_, args) => out.push(args),
            }
        }
    }
    let mut any_out_call = vec![false; nm];
    let mut out_call_in_loop = false;
    for i in 0..nm {
        for it in &design.modules[i].items {
            if let Item::Comb(ss) = it {
                let mut calls = Vec::new();
                out_calls(ss, &mut calls);
                for args in calls {
                    any_out_call[i] = true;
                    for a in args {
                        if let Arg::Out(ts) = a {
                            for t in ts {
                                if let Target::Sig(p) = t
                                    && (0..p.w).any(|b| v.fine[i].nodes.contains(&((gf[i].base[p.sig] + p.lo + b) as graph::Node)))
                                {
                                    out_call_in_loop = true;
                                }
                            }
                        }
                    }
                }
            }
        }
    }
    if any_out_call.iter().any(|x| *x) {
        classes.push("output-argument-call".into());
    }
    if out_call_in_loop {
        classes.push("loop:through-bits-written-by-output-argument-call".into());
    }
    if any(&|i| any_out_call[i] && v.coarse[i] && !v.fine[i].cyclic) {
        classes.push("near-miss:module-with-output-argument-call".into());
    }
    for (k, name) in ["whole-variable", "part-select-not-at-bit-0", "part-select-at-bit-0", "struct-member", "array-element", "concatenation-piece"].iter().enumerate() {
        if info.out_actual[k] > 0 {
            classes.push(format!("output-actual:{name}"));
        }
    }
    if info.out_body_copy > 0 {
        classes.push("output-formal:positional-copy-body".into());
    }
    if info.out_body_other > 0 {
        classes.push("output-formal:operator-or-branch-body".into());
    }
    // ---- dead stores inside one if arm
    if !info.dead_stores.is_empty() {
        classes.push("dead-store-in-if-arm".into());
        let downstream = info.dead_stores.iter().any(|(mi, p, reads)| {
            let g = &gf[*mi];
            let from: Vec<graph::Node> = (0..p.w).map(|b| (g.base[p.sig] + p.lo + b) as graph::Node).collect();
            let to: std::collections::BTreeSet<graph::Node> =
                reads.iter().flat_map(|r| (0..r.w).map(move |b| (g.base[r.sig] + r.lo + b) as graph::Node)).collect();
            graph::reaches(g, &from, &to)
        });
        if downstream {
            classes.push("dead-store-in-if-arm:reads-downstream-of-the-final-value".into());
            if info.dead_stores.iter().any(|(mi, _, _)| v.coarse[*mi] && !v.fine[*mi].cyclic) {
                classes.push("near-miss:module-with-downstream-dead-store".into());
            }
        }
    }
    let seq = design.modules.iter().any(|m| m.items.iter().any(|it| matches!(it, Item::Comb(ss) if comb_seq_reassign(ss))));
    if seq {
        classes.push("always_comb:sequential-reassignment".into());
    }
    if any(&|i| v.coarse[i] && !v.fine[i].cyclic && design.modules[i].items.iter().any(|it| matches!(it, Item::Comb(ss) if comb_seq_reassign(ss)))) {
        classes.push("near-miss:module-with-sequential-reassignment".into());
    }
    if design.modules.iter().any(|m| m.items.iter().any(|it| matches!(it, Item::Comb(ss) if ss.iter().any(|s| matches!(s, Stmt::If(..)))))) {
        classes.push("always_comb:branches".into());
    }
    if design.modules.iter().any(|m| m.sigs.iter().any(|s| matches!(s.shape, Shape::Struct(_)))) {
        classes.push("struct".into());
    }
    if design.modules.iter().any(|m| m.sigs.iter().any(|s| matches!(s.shape, Shape::Arr { .. }))) {
        classes.push("array".into());
    }
    if design.modules.iter().any(|m| !m.funcs.is_empty()) {
        classes.push("function".into());
    }
    if design.modules.iter().any(|m| m.items.iter().any(|it| matches!(it, Item::Ff(..)))) {
        classes.push("always_ff".into());
    }
    if design.modules.iter().any(|m| m.items.iter().any(|it| matches!(it, Item::Assign(ps, _) if ps.len() > 1)))
        || design.modules.iter().any(|m| m.items.iter().any(|it| matches!(it, Item::Comb(ss) if ss.iter().any(|s| matches!(s, Stmt::Assign(ts, _) if ts.len() > 1)))))
    {
        classes.push("lhs-concatenation".into());
    }
    // hierarchy depth
    let mut depth = vec![1usize; nm];
    for i in 0..nm {
        for it in &design.modules[i].items {
            if let Item::Inst { child, .. } = it {
                depth[i] = depth[i].max(depth[*child] + 1);
            }
        }
    }
    classes.push(format!("hierarchy-levels:{}", depth.iter().max().unwrap()));
    classes.push(format!("back-reads:{}", info.back_reads.min(3)));
    if info.back_in_inst > 0 {
        classes.push("back-read:in-instance-actual".into());
    }
    if info.back_in_func > 0 {
        classes.push("back-read:captured-by-function".into());
    }
    if mode == Mode::Defects {
        if info.neg_used > 0 {
            classes.push("defect-shape:unary-minus".into());
        }
        if info.narrow_used > 0 {
            classes.push("defect-shape:narrow-arithmetic-in-wide-context".into());
        }
        if info.self_reads > 0 {
            classes.push("defect-shape:statement-reads-bits-it-writes".into());
        }
        if info.struct_nots > 0 {
            classes.push("defect-shape:bitwise-not-of-whole-struct".into());
        }
    }
    if warned {
        classes.push("accepted-with-warning:unassign_variable".into());
    }
    classes.push(if reported.iter().any(|x| *x) { "verdict:loop-reported" } else { "verdict:no-loop" }.into());
    if any(&|i| v.periodic[i]) {
        classes.push("periodic-transfers-possible(module accepts any verdict up to variable level)".into());
    }
    if any(&|i| reported[i] && !v.fine[i].cyclic) {
        classes.push("observed:loop-reported-without-bit-cycle(within documented coarseness)".into());
        // development aid: keep such designs for inspection
        if let Ok(dir) = std::env::var("C14_DUMP_OBS") {
            let which: Vec<String> = (0..nm)
                .filter(|i| reported[*i] && !v.fine[*i].cyclic)
                .map(|i| format!("{} periodic={}", design.modules[i].name, v.periodic[i]))
                .collect();
            let _ = std::fs::write(format!("{dir}/obs-{:016x}.veryl", hash_str(&text)), format!("// {which:?}\n{text}"));
        }
    }
    if either {
        classes.push("decided:either-verdict-accepted(documented coarseness)".into());
    } else {
        classes.push("decided:exactly".into());
    }
    let nontrivial = near || multi;
    Outcome::pass(hash_str(&text), nontrivial, classes, text)
}

/// Hand-written reproducers of listed findings: payload `{text, expect_loop, signature}`.
fn reproducer(p: &Value) -> Outcome {
    let text = p.get("text").and_then(|x| x.as_str()).unwrap_or_default().to_string();
    let expect = p.get("expect_loop").and_then(|x| x.as_bool()).unwrap_or(false);
    let sig = p.get("signature").and_then(|x| x.as_str()).unwrap_or("reproducer").to_string();
    // fresh thread: analyzer state is thread-local
    let t2 = text.clone();
    let r = std::thread::scope(|s| s.spawn(move || front::analyze(&t2)).join());
    let diags = match r {
        Ok(Some(d)) => d,
        Ok(None) => return Outcome::skip("reproducer does not parse"),
        Err(_) => return Outcome::fail("panic:reproducer", "front end panicked on a reproducer", json!({"text": text})),
    };
    if let Some(o) = diags.iter().find(|x| x.loop_at.is_none()) {
        return Outcome::skip(format!("reproducer not accepted: {}", o.code));
    }
    let reported = !diags.is_empty();
    if reported != expect {
        return Outcome::fail(
            sig,
            format!("expected loop={expect}, checker reported loop={reported}\n{text}"),
            json!({"text": text, "expect_loop": expect}),
        );
    }
    Outcome::pass(hash_str(&text), true, vec!["reproducer".into()], text)
}

pub fn run(ctx: &Ctx) {
    let big = !ctx.is_quick();
    let n_main = ctx.scale(5000, 160_000);
    let n_def = ctx.scale(500, 10_000);
    // development aid only: scale the case counts (percent)
    let pct: usize = std::env::var("C14_PERCENT").ok().and_then(|x| x.parse().ok()).unwrap_or(100);
    let (n_main, n_def) = (n_main * pct / 100, n_def * pct / 100);
    let known: Vec<String> = ctx.findings().iter().filter(|f| f.status == "known").map(|f| f.key.clone()).collect();
    ctx.run("main", CaseCfg::cases(n_main).choices(8000).shrink_iters(0).timeout_s(1200), |d: &mut Draw| case(d, Mode::Main, big, &known));
    ctx.run("defect-shapes", CaseCfg::cases(n_def).choices(8000).shrink_iters(0).timeout_s(1200), |d: &mut Draw| case(d, Mode::Defects, big, &known));
    ctx.run_payloads("reproducers", reproducer);
    // second reproducer of the self-read finding (the false-loop direction);
    // `run_payloads` replays one file per listed finding only
    if !ctx.replay_mode()
        && let Ok(t) = std::fs::read_to_string("/verif/known/C14/self_read_statement_false_loop.json")
        && let Ok(v) = serde_json::from_str::<Value>(&t)
        && let Some(p) = v.get("payload")
    {
        ctx.record("reproducers", reproducer(p), p.clone());
    }

    ctx.note(
        "excluded_by_construction",
        json!({
            "re-assignments drawn with their own target bits hidden (finding wrong-verdict/statement-reads-bits-it-writes)": EXCL_SELF_READ.load(Ordering::Relaxed),
            "~s on a whole struct rewritten to ~{s} (finding missed-loop/bitwise-not-of-struct-typed-as-1-bit)": EXCL_STRUCT_NOT.load(Ordering::Relaxed),
            "unary minus, arithmetic narrower than its context": "never drawn outside the defect-shapes sub",
        }),
    );
    let (ex, ei) = (DECIDED_EXACT_MODULES.load(Ordering::Relaxed), DECIDED_EITHER_MODULES.load(Ordering::Relaxed));
    ctx.note(
        "decided_exactly",
        json!({"modules_decided_exactly": ex, "modules_accepting_either_verdict": ei, "rate": if ex + ei > 0 { ex as f64 / (ex + ei) as f64 } else { 0.0 }}),
    );
    ctx.note("bit_precise_constructs", json!(BIT_PRECISE.iter().map(|(a, b)| json!({"construct": a, "promise": b})).collect::<Vec<_>>()));
    ctx.note("documented_coarseness", json!(DOCUMENTED_COARSE.iter().map(|(a, b)| json!({"construct": a, "source": b})).collect::<Vec<_>>()));
    ctx.assume("the loop verdict is read from the in-process front end running the same passes as `veryl check` (parse, pass1, post_pass1, pass2, post_pass2); each finding was reproduced once with the real `veryl check` binary");
    ctx.assume("a true cycle is a cycle of the harness' bit-level graph `fine`: bit-to-bit for copies/selects/concatenations/bitwise operators/constant shifts/mux data, every-operand-bit -> every-result-bit for arithmetic, comparison, reduction and logical operators (4-state x-propagation; the checker's tests say the same), conditions -> every bit assigned under them, statement order inside always_comb and functions, registers break paths");
    ctx.assume("the exact direction (reported => cycle) is asserted against `fine` coarsened only as listed in coverage.documented_coarseness: instance boundaries are port level (documented in the checker's source), shifts nested under every-bit operators are flattened (undocumented either way); modules where that graph and `fine` disagree accept either verdict and are counted in the class histogram (decided:either-verdict-accepted)");
    ctx.assume("excluded by construction from the main sub because of listed findings (counted in coverage.excluded_by_construction; generated on purpose by the defect-shapes sub, where a wrong verdict is attributed to the finding only if the verdict becomes right on an equivalent design without the construct or the cycle exists only under the construct's correct semantics): unary minus, arithmetic narrower than its assignment context, statements that read bits they write, ~ applied to a whole struct variable");
    ctx.assume("not generated: SystemVerilog black boxes, inout ports, recursive functions (the documented opaque constructs), dynamic indices, unpacked-array ports, interfaces, generics, case/for statements, function output arguments, signed arithmetic, width-mismatched operands (except in the defect-shape sub)");
    ctx.finish(
        "exploration",
        "designs of 1-3 modules are drawn from a choice sequence (processes -> chunks -> packed into vectors/arrays/structs; reads of lower levels plus a budget of deliberate back reads); non-trivial = some module has a variable-level cycle that is not a bit-level cycle (near miss), or a true bit-level cycle whose SCC is built from >= 2 processes; distinct by hash of the Veryl text",
    );
}
