//! C06 — restoring a cached pass-1 fragment reproduces the analyzer state.
//!
//! Generator: a file set (corpus files with what they need, and/or generated
//! files covering declaration kinds), 0–3 generated filler files in front,
//! processing orders π (capture run) and π' (restore run), and the set R of
//! files restored from their fragment (mostly one file).
//!
//! Runs, each on a fresh thread, each driven like pipeline.rs/incremental.rs:
//!   A   parse + pass1 every file in order π, capture every file's fragment
//!       (watermark / capture / to_bytes);
//!   B   order π', other filler count; files in R go through from_bytes /
//!       set_project / restore (on Err: drop_file + parse), the rest is parsed;
//!   B'  as B, but R is parsed too (and, like a restored file, gets no pass 2
//!       and is not emitted).
//! Oracle: B and B' agree on every table the fragment feeds (read back with
//! the exporters capture itself uses, all fields via `Debug`), on the symbol
//! table / scope tree / type DAG after post-pass1 and after post-pass2, on
//! the multiset of diagnostics of every stage, and on the emitted
//! SystemVerilog + source map of every emitted file.

mod corpus;
mod vgenr;
mod norm;
mod pipe;

use pipe::{FileIn, How, Reached, Role, RunOut};
use vcore::{CaseCfg, Ctx, Draw, Outcome, hash_str, json};

fn isolated(files: Vec<FileIn>, roles: Vec<Role>, capture: bool) -> Result<RunOut, String> {
    let h = std::thread::Builder::new()
        .stack_size(32 << 20)
        .spawn(move || pipe::run_pipeline(&files, &roles, capture))
        .expect("spawn");
    h.join().map_err(|e| {
        if let Some(s) = e.downcast_ref::<String>() {
            s.clone()
        } else if let Some(s) = e.downcast_ref::<&str>() {
            s.to_string()
        } else {
            "panic".to_string()
        }
    })
}

struct Case {
    files: Vec<FileIn>,
    fillers: Vec<FileIn>,
    fa: usize,
    fb: usize,
    pi: Vec<usize>,
    pi2: Vec<usize>,
    restore: Vec<usize>,
    classes: Vec<String>,
    origin: String,
    /// explicit reproducers only: also report differences the generated
    /// search excludes because they are listed findings
    strict: bool,
}

fn permutation(d: &mut Draw, n: usize) -> Vec<usize> {
    let mut p: Vec<usize> = (0..n).collect();
    for i in (1..n).rev() {
        let j = d.below_usize(i + 1);
        p.swap(i, j);
    }
    p
}

fn gen_case(d: &mut Draw, corpus: &corpus::Corpus) -> Option<Case> {
    let mut classes = Vec::new();
    let mut files: Vec<FileIn> = Vec::new();
    let mut origin = String::new();
    // 0: corpus set, 1: generated set, 2: both, 3: a corpus file cut into parts
    let kind = d.weighted(&[4, 5, 2, 4]);
    let mut preferred: Vec<usize> = Vec::new();
    let push_corpus = |files: &mut Vec<FileIn>, i: usize| {
        let f = &corpus.files[i];
        files.push(FileIn {
            label: String::new(),
            path: f.path.clone(),
            text: f.text.clone(),
            prj: f.prj.clone(),
        });
    };
    if kind == 0 || kind == 2 {
        // a file that somebody uses, plus a user, plus what both need
        let nroots = d.usize_in(1, 2);
        let mut roots = Vec::new();
        for _ in 0..nroots {
            let r = d.below_usize(corpus.files.len());
            roots.push(r);
            let f = &corpus.files[r];
            if !f.users.is_empty() && d.chance(3, 4) {
                roots.push(f.users[d.below_usize(f.users.len())]);
            }
        }
        let set = corpus.closure(&roots, 14)?;
        for &i in &set {
            let f = &corpus.files[i];
            if roots.contains(&i) || f.users.iter().any(|u| set.contains(u)) {
                preferred.push(files.len());
            }
            push_corpus(&mut files, i);
        }
        origin.push_str("corpus");
        classes.push("set=corpus".to_string());
        if set.iter().any(|&i| corpus.files[i].prj == "$std") {
            classes.push("has_std_project_file".into());
        }
    }
    if kind == 3 {
        let cands: Vec<usize> = (0..corpus.files.len())
            .filter(|&i| corpus.files[i].items.iter().filter(|x| !x.is_import).count() >= 2)
            .collect();
        let r = cands[d.below_usize(cands.len())];
        let set = corpus.closure(&[r], 14)?;
        let f = &corpus.files[r];
        let stem = f.path.trim_end_matches(".veryl");
        for (j, text) in vgenr::split_corpus_file(d, &f.items).into_iter().enumerate() {
            preferred.push(files.len());
            files.push(FileIn {
                label: String::new(),
                path: format!("{stem}_c06part{j}.veryl"),
                text,
                prj: f.prj.clone(),
            });
        }
        for &i in &set {
            if i != r {
                push_corpus(&mut files, i);
            }
        }
        origin.push_str("corpus-file-cut-into-parts");
        classes.push("set=corpus_file_cut_into_parts".to_string());
        if f.prj == "$std" {
            classes.push("has_std_project_file".into());
        }
    }
    if kind == 1 || kind == 2 {
        let g = vgenr::file_set(d);
        for c in &g.classes {
            classes.push(c.clone());
        }
        for (name, text) in g.files {
            preferred.push(files.len());
            files.push(FileIn {
                label: String::new(),
                // a virtual path next to the testcases, so that
                // `include(.., "52_include.sv")` resolves; nothing is written
                path: format!("{}/testcases/veryl/c06_{name}.veryl", vcore::util::repo_root()),
                text,
                prj: pipe::ROOT_PRJ.to_string(),
            });
        }
        if !origin.is_empty() {
            origin.push('+');
        }
        origin.push_str("generated");
        classes.push("set=generated".to_string());
    }
    if files.is_empty() {
        return None;
    }
    // a generated user of the plain modules / interfaces of the corpus part:
    // every one of them gets a cross-file reference
    if kind != 1 && d.chance(1, 2) {
        let mut comps: Vec<(usize, bool, String)> = Vec::new();
        for (fi, f) in files.iter().enumerate() {
            for (is_mod, name) in corpus::plain_components(&f.text) {
                let q = if f.prj == "$std" { format!("$std::{name}") } else { name };
                comps.push((fi, is_mod, q));
            }
        }
        if !comps.is_empty() {
            let n = d.usize_in(1, 4);
            let mut body = String::new();
            for j in 0..n {
                let (fi, is_mod, name) = &comps[d.below_usize(comps.len())];
                if *is_mod {
                    body.push_str(&format!("    #[allow(missing_port)]\n    inst u{j}: {name};\n"));
                } else {
                    body.push_str(&format!("    inst u{j}: {name};\n"));
                }
                if !preferred.contains(fi) {
                    preferred.push(*fi);
                }
            }
            files.push(FileIn {
                label: String::new(),
                path: format!("{}/testcases/veryl/c06_user.veryl", vcore::util::repo_root()),
                text: format!("/// generated user\nmodule C06User {{\n{body}}}\n"),
                prj: pipe::ROOT_PRJ.to_string(),
            });
            classes.push("generated_user_file".into());
        }
    }
    // a generated file without the final newline (the parser appends one
    // to its own copy of the text)
    if d.chance(1, 12) {
        let cands: Vec<usize> = (0..files.len()).filter(|&i| files[i].path.contains("c06")).collect();
        if !cands.is_empty() {
            let i = cands[d.below_usize(cands.len())];
            let t = files[i].text.trim_end().to_string();
            files[i].text = t;
            classes.push("file_without_final_newline".into());
        }
    }
    for (k, f) in files.iter_mut().enumerate() {
        f.label = format!("f{k}");
    }
    let fillers: Vec<FileIn> = (0..3)
        .map(|k| FileIn {
            label: format!("fill{k}"),
            path: format!("/c06/filler/fill{k}.veryl"),
            text: vgenr::filler(d, k),
            prj: pipe::ROOT_PRJ.to_string(),
        })
        .collect();
    let fa = d.weighted(&[2, 1, 1, 1]);
    let fb = d.weighted(&[2, 1, 1, 1]);
    let n = files.len();
    let pi = permutation(d, n);
    let pi2 = permutation(d, n);
    // restored set: mostly one file that others use
    let pick = |d: &mut Draw| -> usize {
        if !preferred.is_empty() && d.chance(4, 5) {
            preferred[d.below_usize(preferred.len())]
        } else {
            d.below_usize(n)
        }
    };
    let mut restore = vec![pick(d)];
    if d.chance(1, 4) {
        let extra = d.usize_in(1, n.min(4));
        for _ in 0..extra {
            let x = pick(d);
            if !restore.contains(&x) {
                restore.push(x);
            }
        }
    }
    restore.sort();
    Some(Case {
        files,
        fillers,
        fa,
        fb,
        pi,
        pi2,
        restore,
        classes,
        origin,
        strict: false,
    })
}

fn first_diff(a: &str, b: &str) -> String {
    let (la, lb): (Vec<&str>, Vec<&str>) = (a.lines().collect(), b.lines().collect());
    for i in 0..la.len().max(lb.len()) {
        let (x, y) = (la.get(i).copied().unwrap_or("<no line>"), lb.get(i).copied().unwrap_or("<no line>"));
        if x != y {
            // narrow long lines to the first differing region
            let p = x.bytes().zip(y.bytes()).take_while(|(p, q)| p == q).count();
            let cut = |s: &str| {
                let mut st = p.saturating_sub(160);
                while !s.is_char_boundary(st) {
                    st -= 1;
                }
                let mut en = (p + 240).min(s.len());
                while !s.is_char_boundary(en) {
                    en += 1;
                }
                s[st..en].to_string()
            };
            return format!(
                "line {} (of {} / {}), first difference at byte {p}:\n  restored: …{}…\n  fresh   : …{}…",
                i + 1,
                la.len(),
                lb.len(),
                cut(x),
                cut(y)
            );
        }
    }
    "(equal)".into()
}

/// `pass1/f3/symbols` → `pass1/symbols`: the signature names the table, not the file.
fn section_kind(name: &str) -> String {
    name.split('/')
        .filter(|p| {
            !(p.len() >= 2 && p.starts_with('f') && p[1..].chars().all(|c| c.is_ascii_digit())
                || p.starts_with("fill"))
        })
        .collect::<Vec<_>>()
        .join("/")
}

/// `Token {…, text: "prj", line: 0, column: 0, length: 0, pos: 0, source: Generated(path<X>)}`
/// → the same with `path<*>`.
fn wildcard_placeholder_paths(s: &str) -> String {
    let pat = format!("text: \"{}\", line: 0, column: 0, length: 0, pos: 0, source: Generated(path<", pipe::ROOT_PRJ);
    let mut out = String::with_capacity(s.len());
    let mut rest = s;
    while let Some(p) = rest.find(&pat) {
        let after = p + pat.len();
        out.push_str(&rest[..after]);
        match rest[after..].find(">)") {
            Some(e) => {
                out.push('*');
                rest = &rest[after + e..];
            }
            None => {
                rest = &rest[after..];
                break;
            }
        }
    }
    out.push_str(rest);
    out
}

/// The listed clock-domain finding, recognised by its cause rather than by
/// its symptom: a restored file carries the label `'lbl<k>`, it was captured
/// *before* the file declaring `package lbl<k>` was processed, and it is
/// restored *after* that file.  (Captured after it, the fragment has to be
/// refused; restored before it, both runs create the label symbol.)
fn clock_domain_order_flip(c: &Case, restore: &[usize]) -> bool {
    for k in 0..8 {
        let label = format!("'lbl{k} ");
        let pkg = format!("package lbl{k} ");
        let Some(fl) = c.files.iter().position(|f| f.text.contains(&label)) else { continue };
        let Some(fp) = c.files.iter().position(|f| f.text.contains(&pkg)) else { continue };
        if fl == fp || !restore.contains(&fl) {
            continue;
        }
        let pos = |perm: &[usize], i: usize| perm.iter().position(|&x| x == i).unwrap_or(0);
        if pos(&c.pi, fl) < pos(&c.pi, fp) && pos(&c.pi2, fp) < pos(&c.pi2, fl) {
            return true;
        }
    }
    false
}

fn file_json(f: &FileIn) -> vcore::Value {
    json!({"label": f.label, "path": f.path, "prj": f.prj, "text": f.text})
}

fn file_from_json(v: &vcore::Value) -> Option<FileIn> {
    Some(FileIn {
        label: v.get("label")?.as_str()?.to_string(),
        path: v.get("path")?.as_str()?.to_string(),
        prj: v.get("prj")?.as_str()?.to_string(),
        text: v.get("text")?.as_str()?.to_string(),
    })
}

/// The case written out; also the payload format of the `explicit` sub-check
/// (`{"property":"C06","sub":"explicit","payload":{…}}`).
fn case_json(c: &Case) -> vcore::Value {
    json!({
        "files": c.files.iter().map(file_json).collect::<Vec<_>>(),
        "fillers": c.fillers.iter().map(file_json).collect::<Vec<_>>(),
        "fillers_in_capture_run": c.fa, "fillers_in_restore_run": c.fb,
        "capture_order": c.pi, "restore_order": c.pi2, "restored": c.restore,
        "classes": c.classes, "origin": c.origin, "strict": c.strict,
    })
}

fn case_from_json(v: &vcore::Value) -> Option<Case> {
    let files: Vec<FileIn> = v.get("files")?.as_array()?.iter().map(file_from_json).collect::<Option<_>>()?;
    let fillers: Vec<FileIn> = match v.get("fillers").and_then(|x| x.as_array()) {
        Some(a) => a.iter().map(file_from_json).collect::<Option<_>>()?,
        None => vec![],
    };
    let us = |k: &str| v.get(k).and_then(|x| x.as_u64()).unwrap_or(0) as usize;
    let list = |k: &str| -> Option<Vec<usize>> {
        Some(v.get(k)?.as_array()?.iter().map(|x| x.as_u64().unwrap_or(0) as usize).collect())
    };
    let n = files.len();
    let ident: Vec<usize> = (0..n).collect();
    let is_perm = |p: &Vec<usize>| {
        let mut q = p.clone();
        q.sort();
        q == ident
    };
    let pi = list("capture_order").unwrap_or_else(|| ident.clone());
    let pi2 = list("restore_order").unwrap_or_else(|| ident.clone());
    let restore = list("restored")?;
    if !is_perm(&pi) || !is_perm(&pi2) || restore.iter().any(|&i| i >= n) || us("fillers_in_capture_run") > fillers.len() || us("fillers_in_restore_run") > fillers.len() {
        return None;
    }
    Some(Case {
        files,
        fillers,
        fa: us("fillers_in_capture_run"),
        fb: us("fillers_in_restore_run"),
        pi,
        pi2,
        restore,
        classes: v.get("classes").and_then(|x| x.as_array()).map(|a| a.iter().filter_map(|x| x.as_str().map(String::from)).collect()).unwrap_or_default(),
        origin: v.get("origin").and_then(|x| x.as_str()).unwrap_or("explicit").to_string(),
        strict: v.get("strict").and_then(|x| x.as_bool()).unwrap_or(false),
    })
}

fn run_case(d: &mut Draw, corpus: &corpus::Corpus) -> Outcome {
    let Some(c) = gen_case(d, corpus) else {
        return Outcome::skip("drawn corpus roots need more than 14 files");
    };
    decide(&c)
}

fn decide(c: &Case) -> Outcome {
    match decide_inner(c) {
        Outcome::Fail(mut f) if f.signature.starts_with("FLIP:") => {
            f.signature = "clock-domain-label:pass1-resolves-it-against-symbols-of-earlier-files".to_string();
            Outcome::Fail(f)
        }
        o => o,
    }
}

fn decide_inner(c: &Case) -> Outcome {
    let order = |fill: usize, perm: &[usize]| -> Vec<FileIn> {
        let mut v: Vec<FileIn> = c.fillers[..fill].to_vec();
        v.extend(perm.iter().map(|&i| c.files[i].clone()));
        v
    };
    let names: Vec<String> = c.files.iter().map(|f| f.path.rsplit('/').next().unwrap().to_string()).collect();
    let input = case_json(c);

    // ---- run A: capture ------------------------------------------------
    let files_a = order(c.fa, &c.pi);
    let roles_a = vec![Role::Parse; files_a.len()];
    let a = match isolated(files_a.clone(), roles_a, true) {
        Ok(a) => a,
        Err(p) => return Outcome::skip(format!("fresh analysis panics (C11's business): {}", p.lines().next().unwrap_or(""))),
    };
    if let Reached::ParseError(e) = &a.reached {
        if std::env::var("VERIF_C06_DEBUG").is_ok() {
            eprintln!("DEBUG parse error: {e}\n{}", files_a.iter().map(|f| format!("--- {}\n{}", f.path, f.text)).collect::<String>());
        }
        return Outcome::skip("a file does not parse");
    }
    if std::env::var("VERIF_C06_DEBUG").is_ok() && a.diags.iter().any(|x| x.is_error) && c.origin != "corpus" {
        eprintln!(
            "DEBUG errors in {} {:?}: {:?}",
            c.origin,
            c.classes,
            a.diags.iter().filter(|x| x.is_error).map(|x| format!("[{}] {} {} @{}", x.stage, x.code, x.message, x.path.rsplit('/').next().unwrap_or(""))).collect::<Vec<_>>()
        );
    }
    // fragment bytes per case-file index
    let mut frag: Vec<Option<Result<Vec<u8>, String>>> = vec![None; c.files.len()];
    let mut frag_syms = vec![0usize; c.files.len()];
    for (k, f) in files_a.iter().enumerate() {
        if let Some(i) = c.files.iter().position(|x| x.label == f.label) {
            frag[i] = a.captured[k].clone();
            frag_syms[i] = a.sym_count[k];
        }
    }
    let mut classes = c.classes.clone();
    let mut restore: Vec<usize> = Vec::new();
    let mut refused = Vec::new();
    for &i in &c.restore {
        match &frag[i] {
            None => {}
            Some(Err(e)) => refused.push(format!("{}: {e}", names[i])),
            Some(Ok(_)) => restore.push(i),
        }
    }
    if !refused.is_empty() {
        classes.push("refused_at_capture".into());
    }
    if restore.is_empty() {
        if !refused.is_empty() {
            // allowed by the property: nothing is stored, nothing to restore
            return Outcome::pass(
                hash_str(&format!("{input}")),
                false,
                classes,
                format!("refused at capture time: {refused:?}"),
            );
        }
        return Outcome::skip("pass 1 of the chosen file reports diagnostics (callers pass cacheable=false)");
    }

    // ---- runs B and B' ---------------------------------------------------
    let files_b = order(c.fb, &c.pi2);
    let mut roles_b = Vec::new();
    let mut roles_f = Vec::new();
    for f in &files_b {
        let idx = c.files.iter().position(|x| x.label == f.label);
        match idx {
            Some(i) if restore.contains(&i) => {
                let Some(Ok(bytes)) = &frag[i] else { unreachable!() };
                roles_b.push(Role::Restore(bytes.clone()));
                roles_f.push(Role::ParseNoPass2);
            }
            _ => {
                roles_b.push(Role::Parse);
                roles_f.push(Role::Parse);
            }
        }
    }
    let fresh = match isolated(files_b.clone(), roles_f, true) {
        Ok(x) => x,
        Err(p) => return Outcome::skip(format!("fresh analysis panics (C11's business): {}", p.lines().next().unwrap_or(""))),
    };
    let what = format!(
        "{} files {:?}, restored {:?}, fillers {}→{}, orders {:?}→{:?}",
        c.origin,
        names,
        restore.iter().map(|&i| names[i].as_str()).collect::<Vec<_>>(),
        c.fa,
        c.fb,
        c.pi,
        c.pi2
    );
    let rest = match isolated(files_b.clone(), roles_b, true) {
        Ok(x) => x,
        Err(p) => {
            return Outcome::fail(
                "panic-only-with-restored-fragment",
                format!("{what}: the run that restores the fragment panics ({p}); the run that parses the file does not"),
                input,
            );
        }
    };

    if let Ok(dir) = std::env::var("VERIF_C06_DUMPDIR") {
        // development aid: all dump sections of both runs, for `diff -r`
        for (tag, r) in [("restored", &rest), ("fresh", &fresh)] {
            let base = format!("{dir}/{tag}");
            let _ = std::fs::create_dir_all(&base);
            for (n, t) in r.sections.iter().chain(&r.raw_sections) {
                let _ = std::fs::write(format!("{base}/{}", n.replace('/', "__")), t);
            }
            let _ = std::fs::write(format!("{base}/diags"), format!("{:#?}", r.diags));
            let _ = std::fs::write(format!("{base}/how"), format!("{:?}\n{:?}", r.how, r.slots));
        }
        for f in &files_b {
            let _ = std::fs::write(format!("{dir}/{}.veryl", f.label), &f.text);
        }
    }
    // ---- oracle --------------------------------------------------------
    let flip = if clock_domain_order_flip(c, &restore) { "FLIP:" } else { "" };
    let mut fallback = false;
    for (k, h) in rest.how.iter().enumerate() {
        match h {
            How::DecodeFailed(e) | How::RestoreFailed(e) => {
                fallback = true;
                classes.push(format!(
                    "restore_error_fallback:{}",
                    if matches!(h, How::DecodeFailed(_)) { "decode" } else { "restore" }
                ));
                let _ = (k, e);
            }
            _ => {}
        }
    }
    if rest.reached != fresh.reached {
        return Outcome::fail(
            format!("{flip}stage-reached-differs"),
            format!("{what}: restored run ends at {:?}, fresh run at {:?}", rest.reached, fresh.reached),
            input,
        );
    }
    let (mut dr, mut df) = (rest.diags.clone(), fresh.diags.clone());
    dr.sort();
    df.sort();
    if dr != df {
        let only_r: Vec<String> = dr.iter().filter(|x| !df.contains(x)).map(|x| format!("[{}] {} {} @{} {:?}", x.stage, x.code, x.message, x.path, x.spans)).collect();
        let only_f: Vec<String> = df.iter().filter(|x| !dr.contains(x)).map(|x| format!("[{}] {} {} @{} {:?}", x.stage, x.code, x.message, x.path, x.spans)).collect();
        let stage = dr.iter().filter(|x| !df.contains(x)).chain(df.iter().filter(|x| !dr.contains(x))).map(|x| x.stage).next().unwrap_or("count");
        return Outcome::fail(
            format!("{flip}diagnostics-differ:{stage}{}", if fallback { ":after-fallback" } else { "" }),
            format!("{what}: only with the restored fragment {only_r:?}; only with a fresh parse {only_f:?}"),
            input,
        );
    }
    if rest.sections.len() != fresh.sections.len() {
        return Outcome::fail("state-differs:section-count", format!("{what}: {} vs {} dump sections", rest.sections.len(), fresh.sections.len()), input);
    }
    let is_texts = |n: &str| n.ends_with("/texts");
    let mut placeholder_diff: Option<String> = None;
    for ((nr, tr), (nf, tf)) in rest.sections.iter().zip(&fresh.sections) {
        if is_texts(nr) {
            continue; // compared last, see below
        }
        if nr != nf || tr != tf {
            // Listed finding, excluded from the generated search: a
            // `Token::default()` placeholder is (StrId(0), PathId(0)) = the
            // first string / path interned by the run; the codec stores it by
            // value, so after a restore it names the first path of the
            // capture run.  Compare again with those paths wildcarded.
            if nr == nf && wildcard_placeholder_paths(tr) == wildcard_placeholder_paths(tf) {
                if placeholder_diff.is_none() {
                    placeholder_diff = Some(format!("dump `{nr}`; {}", first_diff(tr, tf)));
                }
                continue;
            }
            return Outcome::fail(
                format!("{flip}state-differs:{}{}", section_kind(nr), if fallback { ":after-fallback" } else { "" }),
                format!("{what}: dump `{nr}` differs between the run that restores the fragment and the run that parses the file; {}", first_diff(tr, tf)),
                input,
            );
        }
    }
    let aligned = rest.slots.iter().zip(&fresh.slots).all(|(x, y)| x.before == y.before && x.after == y.after);
    if aligned {
        for ((nr, tr), (_, tf)) in rest.raw_sections.iter().zip(&fresh.raw_sections) {
            if tr != tf {
                return Outcome::fail(
                    format!("state-differs:{}", section_kind(nr)),
                    format!("{what}: `{nr}` differs; {}", first_diff(tr, tf)),
                    input,
                );
            }
        }
    } else {
        classes.push("id_layout_differs(raw dumps not compared)".into());
    }
    if rest.emitted.len() != fresh.emitted.len() {
        return Outcome::fail("emitted-file-set-differs", what, input);
    }
    for ((lr, sr, mr), (_, sf, mf)) in rest.emitted.iter().zip(&fresh.emitted) {
        if sr != sf {
            return Outcome::fail(
                "emitted-sv-differs",
                format!("{what}: SystemVerilog of {lr} differs; {}", first_diff(sr, sf)),
                input,
            );
        }
        if mr != mf {
            return Outcome::fail("source-map-differs", format!("{what}: source map of {lr} differs"), input);
        }
    }

    if let Some(d) = &placeholder_diff {
        if c.strict {
            return Outcome::fail(
                "default-token:restored-placeholder-names-first-path-of-the-capture-run",
                format!("{what}: {d}"),
                input,
            );
        }
        classes.push("excluded(listed finding): default-token placeholder path".into());
    }
    // the text-table entry of the file, last: everything a later stage
    // consumes was equal
    for ((nr, tr), (_, tf)) in rest.sections.iter().zip(&fresh.sections) {
        if is_texts(nr) && tr != tf {
            let no_newline = restore.iter().any(|&i| !c.files[i].text.ends_with('\n'));
            return Outcome::fail(
                if no_newline {
                    "text-table:restored-text-lacks-the-final-newline-a-parse-appends".to_string()
                } else {
                    format!("state-differs:{}", section_kind(nr))
                },
                format!("{what}: the text table entry of the restored file differs from the one a parse registers; {}", first_diff(tr, tf)),
                input,
            );
        }
    }

    // ---- classes / non-triviality -----------------------------------------
    let mut nontrivial = false;
    for (k, f) in files_b.iter().enumerate() {
        let Some(i) = c.files.iter().position(|x| x.label == f.label) else { continue };
        if !restore.contains(&i) || rest.how[k] != How::Restored {
            continue;
        }
        if fresh.sym_count[k] > 0 && fresh.xref[k] {
            nontrivial = true;
        }
        if k == c.fb {
            classes.push("restored_first".into());
        }
        if k + 1 == files_b.len() {
            classes.push("restored_last".into());
        }
    }
    classes.push(format!("fillers_capture={}", c.fa));
    classes.push(format!("fillers_restore={}", c.fb));
    if c.fa != c.fb {
        classes.push("filler_count_changed".into());
    }
    if c.pi != c.pi2 {
        classes.push("order_changed".into());
    }
    classes.push(format!("restored_files={}", restore.len().min(3)));
    classes.push(format!("files={}", match c.files.len() { 1 => "1", 2..=3 => "2-3", 4..=7 => "4-7", _ => "8+" }));
    classes.push(match &fresh.reached {
        Reached::Emitted => "reached=emit".to_string(),
        Reached::StoppedAfter(s) => format!("reached={s}(errors)"),
        Reached::ParseError(_) => "reached=parse-error".to_string(),
    });
    if fresh.diags.iter().any(|x| !x.is_error) {
        classes.push("has_warnings".into());
    }
    if nontrivial {
        classes.push("nontrivial".into());
    }
    let key = hash_str(&format!(
        "{:?}{:?}{}{}{:?}{:?}{:?}",
        c.files.iter().map(|f| hash_str(&f.text)).collect::<Vec<_>>(),
        restore,
        c.fa,
        c.fb,
        c.pi,
        c.pi2,
        c.fillers.iter().map(|f| hash_str(&f.text)).collect::<Vec<_>>()
    ));
    Outcome::pass(key, nontrivial, classes, what)
}

/// Development aid: every feature template alone (declarations in one file,
/// users in another) must analyse without errors.
fn selftest_templates() {
    for (w, name) in vgenr::all_feature_names().iter().enumerate() {
        for variant in 0..4u32 {
            let files: Vec<FileIn> = vgenr::single_feature(w as u32, variant)
                .into_iter()
                .enumerate()
                .map(|(k, (n, text))| FileIn {
                    label: format!("f{k}"),
                    path: format!("{}/testcases/veryl/c06_{n}.veryl", vcore::util::repo_root()),
                    text,
                    prj: pipe::ROOT_PRJ.to_string(),
                })
                .collect();
            let roles = vec![Role::Parse; files.len()];
            match isolated(files.clone(), roles, true) {
                Err(p) => println!("TEMPLATE {w}/{variant} {name}: PANIC {p}"),
                Ok(r) => {
                    let errs: Vec<String> = r.diags.iter().map(|x| format!("[{}{}] {} {} @{}", x.stage, if x.is_error { " ERROR" } else { "" }, x.code, x.message, x.path.rsplit('/').next().unwrap_or(""))).collect();
                    println!("TEMPLATE {w}/{variant} {name}: {:?} captured={:?} {errs:?}", r.reached, r.captured.iter().map(|c| matches!(c, Some(Ok(_)))).collect::<Vec<_>>());
                    if let Reached::ParseError(_) = r.reached {
                        for f in &files {
                            println!("--- {}\n{}", f.path, f.text);
                        }
                    }
                }
            }
        }
    }
}

pub fn run(ctx: &Ctx) {
    if let Ok(list) = std::env::var("VERIF_C06_TRYFILES") {
        // development aid: analyse the given files as one project, print diagnostics
        let files: Vec<FileIn> = list
            .split(',')
            .enumerate()
            .map(|(k, p)| FileIn {
                label: format!("f{k}"),
                path: p.to_string(),
                text: std::fs::read_to_string(p).expect("read"),
                prj: pipe::ROOT_PRJ.to_string(),
            })
            .collect();
        let roles = vec![Role::Parse; files.len()];
        match isolated(files, roles, true) {
            Err(p) => println!("PANIC {p}"),
            Ok(r) => {
                println!("{:?}", r.reached);
                for x in &r.diags {
                    println!("[{}{}] {} {} @{} {:?}", x.stage, if x.is_error { " ERROR" } else { "" }, x.code, x.message, x.path, x.spans);
                }
                if std::env::var("VERIF_C06_DUMP").is_ok() {
                    for (n, t) in &r.sections {
                        println!("=== {n}\n{t}");
                    }
                }
            }
        }
        std::process::exit(2);
    }
    if std::env::var("VERIF_C06_SELFTEST").is_ok() {
        selftest_templates();
        std::process::exit(2);
    }
    let corpus = corpus::load();
    let n = std::env::var("VERIF_C06_CASES").ok().and_then(|x| x.parse().ok()).unwrap_or_else(|| ctx.scale(400, 20_000));
    // explicit cases: `--replay` of a written-out case, reproducers of listed findings
    let listed: Vec<String> = ctx.findings().iter().map(|k| k.key.clone()).collect();
    let explicit_broke = std::sync::atomic::AtomicBool::new(false);
    ctx.run_payloads("explicit", |p| match case_from_json(p) {
        Some(c) => {
            let o = decide(&c);
            if let Outcome::Fail(f) = &o
                && !listed.contains(&f.signature)
            {
                explicit_broke.store(true, std::sync::atomic::Ordering::Relaxed);
            }
            o
        }
        None => Outcome::skip("malformed explicit case"),
    });
    // A reproducer of a listed finding that now fails differently is already a
    // violation; a regression that bad tends to end in unbounded recursion in
    // pass 2, which would take the whole process down (exit 2) — stop here.
    if !explicit_broke.load(std::sync::atomic::Ordering::Relaxed) {
        // shrinking re-runs three pipelines per step and the failure message
        // carries the whole case, so only a few steps
        ctx.run("restore", CaseCfg::cases(n).choices(1200).stack_mb(16).shrink_iters(24), |d| run_case(d, &corpus));
    }
    ctx.assume("in-process: the harness calls fragment_cache::{watermark,capture,restore}, Fragment::{to_bytes,from_bytes}, scope::set_project and Analyzer::drop_file in the order pipeline.rs / incremental.rs (CLI) and server.rs / incremental.rs (language server) do; the on-disk store (veryl_cache::Store) is C29's subject");
    ctx.assume("a restored file gets no pass 2 and is not emitted (the pipeline has no AST for it); its fresh-parse counterpart is treated the same way, so the comparison isolates the fragment");
    ctx.assume("runs stop like fail_fast: after post-pass1, at the first file whose pass 2 reports an error, or after post-pass2 when an error was reported; both runs must stop at the same point with the same diagnostics");
    ctx.assume("raw numbers of StrId / PathId / ScopeId are not compared (interning order differs legitimately); they are replaced by the string / path / scope name path. TokenId / SymbolId / DefinitionId / TextId are compared as (file, offset in the file's id window); entries of hash maps are sorted");
    ctx.finish(
        "exploration",
        "file sets (a corpus file + a user + everything they mention, and/or a generated multi-file set of declaration kinds), 0-3 generated filler files in front (independently for the capture and the restore run), two processing orders, and the restored file(s). Non-trivial: the restored fragment holds > 0 symbols and a token of another file references one of them. Distinct by (file texts, restored set, filler counts + texts, orders)",
    );
}
