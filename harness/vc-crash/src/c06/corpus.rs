//! The repository corpus as a pool of file sets: each file knows which other
//! corpus files it mentions (by top-level declaration name), so a case can
//! take "a file plus what it needs".

use std::collections::{BTreeMap, BTreeSet};

pub struct CorpusFile {
    pub path: String,
    pub text: String,
    pub prj: String,
    /// top-level names this file declares
    pub decls: Vec<String>,
    /// indices of the files this file mentions a declaration of
    pub needs: Vec<usize>,
    /// indices of the files that mention a declaration of this file
    pub users: Vec<usize>,
    /// the text cut into its top-level items (each with the gap — comments,
    /// doc comments, attributes — in front of it); empty if it does not parse
    pub items: Vec<Item>,
}

#[derive(Clone)]
pub struct Item {
    pub text: String,
    /// a file-level `import`: scoped to the file, so every part needs a copy
    pub is_import: bool,
}

/// Cuts a text into its top-level description groups with the parser's own
/// token ranges.  `#[elsif]` / `#[else]` groups stay glued to their `#[ifdef]`.
pub fn split_items(text: &str, path: &str) -> Vec<Item> {
    use veryl_parser::Parser;
    use veryl_parser::token_range::TokenRange;
    use veryl_parser::veryl_grammar_trait::{DescriptionGroupGroup, DescriptionItem};
    let text = text.to_string();
    let path = path.to_string();
    std::thread::Builder::new()
        .stack_size(32 << 20)
        .spawn(move || {
            let Ok(parser) = Parser::parse(&text, &std::path::Path::new(&path)) else {
                return vec![];
            };
            let mut out: Vec<Item> = Vec::new();
            let mut prev_end = 0usize;
            let n = parser.veryl.veryl_list.len();
            for (k, x) in parser.veryl.veryl_list.iter().enumerate() {
                let g = x.description_group.as_ref();
                let r: TokenRange = g.into();
                let mut end = (r.end.pos + r.end.length) as usize;
                if k + 1 == n || end > text.len() {
                    end = text.len();
                }
                if end < prev_end || !text.is_char_boundary(end) {
                    return vec![];
                }
                let piece = text[prev_end..end].to_string();
                prev_end = end;
                let is_import = matches!(
                    g.description_group_group.as_ref(),
                    DescriptionGroupGroup::DescriptionItem(i)
                        if matches!(i.description_item.as_ref(), DescriptionItem::ImportDeclaration(_))
                );
                let head = text[(r.beg.pos as usize).min(text.len())..].trim_start();
                if (head.starts_with("#[elsif") || head.starts_with("#[else")) && !out.is_empty() {
                    out.last_mut().unwrap().text.push_str(&piece);
                } else {
                    out.push(Item { text: piece, is_import });
                }
            }
            out
        })
        .expect("spawn")
        .join()
        .unwrap_or_default()
}

pub struct Corpus {
    pub files: Vec<CorpusFile>,
}

/// Words of a Veryl text outside comments and strings, with the brace depth
/// each one occurs at.
fn words(src: &str) -> Vec<(String, usize)> {
    words_pos(src).into_iter().map(|(w, d, _)| (w, d)).collect()
}

/// (word, brace depth, byte offset just behind the word)
fn words_pos(src: &str) -> Vec<(String, usize, usize)> {
    let b = src.as_bytes();
    let mut out = Vec::new();
    let mut i = 0;
    let mut depth = 0usize;
    while i < b.len() {
        let c = b[i];
        if c == b'/' && i + 1 < b.len() && b[i + 1] == b'/' {
            while i < b.len() && b[i] != b'\n' {
                i += 1;
            }
        } else if c == b'/' && i + 1 < b.len() && b[i + 1] == b'*' {
            i += 2;
            while i + 1 < b.len() && !(b[i] == b'*' && b[i + 1] == b'/') {
                i += 1;
            }
            i += 2;
        } else if c == b'"' {
            i += 1;
            while i < b.len() && b[i] != b'"' {
                if b[i] == b'\\' {
                    i += 1;
                }
                i += 1;
            }
            i += 1;
        } else if c == b'{' && src[i..].starts_with("{{{") {
            // embed body: raw text up to `}}}`
            match src[i..].find("}}}") {
                Some(e) => i += e + 3,
                None => i = b.len(),
            }
        } else if c == b'{' || c == b'(' {
            depth += 1;
            i += 1;
        } else if c == b'}' || c == b')' {
            depth = depth.saturating_sub(1);
            i += 1;
        } else if c.is_ascii_alphabetic() || c == b'_' {
            let s = i;
            while i < b.len() && (b[i].is_ascii_alphanumeric() || b[i] == b'_') {
                i += 1;
            }
            let mut w = &src[s..i];
            // raw identifier r#name
            if w == "r" && i < b.len() && b[i] == b'#' {
                let s2 = i + 1;
                let mut j = s2;
                while j < b.len() && (b[j].is_ascii_alphanumeric() || b[j] == b'_') {
                    j += 1;
                }
                if j > s2 {
                    w = &src[s2..j];
                    i = j;
                }
            }
            out.push((w.to_string(), depth, i));
        } else {
            i += 1;
        }
    }
    out
}

pub fn top_level_decls(src: &str) -> Vec<String> {
    let w = words(src);
    let mut out = Vec::new();
    let mut k = 0;
    while k < w.len() {
        let (word, depth) = (&w[k].0, w[k].1);
        if depth == 0 && matches!(word.as_str(), "module" | "interface" | "package") && k + 1 < w.len() {
            // `alias module X = …`, `proto module X`, `pub module X`
            let name = &w[k + 1].0;
            if !matches!(name.as_str(), "module" | "interface" | "package") {
                out.push(name.clone());
            }
            k += 2;
            continue;
        }
        k += 1;
    }
    out
}

/// Top-level modules and interfaces that can be instantiated as they are:
/// not generic, not a proto, not an alias, not under an attribute.
pub fn plain_components(src: &str) -> Vec<(bool, String)> {
    let w = words_pos(src);
    let mut out = Vec::new();
    for k in 0..w.len() {
        let (word, depth, _) = (&w[k].0, w[k].1, w[k].2);
        if depth != 0 || !matches!(word.as_str(), "module" | "interface") || k + 1 >= w.len() {
            continue;
        }
        if k > 0 && matches!(w[k - 1].0.as_str(), "proto" | "alias") && w[k - 1].1 == 0 {
            continue;
        }
        let (name, _, end) = &w[k + 1];
        if matches!(name.as_str(), "module" | "interface" | "package") {
            continue;
        }
        let rest = src[*end..].trim_start();
        if !(rest.starts_with('{') || rest.starts_with('#') || rest.starts_with('(') || rest.starts_with("for ")) {
            continue;
        }
        if name.starts_with("test") {
            // `#[test]` items of a dependency are not analysed
            continue;
        }
        out.push((word == "module", name.clone()));
    }
    out
}

pub fn mentioned(src: &str) -> BTreeSet<String> {
    words(src).into_iter().map(|x| x.0).collect()
}

pub fn load() -> Corpus {
    let mut files: Vec<CorpusFile> = vcore::util::corpus_files()
        .into_iter()
        .filter_map(|p| {
            let text = std::fs::read_to_string(&p).ok()?;
            let path = p.to_string_lossy().into_owned();
            let prj = if path.contains("/crates/std/") { "$std" } else { super::pipe::ROOT_PRJ };
            Some(CorpusFile {
                decls: top_level_decls(&text),
                path,
                text,
                prj: prj.to_string(),
                needs: vec![],
                users: vec![],
                items: vec![],
            })
        })
        .collect();
    assert!(files.len() > 50, "corpus not found under the repository");
    let mut owner: BTreeMap<String, Vec<usize>> = BTreeMap::new();
    for (i, f) in files.iter().enumerate() {
        for d in &f.decls {
            owner.entry(d.clone()).or_default().push(i);
        }
    }
    for i in 0..files.len() {
        let m = mentioned(&files[i].text);
        let mut needs = BTreeSet::new();
        for w in &m {
            if let Some(os) = owner.get(w) {
                for &o in os {
                    // a root-project file reaches the std only through `$std::`;
                    // std files never reach the root project
                    if o != i && !(files[i].prj == "$std" && files[o].prj != "$std") {
                        needs.insert(o);
                    }
                }
            }
        }
        files[i].needs = needs.into_iter().collect();
    }
    for i in 0..files.len() {
        for o in files[i].needs.clone() {
            files[o].users.push(i);
        }
    }
    for f in files.iter_mut() {
        f.items = split_items(&f.text, &f.path);
        // the cut must be lossless
        if f.items.iter().map(|i| i.text.as_str()).collect::<String>() != f.text {
            f.items.clear();
        }
    }
    Corpus { files }
}

impl Corpus {
    /// Transitive closure of `needs` from the roots, `None` above `cap` files.
    pub fn closure(&self, roots: &[usize], cap: usize) -> Option<Vec<usize>> {
        let mut set = BTreeSet::new();
        let mut stack: Vec<usize> = roots.to_vec();
        while let Some(x) = stack.pop() {
            if set.insert(x) {
                if set.len() > cap {
                    return None;
                }
                stack.extend(self.files[x].needs.iter().copied());
            }
        }
        Some(set.into_iter().collect())
    }
}
