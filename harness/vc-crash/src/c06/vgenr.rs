//! Generated Veryl texts: filler files (shift every id window) and small
//! multi-file sets exercising declaration kinds.
//!
//! A *feature* is a group of top-level items: declarations (`decl`) and
//! items that use them (`uses`).  Veryl's top level is order- and
//! file-independent inside a project, so the items of the drawn features are
//! dealt onto 2–4 files at random: every file both declares things others
//! reference and references things declared elsewhere.

use vcore::Draw;

/// A self-contained filler file: declares `Fill<tag>…` names nobody refers to
/// and consumes a drawn number of tokens, symbols, definitions, strings and
/// literals, so everything behind it lands at different ids.
pub fn filler(d: &mut Draw, tag: usize) -> String {
    let mut s = String::new();
    let n = d.usize_in(1, 4);
    for k in 0..n {
        match d.below(4) {
            0 => {
                let w = d.usize_in(1, 40);
                let vars = d.usize_in(0, 6);
                s.push_str(&format!("/// filler module {tag}_{k}\nmodule Fill{tag}M{k} #(\n    param P{k}: u32 = {w},\n) (\n    i_a: input  logic<P{k}>,\n    o_a: output logic<P{k}>,\n) {{\n"));
                for v in 0..vars {
                    s.push_str(&format!("    let _v{v}: logic<{}> = {}'h{:x};\n", v + 1, v + 1, v & 1));
                }
                s.push_str("    assign o_a = i_a;\n}\n");
            }
            1 => {
                let c = d.usize_in(1, 8);
                s.push_str(&format!("package Fill{tag}P{k} {{\n"));
                for v in 0..c {
                    s.push_str(&format!("    const C{v}: u32 = {};\n", v * 3 + tag));
                }
                s.push_str(&format!("    struct S{k} {{\n        a: logic<{c}>,\n        b: bit,\n    }}\n    enum E{k} {{\n        X,\n        Y,\n    }}\n    function f{k} (\n        x: input logic<8>,\n    ) -> logic<8> {{\n        return x + 1;\n    }}\n}}\n"));
            }
            2 => {
                s.push_str(&format!("interface Fill{tag}I{k} {{\n    var a: logic;\n    var b: logic<{}>;\n    modport mp {{\n        a: input ,\n        b: output,\n    }}\n}}\n", d.usize_in(1, 9)));
            }
            _ => {
                s.push_str(&format!("// filler comment {tag}_{k} \"{}\"\nmodule Fill{tag}E{k} {{}}\n", d.ident(6)));
            }
        }
    }
    s
}

pub struct FileSet {
    /// (short name, text)
    pub files: Vec<(String, String)>,
    pub classes: Vec<String>,
}

struct Feature {
    name: &'static str,
    decl: Vec<String>,
    uses: Vec<String>,
}

const DOCS: &[&str] = &[
    "plain doc comment",
    "doc with `code` and *emphasis*",
    "ドキュメント コメント é ß",
    "trailing spaces   ",
    "",
];

fn doc(d: &mut Draw, indent: &str) -> String {
    let n = d.weighted(&[2, 3, 1]);
    let mut s = String::new();
    for _ in 0..n {
        s.push_str(&format!("{indent}/// {}\n", d.pick(DOCS)));
    }
    s
}

/// package with consts / types / struct / enum / union / function
fn f_package(d: &mut Draw, k: usize) -> Feature {
    let w = d.usize_in(2, 12);
    let w2 = d.usize_in(1, 9);
    let v = d.usize_in(0, 3);
    let pubk = if d.bool() { "pub " } else { "" };
    let decl = format!(
        "{}{pubk}package PkgA{k} {{\n{}    const W: u32 = {w};\n    const V: bit<W> = {v};\n    type word = logic<W>;\n{}    struct Pair {{\n{}        lo: word,\n        hi: logic<{w2}>,\n    }}\n    enum Kind: logic<2> {{\n{}        Idle,\n        Busy = 2'd2,\n        Done,\n    }}\n    union Both {{\n        a: logic<W>,\n        b: bit<W>,\n    }}\n{}    function inc (\n        x: input word,\n    ) -> word {{\n        return x + 1;\n    }}\n}}\n",
        doc(d, ""),
        doc(d, "    "),
        doc(d, "    "),
        doc(d, "        "),
        doc(d, "        "),
        doc(d, "    "),
    );
    let variant = match d.below(3) {
        0 if k != 0 => 1,
        x => x,
    };
    let use_ = match variant {
        0 => format!(
            "import PkgA{k}::*;\nmodule UseA{k} (\n    i: input  word,\n    o: output word,\n) {{\n    var p: Pair;\n    let kd: Kind = Kind::Busy;\n    var u: Both;\n    assign u.a  = V;\n    assign p.lo = inc(i);\n    assign p.hi = 0;\n    assign o    = if kd == Kind::Idle ? p.lo : u.b;\n}}\n"
        ),
        1 => format!(
            "module UseA{k} (\n    i: input  logic<PkgA{k}::W>,\n    o: output logic<PkgA{k}::W>,\n) {{\n    import PkgA{k}::Pair;\n    import PkgA{k}::W;\n    var p: Pair;\n    const X: u32 = W + 1;\n    let _x: logic<X> = 0;\n    assign p.lo = PkgA{k}::inc(i);\n    assign p.hi = 0;\n    assign o    = p.lo;\n}}\n"
        ),
        _ => format!(
            "module UseA{k} (\n    i: input  PkgA{k}::word,\n    o: output PkgA{k}::word,\n) {{\n    var p: PkgA{k}::Pair;\n    let kd: PkgA{k}::Kind = PkgA{k}::Kind::Done;\n    let c: PkgA{k}::Pair = PkgA{k}::Pair'{{lo: 1, hi: 0}};\n    always_comb {{\n        p = c;\n        case kd {{\n            PkgA{k}::Kind::Idle: p.lo = i;\n            PkgA{k}::Kind::Busy: p.lo = PkgA{k}::inc(x: i);\n            default            : p.lo = PkgA{k}::V;\n        }}\n    }}\n    assign o = p.lo;\n}}\n"
        ),
    };
    Feature {
        name: "package(const,type,struct,enum,union,function)",
        decl: vec![decl],
        uses: vec![use_],
    }
}

/// generic package with default argument and a generic struct
fn f_generic_package(d: &mut Draw, k: usize) -> Feature {
    let def = d.usize_in(1, 9);
    let a = d.usize_in(1, 9);
    let decl = format!(
        "{}pub package PkgG{k}::<T: u32 = {def}> {{\n    const X: u32 = T;\n    struct S::<B: u32> {{\n        a: logic<T>,\n        b: logic<B>,\n    }}\n    function dbl::<N: u32> (\n        x: input logic<N>,\n    ) -> logic<N> {{\n        return x + x;\n    }}\n}}\n",
        doc(d, "")
    );
    let use_ = format!(
        "module UseG{k} {{\n    import PkgG{k}::<5>::*;\n    const A: u32 = PkgG{k}::<{a}>::X;\n    const B: u32 = PkgG{k}::<>::X;\n    const G: u32 = X;\n    var _s: PkgG{k}::<2>::S::<4>;\n    assign _s.a = 1;\n    assign _s.b = 2;\n    let _y: logic<6> = PkgG{k}::<1>::dbl::<6>(3);\n    let _z: logic<A> = 0;\n    let _w: logic<B + G> = 0;\n}}\n"
    );
    Feature {
        name: "generic package(default arg, generic struct, generic function)",
        decl: vec![decl],
        uses: vec![use_],
    }
}

/// proto package, implementation, generic module constrained by the proto, alias package
fn f_proto_package(d: &mut Draw, k: usize) -> Feature {
    let a = d.usize_in(2, 16);
    let decl1 = format!("{}proto package ProtoP{k} {{\n    type data;\n    const N: u32;\n}}\n", doc(d, ""));
    let decl2 = format!(
        "package ImplP{k}::<A: u32> for ProtoP{k} {{\n    type data = logic<A>;\n    const N: u32 = A;\n}}\n"
    );
    let use1 = format!(
        "module GenP{k}::<PKG: ProtoP{k}> {{\n    let _a: PKG::data = 0;\n    let _n: u32 = PKG::N;\n}}\n"
    );
    let use2 = format!(
        "module TopP{k} {{\n    alias package PJ = ImplP{k}::<{a}>;\n    inst u: GenP{k}::<ImplP{k}::<8>>;\n    inst v: GenP{k}::<PJ>;\n}}\n"
    );
    Feature {
        name: "proto package + impl + alias package",
        decl: vec![decl1, decl2],
        uses: vec![use1, use2],
    }
}

/// proto module, implementations, generic module over the proto, alias module
fn f_proto_module(d: &mut Draw, k: usize) -> Feature {
    let w = d.usize_in(1, 12);
    let decl1 = format!(
        "{}pub proto module ProtoM{k} #(\n    param A: u32,\n) (\n    a: input  logic<A>,\n    c: output logic<A>,\n);\n",
        doc(d, "")
    );
    let decl2 = format!(
        "module ImplM{k} for ProtoM{k} #(\n    param A: u32 = {w},\n) (\n    a: input  logic<A>,\n    c: output logic<A>,\n) {{\n    assign c = a;\n}}\n"
    );
    let decl3 = format!(
        "module ImplN{k} for ProtoM{k} #(\n    param A: u32 = {w},\n) (\n    a: input  logic<A>,\n    c: output logic<A>,\n) {{\n    assign c = ~a;\n}}\n"
    );
    let use1 = format!(
        "module GenM{k}::<T: ProtoM{k} = ImplM{k}> (\n    x: input  logic<{w}>,\n    y: output logic<{w}>,\n) {{\n    inst u: T #(\n        A: {w},\n    ) (\n        a: x,\n        c: y,\n    );\n}}\n"
    );
    let use2 = format!(
        "module TopM{k} {{\n    alias module AM = GenM{k}::<ImplN{k}>;\n    var y0: logic<{w}>;\n    var y1: logic<{w}>;\n    var y2: logic<{w}>;\n    inst t0: GenM{k}::<ImplM{k}> (\n        x: 0 ,\n        y: y0,\n    );\n    inst t1: GenM{k}::<> (\n        x: 1 ,\n        y: y1,\n    );\n    inst t2: AM (\n        x: y0,\n        y: y2,\n    );\n    let _s: logic<{w}> = y1 ^ y2;\n}}\n"
    );
    Feature {
        name: "proto module + impls + generic module + alias module",
        decl: vec![decl1, decl2, decl3],
        uses: vec![use1, use2],
    }
}

/// interface with parameter, function, modports (explicit, converse, input), modport ports
fn f_interface(d: &mut Draw, k: usize) -> Feature {
    let w = d.usize_in(1, 16);
    let decl = format!(
        "{}pub interface Bus{k} #(\n    param W: u32 = {w},\n) {{\n{}    var valid: logic   ;\n    var ready: logic   ;\n    var data : logic<W>;\n    function fire () -> logic {{\n        return valid & ready;\n    }}\n    modport master {{\n        valid: output,\n        ready: input ,\n        data : output,\n    }}\n    modport slave {{\n        fire: import,\n        ..converse(master)\n    }}\n    modport mon {{\n        ..input\n    }}\n}}\n",
        doc(d, ""),
        doc(d, "    "),
    );
    let use1 = format!(
        "module Src{k} (\n    m: modport Bus{k}::master,\n) {{\n    assign m.valid = 1;\n    assign m.data  = 0;\n}}\n"
    );
    let use2 = format!(
        "module Dst{k} (\n    s: modport Bus{k}::slave,\n    f: output  logic       ,\n) {{\n    assign s.ready = 1;\n    assign f       = s.fire();\n}}\n"
    );
    let use3 = format!(
        "module Top{k} {{\n    inst b: Bus{k} #( W: {w} );\n    var f: logic;\n    inst s: Src{k} (\n        m: b,\n    );\n    inst t: Dst{k} (\n        s: b,\n        f   ,\n    );\n    inst bb: Bus{k} [2];\n    assign bb[0].valid = f;\n    assign bb[0].ready = 0;\n    assign bb[0].data  = 0;\n    assign bb[1].valid = 0;\n    assign bb[1].ready = 0;\n    assign bb[1].data  = 0;\n}}\n"
    );
    Feature {
        name: "interface(param, function, modports) + modport ports",
        decl: vec![decl],
        uses: vec![use1, use2, use3],
    }
}

/// generic interface + generic module over it
fn f_generic_interface(d: &mut Draw, k: usize) -> Feature {
    let w = d.usize_in(1, 9);
    let decl = format!(
        "interface GIf{k}::<W: u32> {{\n    var a: logic<W>;\n    modport mp {{\n        a: input,\n    }}\n}}\n"
    );
    let use1 = format!("module GMd{k}::<W: u32> (\n    p: modport GIf{k}::<W>::mp,\n) {{\n    let _a: logic<W> = p.a;\n}}\n");
    let use2 = format!(
        "module GTop{k} {{\n    inst i: GIf{k}::<{w}>;\n    assign i.a = 0;\n    inst m: GMd{k}::<{w}> (\n        p: i,\n    );\n}}\n"
    );
    Feature {
        name: "generic interface + generic module",
        decl: vec![decl],
        uses: vec![use1, use2],
    }
}

/// module with params / clock / reset / always_ff / always_comb / function / for; inst with overrides
fn f_module(d: &mut Draw, k: usize) -> Feature {
    let w = d.usize_in(2, 12);
    let ov = d.usize_in(2, 12);
    let decl = format!(
        "{}pub module Core{k} #(\n{}    param WIDTH: u32 = {w},\n    const DEPTH: u32 = WIDTH * 2,\n    param T    : type = logic<WIDTH>,\n) (\n    i_clk: input  clock       , /// clock\n    i_rst: input  reset       ,\n    i_en : input  logic       ,\n    i_d  : input  logic<WIDTH>,\n    o_q  : output logic<WIDTH>,\n    o_t  : output T           ,\n) {{\n    var r  : logic<WIDTH>;\n    var nxt: logic<WIDTH>;\n    function sat (\n        x: input logic<WIDTH>,\n    ) -> logic<WIDTH> {{\n        if x >: DEPTH[WIDTH - 1:0] {{\n            return DEPTH[WIDTH - 1:0];\n        }} else {{\n            return x;\n        }}\n    }}\n    always_comb {{\n        nxt = r;\n        for i in 0..WIDTH {{\n            if i_en {{\n                nxt[i] = i_d[i];\n            }}\n        }}\n        case i_d[1:0] {{\n            2'd0   : nxt = sat(nxt);\n            2'd1, 2: nxt = nxt + 1;\n            default: {{\n                nxt = nxt;\n            }}\n        }}\n    }}\n    always_ff {{\n        if_reset {{\n            r = 0;\n        }} else if i_en {{\n            r = nxt;\n        }}\n    }}\n    assign o_q = r;\n    assign o_t = 0;\n}}\n",
        doc(d, ""),
        doc(d, "    "),
    );
    let use_ = format!(
        "module CoreTop{k} (\n    clk: input  clock     ,\n    rst: input  reset     ,\n    d  : input  logic<{ov}>,\n    q  : output logic<{ov}>,\n) {{\n    type tt = logic<3>;\n    var t: tt;\n    inst u: Core{k} #(\n        WIDTH: {ov},\n        T    : tt,\n    ) (\n        i_clk: clk,\n        i_rst: rst,\n        i_en : 1  ,\n        i_d  : d  ,\n        o_q  : q  ,\n        o_t  : t  ,\n    );\n    #[allow(missing_port)]\n    inst v: Core{k};\n}}\n"
    );
    Feature {
        name: "module(param, const, type param, clock/reset, always, function, for, case) + inst overrides",
        decl: vec![decl],
        uses: vec![use_],
    }
}

/// the same `$sv::` members mentioned by declaration and user files
fn f_sv(d: &mut Draw, k: usize) -> Feature {
    let m = d.below(3);
    let decl = format!(
        "module SvA{k} (\n    p: modport $sv::sv_if{m}::mp,\n) {{\n    inst u: $sv::sv_if{m};\n    var a: $sv::sv_pkg::T{m};\n    assign a = 0;\n    const c: u32 = $sv::sv_pkg::P{m};\n    let _d: logic = u.member{m};\n}}\n"
    );
    let use_ = format!(
        "module SvB{k} {{\n    inst w: $sv::sv_if{m};\n    const e: u32 = $sv::sv_pkg::P{m};\n    inst x: $sv::sv_mod{m} (\n        a: e,\n    );\n    inst y: SvA{k} (\n        p: w,\n    );\n}}\n"
    );
    Feature {
        name: "$sv:: members shared between files",
        decl: vec![decl],
        uses: vec![use_],
    }
}

/// attributes: ifdef / ifndef / elsif / else, allow, sv, fmt, align, enum attributes, cond_type
fn f_attributes(d: &mut Draw, k: usize) -> Feature {
    let def = *d.pick(&["DEF_A", "DEF_B", "DEF_C"]);
    let decl = format!(
        "#[ifdef({def})]\npackage Cfg{k} {{\n    const SEL: u32 = 1;\n}}\n#[else]\npackage Cfg{k} {{\n    const SEL: u32 = 2;\n}}\n"
    );
    let decl2 = format!(
        "module Attr{k} #(\n    #[ifdef({def})]\n    param PA: u32 = 1,\n    #[ifndef({def})]\n    param PB: u32 = 2,\n    param PC: u32 = 3,\n) (\n    #[ifdef({def})]\n    port_x: input logic,\n    #[else]\n    port_y: input logic,\n    port_d: input logic,\n) {{\n    #[sv(\"ram_style=\\\"block\\\"\")]\n    let _a: logic = port_d;\n    #[allow(unused_variable)]\n    let b: logic = 1;\n    #[ifdef({def})]\n    {{\n        let _c: logic<10> = 1;\n        let _e: logic<10> = 2;\n    }}\n    #[enum_encoding(onehot)]\n    enum E1 {{\n        A,\n        B,\n        C,\n    }}\n    #[enum_member_prefix(pre)]\n    enum E2 {{\n        M0,\n        M1,\n    }}\n    let _f: E1 = E1::B;\n    let _g: E2 = E2::M1;\n    var _h: logic;\n    always_comb {{\n        #[cond_type(unique)]\n        case port_d {{\n            0      : _h = 1;\n            default: _h = 0;\n        }}\n    }}\n    #[fmt(compact)]\n    {{\n        let _i: logic = 0;\n    }}\n    #[align(number, identifier)]\n    {{\n        let _j : logic<8> = 1;\n        let _kk: logic<8> = 100;\n    }}\n}}\n"
    );
    let use_ = format!(
        "module AttrTop{k} {{\n    #[allow(missing_port)]\n    inst u: Attr{k} #(\n        PC: Cfg{k}::SEL,\n    ) (\n        port_y: 0,\n        port_d: 1,\n    );\n    #[ifndef({def})]\n    let _s: logic<Cfg{k}::SEL> = 0;\n}}\n"
    );
    Feature {
        name: "attributes(ifdef/else, allow, sv, enum_*, cond_type, fmt, align)",
        decl: vec![decl, decl2],
        uses: vec![use_],
    }
}

/// clock domains + unsafe(cdc); optionally the domain label is also the name
/// of a top-level package (pass 1 resolves the label lexically, so the label
/// then refers to a symbol of another file — or not, depending on the order)
fn f_unsafe(d: &mut Draw, k: usize) -> Feature {
    f_unsafe_inner(d, k, false)
}

fn f_clock_label(d: &mut Draw, k: usize) -> Feature {
    f_unsafe_inner(d, k, true)
}

fn f_unsafe_inner(d: &mut Draw, k: usize, collide: bool) -> Feature {
    let _ = &d;
    let la = if collide { format!("lbl{k}") } else { "a".to_string() };
    let decl = format!(
        "module Cdc{k} (\n    i_clk_a: input  '{la} clock,\n    i_dat  : input  '{la} logic,\n    i_clk_b: input  'b clock,\n    o_dat  : output 'b logic,\n) {{\n    unsafe (cdc) {{\n        assign o_dat = i_dat;\n    }}\n}}\n"
    );
    let use_ = format!(
        "module CdcTop{k} (\n    ca: input  'm clock,\n    cb: input  'n clock,\n    d : input  'm logic,\n    q : output 'n logic,\n) {{\n    inst u: Cdc{k} (\n        i_clk_a: ca,\n        i_dat  : d ,\n        i_clk_b: cb,\n        o_dat  : q ,\n    );\n}}\n"
    );
    let mut uses = vec![use_];
    if collide {
        uses.push(format!("package lbl{k} {{\n    const Z: u32 = 1;\n}}\n"));
    }
    Feature {
        name: if collide {
            "clock domain label named like a package of another file"
        } else {
            "clock domains + unsafe(cdc)"
        },
        decl: vec![decl],
        uses,
    }
}

/// embed with `\{ name \}` reference, include, #[test] items
fn f_embed(d: &mut Draw, k: usize) -> Feature {
    let n = d.usize_in(1, 99);
    let decl = format!("module Emb{k}::<V: u32> {{\n    const B: u32 = V;\n}}\n");
    let decl2 = format!("package EmbP{k} {{\n    const A: u32 = {n};\n}}\n");
    let use1 = format!(
        "module EmbTop{k} {{\n    embed (inline) sv{{{{{{\n        \\{{ Emb{k}::<EmbP{k}::A> \\}} u_b0 ();\n        initial begin\n            $display(\"emb {n}\");\n        end\n    }}}}}}\n}}\n"
    );
    let use2 = format!(
        "#[test(tst{k})]\nembed (inline) sv{{{{{{\nmodule tst{k};\n    initial begin\n        $display(\"hello {n}\");\n        $finish();\n    end\nendmodule\n}}}}}}\n"
    );
    let use3 = "include (inline, \"52_include.sv\");\n".to_string();
    let use4 = format!("#[test(tm{k})]\nmodule tm{k} {{\n    inst u: Emb{k}::<{n}>;\n    initial {{\n        $display(\"t {n}\");\n    }}\n}}\n");
    let mut uses = vec![use1, use2, use4];
    if d.bool() {
        uses.push(use3);
    }
    Feature {
        name: "embed(\\{ \\} reference), include, #[test]",
        decl: vec![decl, decl2],
        uses,
    }
}

/// raw identifiers
fn f_raw(d: &mut Draw, k: usize) -> Feature {
    let _ = d;
    let decl = format!(
        "pub package r#RawP{k} {{\n    const r#param: u32 = 3;\n}}\nmodule RawM{k} (\n    r#inst: input  logic<3>,\n    r#msb : output logic<3>,\n) {{\n    assign r#msb = r#inst;\n}}\n"
    );
    let use_ = format!(
        "module RawTop{k} {{\n    var r#reset: logic<RawP{k}::r#param>;\n    inst u: RawM{k} (\n        r#inst: 1      ,\n        r#msb : r#reset,\n    );\n    let _x: logic<r#RawP{k}::r#param> = r#reset;\n}}\n"
    );
    Feature {
        name: "raw identifiers",
        decl: vec![decl],
        uses: vec![use_],
    }
}

/// module whose doc comment carries wavedrom blocks (checked in post-pass2)
fn f_wavedrom(d: &mut Draw, k: usize) -> Feature {
    let bad = d.chance(1, 4);
    let body = if bad {
        "/// {signal: [\n///   {name: 'clk', wave: 'p..'},\n///   {name: 'nosuch', wave: 'x.3'\n/// ]}\n"
    } else {
        "/// {signal: [\n///   {name: 'clk', wave: 'p..'},\n///   {name: 'dat', wave: 'x.3'}\n/// ]}\n"
    };
    let decl = format!(
        "/// Wave module\n///\n/// ```wavedrom\n{body}/// ```\npub module Wav{k} (\n    clk: input  clock, /// the clock\n    dat: output logic, /// the data\n) {{\n    assign dat = 0;\n}}\n"
    );
    let use_ = format!("module WavTop{k} (\n    c: input clock,\n) {{\n    var q: logic;\n    inst u: Wav{k} (\n        clk: c,\n        dat: q,\n    );\n}}\n");
    Feature {
        name: "doc comment with wavedrom block",
        decl: vec![decl],
        uses: vec![use_],
    }
}

/// bind + enum wildcard import + msb/lsb + connect operation
fn f_misc(d: &mut Draw, k: usize) -> Feature {
    let w = d.usize_in(2, 9);
    let decl = format!(
        "package Msc{k} {{\n    enum Color {{\n        Red,\n        Green,\n    }}\n    const WW: u32 = {w};\n}}\ninterface MscIf{k} {{\n    var v: logic<Msc{k}::WW>;\n    modport mst {{\n        v: output,\n    }}\n    modport slv {{\n        ..converse(mst)\n    }}\n}}\nmodule MscTgt{k} (\n    i_clk: input clock,\n) {{\n    let b: logic<Msc{k}::WW> = 0;\n}}\nmodule MscProbe{k} (\n    i_clk: input clock                ,\n    b    : input logic<Msc{k}::WW>,\n) {{}}\n"
    );
    let use1 = format!(
        "module MscUse{k} (\n    s: modport MscIf{k}::slv,\n    m: modport MscIf{k}::mst,\n) {{\n    import Msc{k}::Color::*;\n    let c: Msc{k}::Color = Green;\n    var x: logic<Msc{k}::WW>;\n    assign x = if c == Red ? 0 : 1;\n    let _y: logic = x[msb];\n    let _z: logic<Msc{k}::WW> = x[msb:lsb];\n    connect m <> s;\n}}\n"
    );
    let use2 = format!("bind MscTgt{k} <- u_p{k}: MscProbe{k} (\n    i_clk,\n    b    ,\n);\n");
    Feature {
        name: "bind, enum wildcard import, msb/lsb, connect",
        decl: vec![decl],
        uses: vec![use1, use2],
    }
}

/// generic function with inference, struct constructor, named arguments
fn f_generic_function(d: &mut Draw, k: usize) -> Feature {
    let w = d.usize_in(2, 16);
    let decl = format!(
        "package Fn{k} {{\n    function add::<T: u32> (\n        a: input logic<T>,\n        b: input logic<T>,\n    ) -> logic<T> {{\n        return a + b;\n    }}\n    struct St {{\n        a: logic<{w}>,\n        b: logic<2> ,\n    }}\n}}\n"
    );
    let use_ = format!(
        "module FnUse{k} {{\n    import Fn{k}::*;\n    let p: logic<{w}> = 1;\n    let q: logic<{w}> = 2;\n    let _r: logic<{w}> = add::<{w}>(p, q);\n    let _s: logic<{w}> = add::<{w}>(a: p, b: q);\n    let _t: St = St'{{a: p, ..default(0)}};\n    let _u: Fn{k}::St = Fn{k}::St'{{a: q, b: 1}};\n}}\n"
    );
    Feature {
        name: "generic function, struct constructor, named arguments",
        decl: vec![decl],
        uses: vec![use_],
    }
}

/// interface mixin
fn f_mixin(d: &mut Draw, k: usize) -> Feature {
    let w = d.usize_in(1, 9);
    let decl = format!(
        "package MixP{k} {{\n    type T = logic<{w}>;\n}}\ninterface MixA{k} {{\n    import MixP{k}::*;\n    var a: T;\n    modport mp_a {{\n        a: input,\n    }}\n}}\n"
    );
    let use1 = format!(
        "interface MixC{k} {{\n    mixin MixA{k};\n    var c: logic;\n    modport mp_ac {{\n        c: input,\n        ..same(mp_a)\n    }}\n}}\n"
    );
    let use2 = format!(
        "module MixM{k} (\n    p: modport MixC{k}::mp_ac,\n) {{}}\nmodule MixTop{k} {{\n    inst i: MixC{k};\n    always_comb {{\n        i.a = 0;\n        i.c = 0;\n    }}\n    inst m: MixM{k} (\n        p: i,\n    );\n}}\n"
    );
    Feature {
        name: "interface mixin",
        decl: vec![decl],
        uses: vec![use1, use2],
    }
}

/// the same top-level name declared in two files: the second one processed
/// reports `duplicated_identifier` (not cacheable); restoring the other one
/// behind it is a symbol conflict, so `restore` errs and the caller falls back
fn f_duplicate(d: &mut Draw, k: usize) -> Feature {
    let w = d.usize_in(1, 9);
    let decl = format!("/// first Dup{k}\nmodule Dup{k} (\n    a: input logic<{w}>,\n) {{\n    let _x: logic<{w}> = a;\n}}\npackage DupSide{k} {{\n    const K: u32 = {w};\n}}\n");
    let use_ = format!("module Dup{k} {{\n    let _y: logic<DupSide{k}::K> = 0;\n}}\n");
    Feature {
        name: "duplicate top-level name in two files (restore conflict)",
        decl: vec![decl],
        uses: vec![use_],
    }
}

const N_FEATURES: u32 = 17;

fn feature(d: &mut Draw, which: u32, k: usize) -> Feature {
    match which {
        0 => f_package(d, k),
        1 => f_module(d, k),
        2 => f_interface(d, k),
        3 => f_generic_package(d, k),
        4 => f_proto_module(d, k),
        5 => f_proto_package(d, k),
        6 => f_generic_interface(d, k),
        7 => f_sv(d, k),
        8 => f_attributes(d, k),
        9 => f_unsafe(d, k),
        10 => f_embed(d, k),
        11 => f_raw(d, k),
        12 => f_wavedrom(d, k),
        13 => f_misc(d, k),
        14 => f_generic_function(d, k),
        15 => f_mixin(d, k),
        16 => f_clock_label(d, k),
        _ => f_duplicate(d, k),
    }
}

pub fn all_feature_names() -> Vec<&'static str> {
    let mut d = Draw::new(vec![]);
    (0..=N_FEATURES).map(|w| feature(&mut d, w, 0).name).collect()
}

/// One feature alone, declarations in file `a`, users in file `b` (self-test
/// of the templates).
pub fn single_feature(which: u32, variant: u32) -> Vec<(String, String)> {
    // variant 0: all-zero choices (simplest alternatives); others: fixed pseudo-random
    let choices: Vec<u32> = (0..200u32)
        .map(|i| if variant == 0 { 0 } else { (i.wrapping_mul(2654435761).wrapping_add(variant.wrapping_mul(0x9E3779B9))).rotate_left(variant * 7) })
        .collect();
    let mut d = Draw::new(choices);
    let f = feature(&mut d, which, 0);
    vec![("a".into(), f.decl.concat()), ("b".into(), f.uses.concat())]
}

pub fn file_set(d: &mut Draw) -> FileSet {
    let nfeat = d.usize_in(1, 4);
    let nfiles = d.usize_in(2, 4);
    // per file: declarations first, then users (a package has to be
    // declared before the point it is referred to inside the same file)
    let mut decls: Vec<Vec<String>> = vec![vec![]; nfiles];
    let mut users: Vec<Vec<String>> = vec![vec![]; nfiles];
    let mut classes = Vec::new();
    for k in 0..nfeat {
        let which = if d.chance(1, 24) { N_FEATURES } else { d.below(N_FEATURES) };
        let f = feature(d, which, k);
        classes.push(format!("gen:{}", f.name));
        // The analyzer panics (type_dag.rs insert_file_edge, WouldCycle) when
        // two *files* depend on each other, so dependencies only point to a
        // file with a lower or equal index: the items of a feature are listed
        // in dependency order and get a non-decreasing sequence of files.
        let mut at = d.below_usize(nfiles);
        for item in f.decl {
            if d.chance(1, 5) {
                at = at + d.below_usize(nfiles - at);
            }
            decls[at].push(item);
        }
        // users mostly in a later file
        if at + 1 < nfiles && d.chance(5, 6) {
            at = at + 1 + d.below_usize(nfiles - at - 1);
        }
        for item in f.uses {
            if d.chance(1, 4) {
                at = at + d.below_usize(nfiles - at);
            }
            users[at].push(item);
        }
    }
    let mut out = Vec::new();
    for i in 0..nfiles {
        let mut text = String::new();
        let sep = if d.chance(1, 4) { "\n\n" } else { "\n" };
        for group in [&mut decls[i], &mut users[i]] {
            // features do not depend on each other: any order of the groups' items
            for j in (1..group.len()).rev() {
                let r = d.below_usize(j + 1);
                group.swap(j, r);
            }
            for item in group.iter() {
                text.push_str(item);
                text.push_str(sep);
            }
        }
        if text.is_empty() {
            text = format!("// empty part {i}\n");
        }
        out.push((format!("g{i}"), text));
    }
    FileSet { files: out, classes }
}

/// Cuts a corpus file's top-level items onto 2–4 part files (file-level
/// imports are copied into every part).  The parts must not depend on each
/// other cyclically (see `file_set`): the items are ordered so that an item
/// comes after everything it mentions (items that mention each other stay
/// together), then the sequence is cut into contiguous parts.
pub fn split_corpus_file(d: &mut Draw, items: &[super::corpus::Item]) -> Vec<String> {
    use super::corpus::{mentioned, top_level_decls};
    let body: Vec<&super::corpus::Item> = items.iter().filter(|i| !i.is_import).collect();
    let n = body.len();
    let decls: Vec<Vec<String>> = body.iter().map(|i| top_level_decls(&i.text)).collect();
    let ments: Vec<std::collections::BTreeSet<String>> = body.iter().map(|i| mentioned(&i.text)).collect();
    // reach[i][j]: item i (transitively) mentions a declaration of item j
    let mut reach = vec![vec![false; n]; n];
    for i in 0..n {
        for j in 0..n {
            if i != j && decls[j].iter().any(|x| ments[i].contains(x)) {
                reach[i][j] = true;
            }
        }
    }
    for k in 0..n {
        for i in 0..n {
            if reach[i][k] {
                for j in 0..n {
                    if reach[k][j] {
                        reach[i][j] = true;
                    }
                }
            }
        }
    }
    // groups of mutually dependent items
    let mut group = vec![usize::MAX; n];
    let mut groups: Vec<Vec<usize>> = Vec::new();
    for i in 0..n {
        if group[i] != usize::MAX {
            continue;
        }
        let g = groups.len();
        let mut members = vec![i];
        group[i] = g;
        for j in i + 1..n {
            if group[j] == usize::MAX && reach[i][j] && reach[j][i] {
                group[j] = g;
                members.push(j);
            }
        }
        groups.push(members);
    }
    // dependency order of the groups, ties broken by a drawn priority
    let ng = groups.len();
    let prio: Vec<u32> = (0..ng).map(|_| d.below(1000)).collect();
    let mut done = vec![false; ng];
    let mut order: Vec<usize> = Vec::new();
    while order.len() < ng {
        let mut best: Option<usize> = None;
        for g in 0..ng {
            if done[g] {
                continue;
            }
            let ready = (0..ng).all(|h| h == g || done[h] || !reach[groups[g][0]][groups[h][0]]);
            if ready && best.is_none_or(|b| prio[g] < prio[b]) {
                best = Some(g);
            }
        }
        let g = best.unwrap_or_else(|| (0..ng).find(|&g| !done[g]).unwrap());
        done[g] = true;
        order.push(g);
    }
    let nparts = d.usize_in(2, 4).min(ng.max(1));
    // cut points
    let mut part_of_pos = vec![0usize; ng];
    if nparts > 1 {
        let mut cuts: Vec<usize> = Vec::new();
        while cuts.len() < nparts - 1 {
            let c = 1 + d.below_usize(ng - 1);
            if !cuts.contains(&c) {
                cuts.push(c);
            }
        }
        cuts.sort();
        for (pos, p) in part_of_pos.iter_mut().enumerate() {
            *p = cuts.iter().filter(|&&c| c <= pos).count();
        }
    }
    let mut parts: Vec<String> = vec![String::new(); nparts.max(1)];
    for it in items.iter().filter(|i| i.is_import) {
        for p in parts.iter_mut() {
            p.push_str(&it.text);
            p.push('\n');
        }
    }
    for (pos, &g) in order.iter().enumerate() {
        for &i in &groups[g] {
            parts[part_of_pos[pos]].push_str(&body[i].text);
            parts[part_of_pos[pos]].push('\n');
        }
    }
    for (j, p) in parts.iter_mut().enumerate() {
        if p.trim().is_empty() {
            *p = format!("// part {j} got no item\n");
        }
    }
    parts
}
