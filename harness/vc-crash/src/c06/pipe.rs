//! One in-process analysis run, driven the way `crates/veryl/src/pipeline.rs`
//! + `incremental.rs` (and the language server's `background_analyze`) drive
//! it: per file either `Fragment::from_bytes` → `scope::set_project` →
//! `fragment_cache::restore` (on `Err`: `Analyzer::drop_file` and fall through)
//! or `watermark` → `Parser::parse` → `analyze_pass1` → `capture` (+
//! `to_bytes`) when pass 1 reported nothing; then `analyze_post_pass1`,
//! `analyze_pass2` for every file that has an AST, `analyze_post_pass2`, emit.
//! Must be called on a fresh thread (all tables are thread-local).

use super::norm::{IdNames, norm_debug};
use miette::Diagnostic;
use std::path::{Path, PathBuf};
use veryl_analyzer::fragment_cache::{self, Fragment};
use veryl_analyzer::ir::Ir;
use veryl_analyzer::symbol::SymbolId;
use veryl_analyzer::{
    Analyzer, AnalyzerError, Context, attribute_table, definition_table, generic_inference_table,
    literal_table, reference_table, scope, symbol, symbol_table, type_dag, unsafe_table,
};
use veryl_emitter::Emitter;
use veryl_metadata::Metadata;
use veryl_parser::resource_table::{self, PathId, StrId};
use veryl_parser::text_table::{self, TextId};
use veryl_parser::veryl_token::TokenSource;
use veryl_parser::{Parser, doc_comment_table};

pub const ROOT_PRJ: &str = "prj";

#[derive(Clone, Debug)]
pub struct FileIn {
    /// stable label of the file inside the case ("f0", "fill1", …)
    pub label: String,
    pub path: String,
    pub text: String,
    pub prj: String,
}

#[derive(Clone, Debug)]
pub enum Role {
    /// parse + pass1 + pass2 + emit
    Parse,
    /// parse + pass1, but no pass2 / emit (the B' counterpart of a restored
    /// file: the pipeline has no AST for a restored file, so it gets neither)
    ParseNoPass2,
    /// restore from these fragment bytes; fall back to parse on any error
    Restore(Vec<u8>),
}

#[derive(Clone, Debug, PartialEq, Eq)]
pub enum How {
    Parsed,
    Restored,
    /// `Fragment::from_bytes` failed → parsed
    DecodeFailed(String),
    /// `restore` returned Err → `drop_file` → parsed
    RestoreFailed(String),
}

#[derive(Clone, Copy, Default, Debug, PartialEq, Eq)]
pub struct Counters {
    pub tok: usize,
    pub text: usize,
    pub sym: usize,
    pub def: usize,
}

fn counters() -> Counters {
    Counters {
        tok: resource_table::peek_token_id(),
        text: text_table::peek_text_id(),
        sym: symbol::peek_symbol_id(),
        def: definition_table::peek_definition_id(),
    }
}

#[derive(Clone, Debug)]
pub struct Slot {
    pub label: String,
    pub before: Counters,
    pub after: Counters,
}

#[derive(Clone, Debug, PartialEq, Eq, PartialOrd, Ord)]
pub struct DiagRec {
    pub stage: &'static str,
    pub is_error: bool,
    pub code: String,
    pub message: String,
    pub path: String,
    pub spans: Vec<(usize, usize)>,
}

fn diag_rec(stage: &'static str, e: &AnalyzerError) -> DiagRec {
    let path = match e.token_source() {
        TokenSource::File { path, .. } => resource_table::get_path_value(path)
            .map(|p| p.to_string_lossy().into_owned())
            .unwrap_or_default(),
        other => format!("{other:?}"),
    };
    DiagRec {
        stage,
        is_error: e.is_error(),
        code: e.code().map(|c| c.to_string()).unwrap_or_default(),
        message: e.to_string(),
        path,
        spans: e
            .labels()
            .map(|l| l.map(|x| (x.offset(), x.len())).collect())
            .unwrap_or_default(),
    }
}

#[derive(Clone, Debug, PartialEq, Eq)]
pub enum Reached {
    ParseError(String),
    /// an error diagnostic stopped the run after this stage
    StoppedAfter(&'static str),
    Emitted,
}

pub struct RunOut {
    pub reached: Reached,
    pub how: Vec<How>,
    /// capture result per file (None: not captured — restored, or pass 1
    /// reported diagnostics, which makes the callers pass `cacheable = false`)
    pub captured: Vec<Option<Result<Vec<u8>, String>>>,
    pub slots: Vec<Slot>,
    /// (section name, normalised text); only ids are normalised
    pub sections: Vec<(String, String)>,
    /// raw `Display` dumps that print raw token ids; comparable only when the
    /// id layout of the two runs is the same
    pub raw_sections: Vec<(String, String)>,
    pub diags: Vec<DiagRec>,
    /// (label, sv, source map bytes)
    pub emitted: Vec<(String, String, Vec<u8>)>,
    /// per file: number of symbols in its id window
    pub sym_count: Vec<usize>,
    /// per file: a symbol of its window is referenced by a token of another file
    pub xref: Vec<bool>,
    /// per file: number of pass-1 diagnostics
    pub pass1_diags: Vec<usize>,
}

struct Names<'a> {
    slots: &'a [Slot],
}

impl Names<'_> {
    fn counter(&self, tag: &str, n: usize, get: fn(&Counters) -> usize) -> String {
        for s in self.slots {
            let (lo, hi) = (get(&s.before), get(&s.after));
            if n > lo && n <= hi {
                return format!("{tag}<{}+{}>", s.label, n - lo);
            }
        }
        match (self.slots.first(), self.slots.last()) {
            (Some(f), _) if n <= get(&f.before) => format!("{tag}<pre {n}>"),
            (_, Some(l)) if n > get(&l.after) => format!("{tag}<post+{}>", n - get(&l.after)),
            _ => format!("{tag}<gap {n}>"),
        }
    }
}

impl IdNames for Names<'_> {
    fn name(&self, kind: &str, n: usize) -> Option<String> {
        Some(match kind {
            "StrId" => match resource_table::get_str_value(StrId(n)) {
                Some(s) => format!("{s:?}"),
                None => format!("StrId<unknown {n}>"),
            },
            "PathId" => match resource_table::get_path_value(PathId(n)) {
                Some(p) => format!("path<{}>", p.to_string_lossy()),
                None => format!("PathId<unknown {n}>"),
            },
            "ScopeId" => scope_name(scope::ScopeId(n as u32)),
            "TokenId" => {
                if n == 0 {
                    "Tok<0>".into()
                } else {
                    self.counter("Tok", n, |c| c.tok)
                }
            }
            "SymbolId" => {
                if n == 0 {
                    "Sym<0>".into()
                } else {
                    self.counter("Sym", n, |c| c.sym)
                }
            }
            "DefinitionId" => {
                if n == 0 {
                    "Def<0>".into()
                } else {
                    self.counter("Def", n, |c| c.def)
                }
            }
            "TextId" => {
                if n == 0 {
                    "Text<0>".into()
                } else {
                    self.counter("Text", n, |c| c.text)
                }
            }
            _ => return None,
        })
    }
}

fn scope_name(s: scope::ScopeId) -> String {
    let p: Vec<String> = scope::name_path(s).iter().map(|x| x.to_string()).collect();
    format!("scope<{}>", p.join("::"))
}

fn dbg_lines<T: std::fmt::Debug>(names: &Names, items: &[T]) -> String {
    let mut out = String::new();
    for it in items {
        out.push_str(&norm_debug(&format!("{it:?}"), names));
        out.push('\n');
    }
    out
}

/// Everything one file's fragment carries, read back from the live tables
/// with the same export functions `capture` uses, right after the file was
/// processed (restore or parse + pass1).
fn dump_file_state(
    out: &mut Vec<(String, String)>,
    slots: &[Slot],
    label: &str,
    path: &Path,
    before: &Counters,
    after: &Counters,
    pend: &symbol_table::PendingWatermark,
    refc0: usize,
    tdc0: usize,
    gp0: usize,
) {
    let names = Names { slots };
    let pid = resource_table::insert_path(path);
    let mut sec = |name: &str, text: String| out.push((format!("pass1/{label}/{name}"), text));
    let frag = symbol_table::export_fragment(before.sym, after.sym, pend);
    // `export_fragment` also returns the file's shadowed `$sv::` members (a
    // private list only a capture of this same file reads; a restore does not
    // refill it and no caller captures a restored file): live symbols only.
    let live: Vec<_> = frag.symbols.iter().filter(|s| symbol_table::get(s.id).is_some()).collect();
    sec("symbols", dbg_lines(&names, &live));
    sec("imports", dbg_lines(&names, &frag.imports));
    sec("binds", dbg_lines(&names, &frag.binds));
    sec("msbs", dbg_lines(&names, &frag.msbs));
    sec("connects", dbg_lines(&names, &frag.connects));
    sec("reference_functions", dbg_lines(&names, &frag.reference_functions));
    sec("references", dbg_lines(&names, &frag.references));
    sec("doc_comments", dbg_lines(&names, &doc_comment_table::export_by_path(pid)));
    sec("token_namespaces", dbg_lines(&names, &scope::export_tokens_by_path(pid)));
    sec("literals", dbg_lines(&names, &literal_table::export_in_window(before.tok, after.tok)));
    sec("attributes", dbg_lines(&names, &attribute_table::export_by_path(pid)));
    sec("unsafes", dbg_lines(&names, &unsafe_table::export_by_path(pid)));
    sec(
        "definitions",
        dbg_lines(&names, &definition_table::export_in_window(before.def, after.def)),
    );
    sec(
        "reference_candidates",
        dbg_lines(&names, &reference_table::export_candidates_since(refc0)),
    );
    sec(
        "type_dag_candidates",
        dbg_lines(&names, &type_dag::export_candidates_since(tdc0)),
    );
    sec(
        "generic_inference_pending",
        dbg_lines(&names, &generic_inference_table::export_pending_since(gp0)),
    );
    let mut texts = String::new();
    for t in before.text + 1..=after.text {
        match text_table::get(TextId(t)) {
            Some(info) => texts.push_str(&format!(
                "{} path={} bytes={} hash={:x}\n",
                names.counter("Text", t, |c| c.text),
                resource_table::get_path_value(info.path)
                    .map(|p| p.to_string_lossy().into_owned())
                    .unwrap_or_default(),
                info.text.len(),
                vcore::hash_str(&info.text)
            )),
            None => texts.push_str(&format!("{} <absent>\n", names.counter("Text", t, |c| c.text))),
        }
    }
    sec("texts", texts);
}

/// Whole-table state after a global stage.
fn dump_global_state(out: &mut Vec<(String, String)>, raw: &mut Vec<(String, String)>, slots: &[Slot], files: &[FileIn], stage: &str) {
    let names = Names { slots };
    let mut sec = |name: &str, text: String| out.push((format!("{stage}/{name}"), text));
    // the repository's own dumps
    sec("symbol_table::dump", symbol_table::dump());
    // The order of a node's parent lines is the order the edges were added;
    // for generic arguments that is the iteration order of an
    // FxHashMap<StrId, _> (type_dag.rs apply: `map.map.values()`), i.e. it
    // follows the StrId numbering, which differs legitimately.  Compared as a
    // set per node; the order later stages do observe is `toposort` below.
    // (the repository's dump functions unwrap a toposort: they panic when a
    // cyclic dependency was recorded — caught, the same in both runs)
    let guarded = |f: &dyn Fn() -> String| -> String {
        std::panic::catch_unwind(std::panic::AssertUnwindSafe(f)).unwrap_or_else(|_| "<the dump function panicked>".to_string())
    };
    sec("type_dag::dump", guarded(&|| sort_parent_lines(&type_dag::dump())));
    sec("filelist order (sort_filelist over type_dag::toposort)", guarded(&filelist_order));
    raw.push((format!("{stage}/scope::dump_tokens"), scope::dump_tokens()));
    raw.push((format!("{stage}/attribute_table::dump"), attribute_table::dump()));
    raw.push((format!("{stage}/unsafe_table::dump"), unsafe_table::dump()));
    // every symbol with every field, its references, its scope wiring
    let mut syms = symbol_table::get_all();
    syms.sort_by_key(|s| s.id);
    let mut sym_lines: Vec<String> = Vec::with_capacity(syms.len());
    let mut scope_lines: Vec<String> = Vec::new();
    let mut seen_scopes = std::collections::BTreeSet::new();
    for s in &syms {
        let mut line = norm_debug(&format!("{s:?}"), &names);
        if let Some(r) = symbol_table::get_references(s.id) {
            line.push_str(" refs=");
            line.push_str(&norm_debug(&format!("{r:?}"), &names));
        }
        if let Some(r) = symbol_table::get_reference_functions(s.id) {
            line.push_str(" ref_funcs=");
            line.push_str(&norm_debug(&format!("{r:?}"), &names));
        }
        sym_lines.push(line);
        // scope tree: the enclosing scope, and the owned inner scope
        let mut scopes = vec![s.scope];
        if scope::scope_kind_of(&s.kind).is_some()
            && let Some(inner) = scope::child(s.scope, s.token.text)
        {
            scopes.push(inner);
        }
        for sc in scopes {
            let name = scope_name(sc);
            if !seen_scopes.insert(name.clone()) {
                continue;
            }
            let owner = scope::owner_of(sc).map(|SymbolId(n)| names.counter("Sym", n, |c| c.sym));
            let prj = scope::project_of(sc).map(|x| x.to_string());
            let par = scope::parent(sc).map(scope_name);
            let wild = norm_debug(&format!("{:?}", scope::wildcards_get(sc)), &names);
            let mix = norm_debug(&format!("{:?}", scope::mixin_get(sc)), &names);
            let deleg = scope::generic_delegation(sc).map(scope_name);
            scope_lines.push(format!(
                "{name} owner={owner:?} project={prj:?} parent={par:?} depth={} delegation={deleg:?} wildcards={wild} mixins={mix}",
                scope::depth(sc)
            ));
        }
        // explicit import bindings visible under this symbol's own name
        let imps = scope::imports_get(s.scope, s.token.text);
        if !imps.is_empty() {
            scope_lines.push(format!(
                "{} imports[{}]={}",
                scope_name(s.scope),
                s.token.text,
                norm_debug(&format!("{imps:?}"), &names)
            ));
        }
        let locals = scope::locals_get(s.scope, s.token.text);
        scope_lines.push(format!(
            "{} locals[{}]={}",
            scope_name(s.scope),
            s.token.text,
            norm_debug(&format!("{locals:?}"), &names)
        ));
    }
    scope_lines.sort();
    scope_lines.dedup();
    sec("symbols", sym_lines.join("\n"));
    sec("scopes", scope_lines.join("\n"));
    // per-file tables
    for f in files {
        let pid = resource_table::insert_path(Path::new(&f.path));
        sec(
            &format!("token_namespaces/{}", f.label),
            dbg_lines(&names, &scope::export_tokens_by_path(pid)),
        );
        // explicit imports registered in the file's top-level scopes are in
        // `scopes`; attributes / unsafes / doc comments are positional
        sec(
            &format!("attributes/{}", f.label),
            dbg_lines(&names, &attribute_table::export_by_path(pid)),
        );
        sec(
            &format!("unsafes/{}", f.label),
            dbg_lines(&names, &unsafe_table::export_by_path(pid)),
        );
        sec(
            &format!("doc_comments/{}", f.label),
            dbg_lines(&names, &doc_comment_table::export_by_path(pid)),
        );
    }
    sec(
        "literals",
        dbg_lines(&names, &literal_table::export_in_window(0, usize::MAX - 1)),
    );
    let mut deps: Vec<String> = type_dag::dependent_files()
        .into_iter()
        .map(|(p, mut d)| {
            d.sort_by_key(|x| x.to_string());
            format!("{p} <- {}", d.iter().map(|x| x.to_string()).collect::<Vec<_>>().join(" "))
        })
        .collect();
    deps.sort();
    sec("type_dag::dependent_files", deps.join("\n"));
    let mut tests: Vec<String> = symbol_table::get_tests(ROOT_PRJ)
        .iter()
        .map(|(n, p)| norm_debug(&format!("{n:?} {p:?}"), &names))
        .collect();
    tests.sort();
    sec("tests", tests.join("\n"));
}

/// `type_dag::dump` as a multiset of blocks (a node line + the set of its
/// parent lines): nodes with equal names keep their toposort order in the
/// dump, and that order — like the order of a node's parent lines — follows
/// the order in which edges were added, see `dump_global_state`.
fn sort_parent_lines(dump: &str) -> String {
    let mut blocks: Vec<(String, Vec<String>)> = Vec::new();
    for l in dump.lines() {
        if l.starts_with(" |- ") {
            if let Some(b) = blocks.last_mut() {
                b.1.push(l.to_string());
            } else {
                blocks.push((String::new(), vec![l.to_string()]));
            }
        } else {
            blocks.push((l.to_string(), Vec::new()));
        }
    }
    let mut out: Vec<String> = blocks
        .into_iter()
        .map(|(h, mut p)| {
            p.sort();
            if p.is_empty() { h } else { format!("{h}\n{}", p.join("\n")) }
        })
        .collect();
    out.sort();
    out.join("\n")
}

/// The order `cmd_build.rs sort_filelist` derives from the type DAG: files in
/// the order their modules / interfaces / packages first appear in
/// `type_dag::toposort()`.
fn filelist_order() -> String {
    use veryl_analyzer::symbol::SymbolKind;
    let mut seen = std::collections::BTreeSet::new();
    let mut out = Vec::new();
    for symbol in type_dag::toposort() {
        if matches!(symbol.kind, SymbolKind::Module(_) | SymbolKind::Interface(_) | SymbolKind::Package(_))
            && let TokenSource::File { path, .. } = symbol.token.source
        {
            let p = path.to_string();
            if seen.insert(p.clone()) {
                out.push(p);
            }
        }
    }
    out.join("\n")
}

pub fn metadata() -> Metadata {
    Metadata::create_default(ROOT_PRJ).expect("default metadata")
}

pub fn run_pipeline(files: &[FileIn], roles: &[Role], capture: bool) -> RunOut {
    assert_eq!(files.len(), roles.len());
    let md = metadata();
    let analyzer = Analyzer::new(&md);
    let n = files.len();
    let mut out = RunOut {
        reached: Reached::Emitted,
        how: vec![How::Parsed; n],
        captured: vec![None; n],
        slots: Vec::with_capacity(n),
        sections: Vec::new(),
        raw_sections: Vec::new(),
        diags: Vec::new(),
        emitted: Vec::new(),
        sym_count: vec![0; n],
        xref: vec![false; n],
        pass1_diags: vec![0; n],
    };
    let mut parsers: Vec<Option<Parser>> = Vec::with_capacity(n);

    for (k, f) in files.iter().enumerate() {
        let path = PathBuf::from(&f.path);
        let mut restored = false;
        let mut before = counters();
        let mut pend = symbol_table::pending_watermark();
        let mut refc0 = reference_table::candidates_len();
        let mut tdc0 = type_dag::candidates_len();
        let mut gp0 = generic_inference_table::pending_len();
        if let Role::Restore(bytes) = &roles[k] {
            match Fragment::from_bytes(bytes) {
                Err(e) => out.how[k] = How::DecodeFailed(e.to_string()),
                Ok(fragment) => {
                    // what analyze_pass1 would otherwise register for the project
                    let prj: StrId = f.prj.as_str().into();
                    scope::set_project(prj, f.prj == ROOT_PRJ);
                    match fragment_cache::restore(&fragment, prj) {
                        Ok(()) => {
                            restored = true;
                            out.how[k] = How::Restored;
                        }
                        Err(e) => {
                            Analyzer::drop_file(resource_table::insert_path(&path), Some(prj));
                            out.how[k] = How::RestoreFailed(e.to_string());
                        }
                    }
                }
            }
        }
        if restored {
            parsers.push(None);
        } else {
            before = counters();
            pend = symbol_table::pending_watermark();
            refc0 = reference_table::candidates_len();
            tdc0 = type_dag::candidates_len();
            gp0 = generic_inference_table::pending_len();
            let wm = fragment_cache::watermark();
            let parser = match Parser::parse(&f.text, &path) {
                Ok(p) => p,
                Err(e) => {
                    out.reached = Reached::ParseError(format!("{}: {e}", f.path));
                    return out;
                }
            };
            let errs = analyzer.analyze_pass1(&f.prj, &parser.veryl);
            out.pass1_diags[k] = errs.len();
            if capture && errs.is_empty() {
                out.captured[k] = Some(match fragment_cache::capture(&path, &f.text, &wm) {
                    Ok(fr) => fr.to_bytes().map_err(|e| format!("to_bytes: {e}")),
                    Err(e) => Err(e.to_string()),
                });
            }
            for e in &errs {
                out.diags.push(diag_rec("pass1", e));
            }
            parsers.push(Some(parser));
        }
        let after = counters();
        out.sym_count[k] = after.sym - before.sym;
        out.slots.push(Slot {
            label: f.label.clone(),
            before,
            after,
        });
        if !matches!(roles[k], Role::Parse) {
            // dumped right away: the pending-list exports run "since the
            // watermark" to the end of the lists.  (The slots of later files
            // are not known yet; a file's own fragment must not mention them
            // anyway — they would print as post+n in both runs.)
            dump_file_state(&mut out.sections, &out.slots, &files[k].label, &path, &before, &after, &pend, refc0, tdc0, gp0);
        }
    }

    let has_error = |d: &[DiagRec]| d.iter().any(|x| x.is_error);

    for e in Analyzer::analyze_post_pass1() {
        out.diags.push(diag_rec("post_pass1", &e));
    }
    dump_global_state(&mut out.sections, &mut out.raw_sections, &out.slots, files, "post_pass1");
    if has_error(&out.diags) {
        out.reached = Reached::StoppedAfter("post_pass1");
        finish(&mut out, files);
        return out;
    }

    let mut context = Context::default();
    let mut ir = Ir::default();
    for (k, f) in files.iter().enumerate() {
        if !matches!(roles[k], Role::Parse) {
            continue;
        }
        let Some(p) = &parsers[k] else { continue };
        context.set_project_name(&f.prj);
        let errs = analyzer.analyze_pass2(&p.veryl, &mut context, Some(&mut ir));
        for e in &errs {
            out.diags.push(diag_rec("pass2", e));
        }
        if errs.iter().any(|e| e.is_error()) {
            // fail_fast: the CLI stops at the first file whose pass 2 errs
            out.reached = Reached::StoppedAfter("pass2");
            dump_global_state(&mut out.sections, &mut out.raw_sections, &out.slots, files, "pass2-stopped");
            finish(&mut out, files);
            return out;
        }
    }
    for e in Analyzer::analyze_post_pass2(&ir) {
        out.diags.push(diag_rec("post_pass2", &e));
    }
    dump_global_state(&mut out.sections, &mut out.raw_sections, &out.slots, files, "post_pass2");
    if has_error(&out.diags) {
        out.reached = Reached::StoppedAfter("post_pass2");
        finish(&mut out, files);
        return out;
    }

    for (k, f) in files.iter().enumerate() {
        if !matches!(roles[k], Role::Parse) {
            continue;
        }
        let Some(p) = &parsers[k] else { continue };
        let src = PathBuf::from(&f.path);
        let dst = src.with_extension("sv");
        let map = src.with_extension("sv.map");
        let mut emitter = Emitter::new(&md, &f.prj, &src, &dst, &map);
        emitter.emit(&p.veryl, &f.text);
        let sv = emitter.as_str().to_string();
        let mapb = emitter.source_map().to_bytes().unwrap_or_default();
        out.emitted.push((f.label.clone(), sv, mapb));
    }
    finish(&mut out, files);
    out
}

/// Cross-file reference facts for the non-triviality rule.
fn finish(out: &mut RunOut, files: &[FileIn]) {
    for (k, f) in files.iter().enumerate() {
        let pid = resource_table::insert_path(Path::new(&f.path));
        let s = &out.slots[k];
        'sym: for id in s.before.sym + 1..=s.after.sym {
            if let Some(refs) = symbol_table::get_references(SymbolId(id)) {
                for t in refs {
                    if let TokenSource::File { path, .. } = t.source
                        && path != pid
                    {
                        out.xref[k] = true;
                        break 'sym;
                    }
                }
            }
        }
    }
}
