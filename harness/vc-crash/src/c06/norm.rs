//! Normaliser for `{:?}` (compact `Debug`) output of analyzer data.
//!
//! Two runs that must be compared (B: file restored from its fragment, B':
//! the same file parsed afresh) legitimately differ in
//!   * `StrId` / `PathId` numbers — strings are interned in a different order
//!     when a fragment's dictionary is re-interned instead of lexing the file;
//!   * `ScopeId` numbers — a walk interns owner-less scratch scopes a restore
//!     does not (documented in scope.rs);
//!   * the iteration order of `FxHashMap`s keyed by such ids;
//!   * (only if a file's pass 1 consumes a context-dependent number of ids)
//!     the absolute `TokenId` / `SymbolId` / `DefinitionId` / `TextId` values.
//! Everything else must be equal.  So the text is parsed into a small tree,
//! every `Kind(n)` id is replaced by a canonical name supplied by the caller
//! (string value, path, scope name path, `file+offset`), and the entries of
//! anonymous `{..}` groups (maps / sets) are sorted.

#[derive(Debug)]
enum Node {
    Atom(String),
    Colon,
    Group {
        head: Option<String>,
        open: char,
        items: Vec<Vec<Node>>,
    },
}

#[derive(Clone, Copy, PartialEq)]
enum Tok<'a> {
    Open(char),
    Close(char),
    Comma,
    Colon,
    Atom(&'a str),
}

fn lex(s: &str) -> Vec<Tok<'_>> {
    let b = s.as_bytes();
    let mut out = Vec::with_capacity(s.len() / 4);
    let mut i = 0;
    while i < b.len() {
        let c = b[i];
        match c {
            b' ' | b'\n' | b'\t' | b'\r' => i += 1,
            b'{' | b'(' | b'[' => {
                out.push(Tok::Open(c as char));
                i += 1;
            }
            b'}' | b')' | b']' => {
                out.push(Tok::Close(c as char));
                i += 1;
            }
            b',' => {
                out.push(Tok::Comma);
                i += 1;
            }
            b':' if i + 1 < b.len() && b[i + 1] == b' ' => {
                out.push(Tok::Colon);
                i += 1;
            }
            b'"' => {
                let st = i;
                i += 1;
                while i < b.len() && b[i] != b'"' {
                    if b[i] == b'\\' {
                        i += 1;
                    }
                    i += 1;
                }
                i = (i + 1).min(b.len());
                out.push(Tok::Atom(&s[st..i]));
            }
            b'\'' => {
                // char literal 'x' / '\n' / '\u{..}'; otherwise part of an atom
                let st = i;
                let mut j = i + 1;
                let mut ok = false;
                if j < b.len() {
                    if b[j] == b'\\' {
                        j += 2;
                        while j < b.len() && b[j] != b'\'' && j - st < 14 {
                            j += 1;
                        }
                        ok = j < b.len() && b[j] == b'\'';
                    } else {
                        // one (possibly multi-byte) character
                        j += 1;
                        while j < b.len() && (b[j] & 0xC0) == 0x80 {
                            j += 1;
                        }
                        ok = j < b.len() && b[j] == b'\'';
                    }
                }
                if ok {
                    i = j + 1;
                    out.push(Tok::Atom(&s[st..i]));
                } else {
                    i = atom_end(b, i + 1);
                    out.push(Tok::Atom(&s[st..i]));
                }
            }
            _ => {
                let st = i;
                i = atom_end(b, i + 1);
                out.push(Tok::Atom(&s[st..i]));
            }
        }
    }
    out
}

fn atom_end(b: &[u8], mut i: usize) -> usize {
    while i < b.len() {
        match b[i] {
            b' ' | b'\n' | b'\t' | b'\r' | b'{' | b'}' | b'(' | b')' | b'[' | b']' | b',' | b'"' => break,
            b':' if i + 1 < b.len() && b[i + 1] == b' ' => break,
            _ => i += 1,
        }
    }
    i
}

fn is_ident(s: &str) -> bool {
    let mut it = s.chars();
    match it.next() {
        Some(c) if c.is_ascii_alphabetic() || c == '_' => {}
        _ => return false,
    }
    s.chars().all(|c| c.is_ascii_alphanumeric() || c == '_' || c == ':')
}

fn closer(open: char) -> char {
    match open {
        '{' => '}',
        '(' => ')',
        _ => ']',
    }
}

/// Parses items until the matching close (or the end).  Returns the items.
fn parse_items(toks: &[Tok<'_>], pos: &mut usize, close: Option<char>) -> Vec<Vec<Node>> {
    let mut items: Vec<Vec<Node>> = vec![vec![]];
    while *pos < toks.len() {
        let t = toks[*pos];
        *pos += 1;
        match t {
            Tok::Comma => items.push(vec![]),
            Tok::Colon => items.last_mut().unwrap().push(Node::Colon),
            Tok::Atom(a) => items.last_mut().unwrap().push(Node::Atom(a.to_string())),
            Tok::Close(c) => {
                if Some(c) == close {
                    break;
                }
                // unbalanced (hand-written Debug): keep it as text
                items.last_mut().unwrap().push(Node::Atom(c.to_string()));
            }
            Tok::Open(o) => {
                let cur = items.last_mut().unwrap();
                let head = match cur.last() {
                    Some(Node::Atom(a)) if is_ident(a) => {
                        let Some(Node::Atom(a)) = cur.pop() else {
                            unreachable!()
                        };
                        Some(a)
                    }
                    _ => None,
                };
                let inner = parse_items(toks, pos, Some(closer(o)));
                items.last_mut().unwrap().push(Node::Group {
                    head,
                    open: o,
                    items: inner,
                });
            }
        }
    }
    if items.last().is_some_and(|x| x.is_empty()) && items.len() > 1 {
        items.pop();
    }
    items
}

/// Canonical names for ids; `None` keeps `Kind(n)` as printed.
pub trait IdNames {
    fn name(&self, kind: &str, n: usize) -> Option<String>;
}

fn render(node: &Node, names: &dyn IdNames, out: &mut String) {
    match node {
        Node::Atom(a) => out.push_str(a),
        Node::Colon => out.push(':'),
        Node::Group { head, open, items } => {
            // an id?
            if let Some(h) = head
                && *open == '('
                && items.len() == 1
                && items[0].len() == 1
                && let Node::Atom(a) = &items[0][0]
                && let Ok(n) = a.parse::<usize>()
                && let Some(name) = names.name(h, n)
            {
                out.push_str(&name);
                return;
            }
            if let Some(h) = head {
                out.push_str(h);
                if *open == '{' {
                    out.push(' ');
                }
            }
            out.push(*open);
            let mut parts: Vec<String> = items
                .iter()
                .map(|item| {
                    let mut s = String::new();
                    render_item(item, names, &mut s);
                    s
                })
                .collect();
            if head.is_none() && *open == '{' {
                parts.sort();
            }
            out.push_str(&parts.join(", "));
            out.push(closer(*open));
        }
    }
}

fn render_item(item: &[Node], names: &dyn IdNames, out: &mut String) {
    let mut first = true;
    for n in item {
        if !first && !matches!(n, Node::Colon) {
            out.push(' ');
        }
        first = false;
        render(n, names, out);
    }
}

/// Normalises one compact-`Debug` string.
pub fn norm_debug(s: &str, names: &dyn IdNames) -> String {
    let toks = lex(s);
    let mut pos = 0;
    let mut out = String::with_capacity(s.len());
    // top level: there may be stray closers; loop until everything is consumed
    let mut first = true;
    while pos < toks.len() {
        let items = parse_items(&toks, &mut pos, None);
        for item in &items {
            if !first {
                out.push_str(", ");
            }
            first = false;
            render_item(item, names, &mut out);
        }
    }
    out
}

#[cfg(test)]
mod tests {
    use super::*;
    struct N;
    impl IdNames for N {
        fn name(&self, kind: &str, n: usize) -> Option<String> {
            match kind {
                "StrId" => Some(format!("s{n}")),
                _ => None,
            }
        }
    }
    #[test]
    fn basic() {
        let s = r#"Foo { a: StrId(3), m: {StrId(9): 1, StrId(2): 2}, t: (TokenId(4), "x, {y}"), c: ':' }"#;
        let n = norm_debug(s, &N);
        assert_eq!(n, r#"Foo {a: s3, m: {s2: 2, s9: 1}, t: (TokenId(4), "x, {y}"), c: ':'}"#);
    }
}
