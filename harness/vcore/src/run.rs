//! Runner glue: proptest-driven generated search with shrinking, replay files,
//! known-findings matching, class counters, evidence writer, watchdog.

use crate::draw::Draw;
use proptest::prelude::*;
use proptest::test_runner::{Config, RngAlgorithm, TestCaseError, TestError, TestRng, TestRunner};
use serde_json::{Value, json};
use std::collections::{BTreeMap, HashSet};
use std::path::{Path, PathBuf};
use std::sync::atomic::{AtomicBool, AtomicU64, Ordering};
use std::sync::{Arc, Mutex};
use std::time::Instant;

pub const VERIF_ROOT: &str = "/verif";

/// Where a run writes (evidence/, replays/): /verif, or `$VERIF_OUT` when the
/// harness is exercised against a scratch copy of the repository (mutation
/// runs) and must not touch the committed evidence.
pub fn out_root() -> String {
    std::env::var("VERIF_OUT").unwrap_or_else(|_| VERIF_ROOT.to_string())
}

#[derive(Clone, Copy, PartialEq, Eq, Debug)]
pub enum Tier {
    Quick,
    Thorough,
}

#[derive(Clone, Debug, Default)]
pub struct CaseInfo {
    /// content hash of the generated case (distinctness)
    pub key: u64,
    /// non-trivial by the check's stated rule
    pub nontrivial: bool,
    /// class labels for the generator-distribution histogram
    pub classes: Vec<String>,
    /// the case written out (kept for a handful of cases only)
    pub sample: String,
}

#[derive(Clone, Debug)]
pub struct Failure {
    /// root-cause signature, matched against known_findings.json `key`
    pub signature: String,
    pub message: String,
    /// the failing input written out (source text, history, …)
    pub input: Value,
}

#[derive(Clone, Debug)]
pub enum Outcome {
    Pass(CaseInfo),
    /// outside the property's domain (rejected by a stated precondition)
    Skip(String),
    Fail(Failure),
}

impl Outcome {
    pub fn pass(key: u64, nontrivial: bool, classes: Vec<String>, sample: String) -> Outcome {
        Outcome::Pass(CaseInfo {
            key,
            nontrivial,
            classes,
            sample,
        })
    }
    pub fn skip(reason: impl Into<String>) -> Outcome {
        Outcome::Skip(reason.into())
    }
    pub fn fail(signature: impl Into<String>, message: impl Into<String>, input: Value) -> Outcome {
        Outcome::Fail(Failure {
            signature: signature.into(),
            message: message.into(),
            input,
        })
    }
}

#[derive(Clone, Debug)]
pub struct CaseCfg {
    pub cases: usize,
    /// upper bound on the length of the generated choice vector
    pub max_choices: usize,
    /// worker threads (0 = all cores)
    pub threads: usize,
    /// run every case on a fresh thread (analyzer/parser state is thread-local)
    pub fresh_thread: bool,
    pub stack_mb: usize,
    pub max_shrink_iters: u32,
    /// a case running longer than this makes the whole check *inconclusive* (exit 2)
    pub case_timeout_s: u64,
}

impl Default for CaseCfg {
    fn default() -> Self {
        CaseCfg {
            cases: 100,
            max_choices: 2000,
            threads: 0,
            fresh_thread: true,
            stack_mb: 8,
            max_shrink_iters: 400,
            case_timeout_s: 300,
        }
    }
}

impl CaseCfg {
    pub fn cases(n: usize) -> Self {
        CaseCfg {
            cases: n,
            ..Default::default()
        }
    }
    pub fn choices(mut self, n: usize) -> Self {
        self.max_choices = n;
        self
    }
    pub fn threads(mut self, n: usize) -> Self {
        self.threads = n;
        self
    }
    pub fn same_thread(mut self) -> Self {
        self.fresh_thread = false;
        self
    }
    pub fn stack_mb(mut self, n: usize) -> Self {
        self.stack_mb = n;
        self
    }
    pub fn shrink_iters(mut self, n: u32) -> Self {
        self.max_shrink_iters = n;
        self
    }
    pub fn timeout_s(mut self, n: u64) -> Self {
        self.case_timeout_s = n;
        self
    }
}

#[derive(Clone, Debug, serde::Deserialize)]
pub struct Finding {
    pub property: String,
    pub key: String,
    pub status: String, // "known" | "fixed"
    #[serde(default)]
    pub what: String,
    #[serde(default)]
    pub commit: Option<String>,
    /// reproducer (path relative to /verif), a replay file of this harness
    #[serde(default)]
    pub replay: Option<String>,
}

#[derive(Default)]
struct SubStats {
    evaluations: u64,
    nontrivial: u64,
    skipped: u64,
    known_hits: u64,
}

#[derive(Default)]
struct State {
    evaluations: u64,
    nontrivial_keys: HashSet<u64>,
    distinct_keys: HashSet<u64>,
    classes: BTreeMap<String, u64>,
    skipped: BTreeMap<String, u64>,
    samples: Vec<Value>,
    known_hits: BTreeMap<String, u64>,
    known_printed: HashSet<String>,
    violations: Vec<(String, String)>, // (signature, replay path)
    repeat_violations: BTreeMap<String, u64>,
    notes: BTreeMap<String, Value>,
    subs: BTreeMap<String, SubStats>,
    assumptions: Vec<String>,
    exhaustive: Option<bool>,
}

pub struct Ctx {
    pub id: String,
    pub tier: Tier,
    pub seed: u64,
    pub replay: Option<PathBuf>,
    /// in replay mode known findings are reported as failures too
    pub strict: bool,
    start: Instant,
    state: Mutex<State>,
    findings: Vec<Finding>,
    stop: Arc<AtomicBool>,
    running: Arc<Mutex<BTreeMap<u64, (Instant, String, Vec<u32>, u64)>>>,
    ticket: AtomicU64,
    max_samples: usize,
}

pub fn hash64(s: &[u8]) -> u64 {
    // FNV-1a 64; stable across runs (no RandomState)
    let mut h: u64 = 0xcbf29ce484222325;
    for b in s {
        h ^= *b as u64;
        h = h.wrapping_mul(0x100000001b3);
    }
    h
}

pub fn hash_str(s: &str) -> u64 {
    hash64(s.as_bytes())
}

fn truncate(s: &str, n: usize) -> String {
    if s.len() <= n {
        s.to_string()
    } else {
        let mut end = n;
        while !s.is_char_boundary(end) {
            end -= 1;
        }
        format!("{}…[{} bytes more]", &s[..end], s.len() - end)
    }
}

impl Ctx {
    /// `args`: `<ID> <quick|thorough> [--replay FILE]`
    pub fn new(id: &str, args: &[String]) -> Ctx {
        let mut tier = match std::env::var("VERIF_TIER").ok().as_deref() {
            Some("thorough") => Tier::Thorough,
            _ => Tier::Quick,
        };
        let mut replay = None;
        let mut i = 0;
        while i < args.len() {
            match args[i].as_str() {
                "quick" => tier = Tier::Quick,
                "thorough" => tier = Tier::Thorough,
                "--replay" => {
                    i += 1;
                    replay = args.get(i).map(PathBuf::from);
                }
                _ => {}
            }
            i += 1;
        }
        let seed = std::env::var("VERIF_SEED")
            .ok()
            .and_then(|s| s.trim().parse::<i128>().ok())
            .map(|v| v as u64)
            .unwrap_or(1);
        let findings = load_findings(id);
        let ctx = Ctx {
            id: id.to_string(),
            tier,
            seed,
            strict: replay.is_some(),
            replay,
            start: Instant::now(),
            state: Mutex::new(State::default()),
            findings,
            stop: Arc::new(AtomicBool::new(false)),
            running: Arc::new(Mutex::new(BTreeMap::new())),
            ticket: AtomicU64::new(0),
            max_samples: 5,
        };
        ctx.spawn_watchdog();
        ctx
    }

    fn spawn_watchdog(&self) {
        let running = self.running.clone();
        let id = self.id.clone();
        std::thread::spawn(move || {
            loop {
                std::thread::sleep(std::time::Duration::from_millis(500));
                let now = Instant::now();
                let g = running.lock().unwrap();
                for (_, (t0, sub, choices, limit)) in g.iter() {
                    if now.duration_since(*t0).as_secs() > *limit {
                        let dir = format!("{}/replays/{id}", out_root());
                        let _ = std::fs::create_dir_all(&dir);
                        let p = format!("{dir}/hang-{:016x}.json", hash64(&choices_bytes(choices)));
                        let _ = std::fs::write(
                            &p,
                            serde_json::to_string_pretty(&json!({"property": id, "sub": sub, "choices": choices, "note": "case exceeded watchdog"})).unwrap(),
                        );
                        println!(
                            "INCONCLUSIVE property={id} sub={sub}: a case exceeded the {limit}s watchdog (saved {p})"
                        );
                        std::process::exit(2);
                    }
                }
            }
        });
    }

    pub fn is_quick(&self) -> bool {
        self.tier == Tier::Quick
    }

    pub fn scale(&self, quick: usize, thorough: usize) -> usize {
        match self.tier {
            Tier::Quick => quick,
            Tier::Thorough => thorough,
        }
    }

    pub fn tier_str(&self) -> &'static str {
        match self.tier {
            Tier::Quick => "quick",
            Tier::Thorough => "thorough",
        }
    }

    pub fn stopped(&self) -> bool {
        self.stop.load(Ordering::Relaxed)
    }

    pub fn note(&self, key: &str, v: Value) {
        self.state.lock().unwrap().notes.insert(key.to_string(), v);
    }

    pub fn note_add(&self, key: &str, n: u64) {
        let mut st = self.state.lock().unwrap();
        let e = st.notes.entry(key.to_string()).or_insert(json!(0));
        *e = json!(e.as_u64().unwrap_or(0) + n);
    }

    pub fn assume(&self, text: &str) {
        let mut st = self.state.lock().unwrap();
        if !st.assumptions.iter().any(|a| a == text) {
            st.assumptions.push(text.to_string());
        }
    }

    pub fn set_exhaustive(&self, v: bool) {
        self.state.lock().unwrap().exhaustive = Some(v);
    }

    pub fn findings(&self) -> &[Finding] {
        &self.findings
    }

    /// Exact key first; otherwise a root-cause key written `<root cause>/*`
    /// matches every signature `<root cause>/<variant>` (used where the variant
    /// part only names which engines showed the same root cause).
    fn known_status(&self, signature: &str) -> Option<&Finding> {
        if let Some(f) = self.findings.iter().find(|f| f.key == signature) {
            return Some(f);
        }
        let (root, _) = signature.rsplit_once('/')?;
        self.findings
            .iter()
            .find(|f| f.key.strip_suffix("/*") == Some(root))
    }

    fn account_pass(&self, sub: &str, info: &CaseInfo) {
        let mut st = self.state.lock().unwrap();
        st.evaluations += 1;
        let s = st.subs.entry(sub.to_string()).or_default();
        s.evaluations += 1;
        if info.nontrivial {
            s.nontrivial += 1;
        }
        st.distinct_keys.insert(info.key);
        let newly = info.nontrivial && st.nontrivial_keys.insert(info.key);
        for c in &info.classes {
            *st.classes.entry(c.clone()).or_insert(0) += 1;
        }
        // keep the first few non-trivial cases of each sub as samples
        if newly {
            let have = st
                .samples
                .iter()
                .filter(|v| v.get("sub").and_then(|s| s.as_str()) == Some(sub))
                .count();
            if have < self.max_samples.min(3) && st.samples.len() < 12 {
                st.samples.push(json!({"sub": sub, "classes": info.classes, "case": truncate(&info.sample, 1500)}));
            }
        }
    }

    fn account_skip(&self, sub: &str, reason: &str) {
        let mut st = self.state.lock().unwrap();
        *st.skipped.entry(format!("{sub}:{reason}")).or_insert(0) += 1;
        st.subs.entry(sub.to_string()).or_default().skipped += 1;
    }

    /// Handles a failure: returns true if it is an unlisted violation.
    fn account_fail(&self, sub: &str, f: &Failure) -> bool {
        if !self.strict
            && let Some(k) = self.known_status(&f.signature)
            && k.status == "known"
        {
            let mut st = self.state.lock().unwrap();
            st.evaluations += 1;
            *st.known_hits.entry(f.signature.clone()).or_insert(0) += 1;
            let s = st.subs.entry(sub.to_string()).or_default();
            s.evaluations += 1;
            s.known_hits += 1;
            if st.known_printed.insert(f.signature.clone()) {
                println!(
                    "KNOWN-FINDING: property={} {} [{}]",
                    self.id, k.what, f.signature
                );
            }
            return false;
        }
        true
    }

    fn write_replay(&self, sub: &str, choices: Option<&[u32]>, payload: Option<&Value>, f: &Failure) -> String {
        let dir = format!("{}/replays/{}", out_root(), self.id);
        let _ = std::fs::create_dir_all(&dir);
        let body = json!({
            "property": self.id,
            "sub": sub,
            "choices": choices,
            "payload": payload,
            "signature": f.signature,
            "message": f.message,
            "input": f.input,
            "seed": self.seed,
        });
        let text = serde_json::to_string_pretty(&body).unwrap();
        let h = hash64(format!("{sub}|{}|{}", f.signature, f.input).as_bytes());
        let p = format!("{dir}/{sub}-{h:016x}.json");
        let _ = std::fs::write(&p, text);
        p
    }

    fn report_violation(&self, sub: &str, choices: Option<&[u32]>, payload: Option<&Value>, f: &Failure) {
        {
            // one report per root cause: further hits are only counted
            let mut st = self.state.lock().unwrap();
            if st.violations.iter().any(|(s, _)| s == &f.signature) {
                st.evaluations += 1;
                st.subs.entry(sub.to_string()).or_default().evaluations += 1;
                *st.repeat_violations.entry(f.signature.clone()).or_insert(0) += 1;
                return;
            }
        }
        let p = self.write_replay(sub, choices, payload, f);
        println!("--- violation in {} / {} ---", self.id, sub);
        println!("signature: {}", f.signature);
        println!("{}", truncate(&f.message, 4000));
        println!("VIOLATION property={} replay={}", self.id, p);
        let mut st = self.state.lock().unwrap();
        st.evaluations += 1;
        st.subs.entry(sub.to_string()).or_default().evaluations += 1;
        st.violations.push((f.signature.clone(), p));
    }

    /// Record the outcome of one *enumerated* (not generated) case.  `payload`
    /// is what a replay needs to re-run it.  Returns true if it passed or was
    /// a listed finding.
    pub fn record(&self, sub: &str, outcome: Outcome, payload: Value) -> bool {
        match outcome {
            Outcome::Pass(info) => {
                self.account_pass(sub, &info);
                true
            }
            Outcome::Skip(r) => {
                self.account_skip(sub, &r);
                true
            }
            Outcome::Fail(f) => {
                if self.account_fail(sub, &f) {
                    self.report_violation(sub, None, Some(&payload), &f);
                    false
                } else {
                    true
                }
            }
        }
    }

    /// If the replay file given on the command line is for `sub`, its content.
    pub fn replay_for(&self, sub: &str) -> Option<Value> {
        let p = self.replay.as_ref()?;
        let v: Value = serde_json::from_str(&std::fs::read_to_string(p).ok()?).ok()?;
        if v.get("sub").and_then(|s| s.as_str()) == Some(sub) {
            Some(v)
        } else {
            None
        }
    }

    /// In replay mode only the sub named by the replay file runs.
    pub fn replay_mode(&self) -> bool {
        self.replay.is_some()
    }

    fn exec_case<F>(&self, sub: &str, cfg: &CaseCfg, choices: &[u32], f: &F) -> Outcome
    where
        F: Fn(&mut Draw) -> Outcome + Sync,
    {
        let ticket = self.ticket.fetch_add(1, Ordering::Relaxed);
        self.running.lock().unwrap().insert(
            ticket,
            (Instant::now(), sub.to_string(), choices.to_vec(), cfg.case_timeout_s),
        );
        let out = if cfg.fresh_thread {
            std::thread::scope(|s| {
                let h = std::thread::Builder::new()
                    .stack_size(cfg.stack_mb << 20)
                    .spawn_scoped(s, || {
                        let mut d = Draw::new(choices.to_vec());
                        f(&mut d)
                    })
                    .expect("spawn");
                match h.join() {
                    Ok(o) => o,
                    Err(e) => panic_outcome(e, choices),
                }
            })
        } else {
            let r = std::panic::catch_unwind(std::panic::AssertUnwindSafe(|| {
                let mut d = Draw::new(choices.to_vec());
                f(&mut d)
            }));
            match r {
                Ok(o) => o,
                Err(e) => panic_outcome(e, choices),
            }
        };
        self.running.lock().unwrap().remove(&ticket);
        out
    }

    /// Generated search for one sub-check: proptest generates and shrinks the
    /// choice vector, `f` turns it into a case and decides it.
    pub fn run<F>(&self, sub: &str, cfg: CaseCfg, f: F)
    where
        F: Fn(&mut Draw) -> Outcome + Sync,
    {
        // ---- replay of a saved case -------------------------------------
        if self.replay_mode() {
            if let Some(v) = self.replay_for(sub) {
                let choices: Vec<u32> = v
                    .get("choices")
                    .and_then(|c| c.as_array())
                    .map(|a| a.iter().map(|x| x.as_u64().unwrap_or(0) as u32).collect())
                    .unwrap_or_default();
                let out = self.exec_case(sub, &cfg, &choices, &f);
                match out {
                    Outcome::Pass(info) => {
                        println!("replay: PASS ({} / {})", self.id, sub);
                        println!("{}", truncate(&info.sample, 4000));
                        self.account_pass(sub, &info);
                    }
                    Outcome::Skip(r) => {
                        println!("replay: SKIP {r}");
                        self.account_skip(sub, &r);
                    }
                    Outcome::Fail(fl) => {
                        self.report_violation(sub, Some(&choices), None, &fl);
                    }
                }
            }
            return;
        }
        if self.stopped() {
            return;
        }
        // ---- reproducers of listed findings -----------------------------
        for k in self.findings.iter().filter(|k| k.replay.is_some()) {
            let path = format!("{VERIF_ROOT}/{}", k.replay.as_ref().unwrap());
            let Ok(text) = std::fs::read_to_string(&path) else {
                continue;
            };
            let Ok(v) = serde_json::from_str::<Value>(&text) else {
                continue;
            };
            if v.get("sub").and_then(|s| s.as_str()) != Some(sub) {
                continue;
            }
            let Some(arr) = v.get("choices").and_then(|c| c.as_array()) else {
                continue;
            };
            let choices: Vec<u32> = arr.iter().map(|x| x.as_u64().unwrap_or(0) as u32).collect();
            let out = self.exec_case(sub, &cfg, &choices, &f);
            self.finding_replay_result(sub, k, out, Some(&choices), None);
        }
        // ---- generated search -------------------------------------------
        let threads = if cfg.threads == 0 {
            std::thread::available_parallelism().map(|n| n.get()).unwrap_or(8)
        } else {
            cfg.threads
        }
        .min(cfg.cases.max(1));
        let per = cfg.cases.div_ceil(threads);
        let fref = &f;
        let cfgref = &cfg;
        std::thread::scope(|scope| {
            for w in 0..threads {
                let sub = sub.to_string();
                scope.spawn(move || {
                    let mut seed = [0u8; 32];
                    let h1 = hash64(format!("{}|{}|{}|{}", self.seed, self.id, sub, w).as_bytes());
                    let h2 = hash64(format!("b{}|{}|{}", h1, self.seed, w).as_bytes());
                    seed[..8].copy_from_slice(&h1.to_le_bytes());
                    seed[8..16].copy_from_slice(&h2.to_le_bytes());
                    seed[16..24].copy_from_slice(&self.seed.to_le_bytes());
                    seed[24..32].copy_from_slice(&(w as u64).to_le_bytes());
                    let rng = TestRng::from_seed(RngAlgorithm::ChaCha, &seed);
                    let config = Config {
                        cases: per as u32,
                        failure_persistence: None,
                        max_shrink_iters: cfgref.max_shrink_iters,
                        max_global_rejects: u32::MAX,
                        max_local_rejects: u32::MAX,
                        ..Config::default()
                    };
                    let mut runner = TestRunner::new_with_rng(config, rng);
                    // lengths: mostly long enough not to run dry, sometimes short
                    let strat = proptest::collection::vec(any::<u32>(), 0..=cfgref.max_choices);
                    let shrinking = std::cell::Cell::new(false);
                    let first_sig = std::cell::RefCell::new(None::<String>);
                    let res = runner.run(&strat, |choices| {
                        if !shrinking.get() && self.stopped() {
                            // another worker found a violation: finish quietly
                            return Ok(());
                        }
                        let out = self.exec_case(&sub, cfgref, &choices, fref);
                        if shrinking.get() {
                            // during shrinking only "same root cause still fails" matters
                            return match out {
                                Outcome::Fail(fl)
                                    if Some(&fl.signature) == first_sig.borrow().as_ref() =>
                                {
                                    Err(TestCaseError::fail(fl.signature))
                                }
                                _ => Ok(()),
                            };
                        }
                        match out {
                            Outcome::Pass(info) => {
                                self.account_pass(&sub, &info);
                                Ok(())
                            }
                            Outcome::Skip(r) => {
                                self.account_skip(&sub, &r);
                                Ok(())
                            }
                            Outcome::Fail(fl) => {
                                if self.account_fail(&sub, &fl) {
                                    shrinking.set(true);
                                    *first_sig.borrow_mut() = Some(fl.signature.clone());
                                    self.stop.store(true, Ordering::Relaxed);
                                    Err(TestCaseError::fail(fl.signature))
                                } else {
                                    Ok(())
                                }
                            }
                        }
                    });
                    if let Err(TestError::Fail(_, minimal)) = res {
                        // re-run the minimal case to get its full description
                        let out = self.exec_case(&sub, cfgref, &minimal, fref);
                        match out {
                            Outcome::Fail(fl) => {
                                self.report_violation(&sub, Some(&minimal), None, &fl)
                            }
                            _ => {
                                // flaky: report the un-shrunk signature without a case
                                let fl = Failure {
                                    signature: first_sig.borrow().clone().unwrap_or_default(),
                                    message: "failure did not reproduce on the shrunk case (non-deterministic check?)".into(),
                                    input: json!({"choices": minimal}),
                                };
                                self.report_violation(&sub, Some(&minimal), None, &fl)
                            }
                        }
                    }
                });
            }
        });
    }

    /// Hand-written / recorded cases identified by a JSON payload instead of a
    /// choice vector: replays `--replay FILE` if it is for `sub`, otherwise
    /// re-runs the reproducer of every listed finding whose replay file is for
    /// `sub` (prints its KNOWN-FINDING line, or a VIOLATION if a fixed one is back).
    pub fn run_payloads<F>(&self, sub: &str, f: F)
    where
        F: Fn(&Value) -> Outcome,
    {
        if self.replay_mode() {
            if let Some(v) = self.replay_for(sub)
                && let Some(payload) = v.get("payload")
                && !payload.is_null()
            {
                match f(payload) {
                    Outcome::Pass(info) => {
                        println!("replay: PASS ({} / {})", self.id, sub);
                        self.account_pass(sub, &info);
                    }
                    Outcome::Skip(r) => {
                        println!("replay: SKIP {r}");
                        self.account_skip(sub, &r);
                    }
                    Outcome::Fail(fl) => self.report_violation(sub, None, Some(payload), &fl),
                }
            }
            return;
        }
        for k in self.findings.iter().filter(|k| k.replay.is_some()) {
            let path = format!("{VERIF_ROOT}/{}", k.replay.as_ref().unwrap());
            let Ok(text) = std::fs::read_to_string(&path) else {
                println!("note: reproducer {path} of finding {} is missing", k.key);
                continue;
            };
            let Ok(v) = serde_json::from_str::<Value>(&text) else {
                continue;
            };
            if v.get("sub").and_then(|s| s.as_str()) != Some(sub) {
                continue;
            }
            let Some(payload) = v.get("payload") else {
                continue;
            };
            if payload.is_null() {
                continue;
            }
            let out = f(payload);
            self.finding_replay_result(sub, k, out, None, Some(payload));
        }
    }

    /// Result of re-running the reproducer of a listed finding.
    pub fn finding_replay_result(
        &self,
        sub: &str,
        k: &Finding,
        out: Outcome,
        choices: Option<&[u32]>,
        payload: Option<&Value>,
    ) {
        match out {
            Outcome::Fail(fl) => {
                if k.status == "known" && fl.signature == k.key {
                    let mut st = self.state.lock().unwrap();
                    *st.known_hits.entry(k.key.clone()).or_insert(0) += 1;
                    if st.known_printed.insert(k.key.clone()) {
                        println!("KNOWN-FINDING: property={} {} [{}]", self.id, k.what, k.key);
                    }
                } else if self.account_fail(sub, &fl) {
                    // a fixed finding came back, or the reproducer now fails differently
                    self.report_violation(sub, choices, payload, &fl);
                }
            }
            Outcome::Pass(info) => {
                self.account_pass(sub, &info);
                if k.status == "known" {
                    let mut st = self.state.lock().unwrap();
                    let e = st
                        .notes
                        .entry("known_findings_not_reproduced".into())
                        .or_insert(json!([]));
                    e.as_array_mut().unwrap().push(json!(k.key));
                }
            }
            Outcome::Skip(r) => self.account_skip(sub, &r),
        }
    }

    /// Write the evidence file and exit with the interface's status code.
    pub fn finish(&self, level: &str, rule: &str) -> ! {
        let st = self.state.lock().unwrap();
        let wall = self.start.elapsed().as_secs_f64();
        let subs: BTreeMap<String, Value> = st
            .subs
            .iter()
            .map(|(k, s)| {
                (
                    k.clone(),
                    json!({"evaluations": s.evaluations, "nontrivial": s.nontrivial, "skipped": s.skipped, "known_finding_hits": s.known_hits}),
                )
            })
            .collect();
        let mut coverage = serde_json::Map::new();
        coverage.insert("evaluations".into(), json!(st.evaluations));
        coverage.insert("distinct_nontrivial".into(), json!(st.nontrivial_keys.len()));
        coverage.insert("distinct_cases".into(), json!(st.distinct_keys.len()));
        coverage.insert("rule".into(), json!(rule));
        coverage.insert("samples".into(), json!(st.samples));
        coverage.insert("classes".into(), json!(st.classes));
        coverage.insert("skipped".into(), json!(st.skipped));
        coverage.insert("known_finding_hits".into(), json!(st.known_hits));
        coverage.insert("sub_checks".into(), json!(subs));
        if !st.violations.is_empty() {
            coverage.insert(
                "violation_signatures".into(),
                json!(st.violations.iter().map(|(s, p)| json!({"signature": s, "replay": p, "further_hits": st.repeat_violations.get(s).copied().unwrap_or(0)})).collect::<Vec<_>>()),
            );
        }
        if let Some(e) = st.exhaustive {
            coverage.insert("exhaustive".into(), json!(e));
        }
        if level == "translation_validation" {
            coverage.insert("programs".into(), json!(st.distinct_keys.len().max(1)));
            coverage.insert(
                "disagreements_checked".into(),
                json!(st.violations.len() as u64 + st.known_hits.values().sum::<u64>()),
            );
        }
        for (k, v) in st.notes.iter() {
            coverage.insert(k.clone(), v.clone());
        }
        let ev = json!({
            "property_id": self.id,
            "tier": self.tier_str(),
            "seed": self.seed as i64,
            "level": level,
            "coverage": Value::Object(coverage),
            "assumptions": st.assumptions,
            "wall_s": wall,
            "violations": st.violations.len(),
        });
        if !self.replay_mode() {
            let dir = format!("{}/evidence", out_root());
            let _ = std::fs::create_dir_all(&dir);
            let p = format!("{dir}/{}.json", self.id);
            std::fs::write(&p, serde_json::to_string_pretty(&ev).unwrap() + "\n")
                .expect("write evidence");
        }
        println!(
            "{} {}: evaluations={} distinct_nontrivial={} skipped={} known_hits={} violations={} wall={:.1}s",
            self.id,
            self.tier_str(),
            st.evaluations,
            st.nontrivial_keys.len(),
            st.skipped.values().sum::<u64>(),
            st.known_hits.values().sum::<u64>(),
            st.violations.len(),
            wall
        );
        let code = if st.violations.is_empty() { 0 } else { 1 };
        drop(st);
        use std::io::Write;
        let _ = std::io::stdout().flush();
        std::process::exit(code);
    }
}

fn choices_bytes(c: &[u32]) -> Vec<u8> {
    c.iter().flat_map(|x| x.to_le_bytes()).collect()
}

fn panic_outcome(e: Box<dyn std::any::Any + Send>, choices: &[u32]) -> Outcome {
    let msg = if let Some(s) = e.downcast_ref::<&str>() {
        s.to_string()
    } else if let Some(s) = e.downcast_ref::<String>() {
        s.clone()
    } else {
        "panic (non-string payload)".to_string()
    };
    // Signature: the panic message up to the first digit run, which keeps
    // different indices/ids of one root cause together.
    let sig_msg: String = msg.chars().take(80).collect();
    Outcome::Fail(Failure {
        signature: format!("panic:{}", sig_msg),
        message: format!("panicked: {msg}"),
        input: json!({"choices_len": choices.len()}),
    })
}

pub fn load_findings(id: &str) -> Vec<Finding> {
    // known_findings.json (all properties) plus, while a check is being
    // developed, known_findings.d/<ID>.json (same format, that property only)
    let mut out = vec![];
    let files = [
        Path::new(VERIF_ROOT).join("known_findings.json"),
        Path::new(VERIF_ROOT).join("known_findings.d").join(format!("{id}.json")),
    ];
    for p in files {
        let Ok(text) = std::fs::read_to_string(&p) else {
            continue;
        };
        let all: Vec<Finding> = match serde_json::from_str(&text) {
            Ok(v) => v,
            Err(e) => {
                eprintln!("{} does not parse: {e}", p.display());
                std::process::exit(2);
            }
        };
        out.extend(all.into_iter().filter(|f| f.property == id));
    }
    out
}

/// Install a panic hook that stays silent (cases that panic are reported
/// through their Outcome, not through stderr noise) unless VERIF_PANIC_TRACE.
pub fn quiet_panics() {
    if std::env::var("VERIF_PANIC_TRACE").is_err() {
        std::panic::set_hook(Box::new(|_| {}));
    }
}
