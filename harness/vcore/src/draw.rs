//! Choice-sequence source of randomness (à la Hypothesis).
//!
//! Every structured generator in the harness is a pure function of a
//! `Vec<u32>`.  proptest generates and shrinks the vector; an exhausted
//! sequence yields 0, which every generator maps to its simplest alternative,
//! so shrinking the vector shrinks the generated program / history.

#[derive(Clone, Debug)]
pub struct Draw {
    choices: Vec<u32>,
    pos: usize,
}

impl Draw {
    pub fn new(choices: Vec<u32>) -> Self {
        Draw { choices, pos: 0 }
    }

    /// Next raw choice, 0 when the sequence is exhausted.
    pub fn raw(&mut self) -> u32 {
        let v = self.choices.get(self.pos).copied().unwrap_or(0);
        self.pos += 1;
        v
    }

    /// Uniform in `[0, n)`; monotone in the raw choice so that lowering the
    /// raw value lowers the result (needed for shrinking to make progress).
    pub fn below(&mut self, n: u32) -> u32 {
        if n <= 1 {
            // still consume nothing: a forced choice is not a choice
            return 0;
        }
        ((self.raw() as u64 * n as u64) >> 32) as u32
    }

    pub fn below_usize(&mut self, n: usize) -> usize {
        self.below(n.min(u32::MAX as usize) as u32) as usize
    }

    /// Uniform in `[lo, hi]` (inclusive); shrinks towards `lo`.
    pub fn range(&mut self, lo: i64, hi: i64) -> i64 {
        assert!(lo <= hi);
        let span = (hi - lo) as u64 + 1;
        if span > u32::MAX as u64 {
            let v = self.u64() % span;
            return lo + v as i64;
        }
        lo + self.below(span as u32) as i64
    }

    pub fn usize_in(&mut self, lo: usize, hi: usize) -> usize {
        self.range(lo as i64, hi as i64) as usize
    }

    pub fn bool(&mut self) -> bool {
        self.below(2) == 1
    }

    /// True with probability `num/den`; the exhausted sequence gives `false`.
    pub fn chance(&mut self, num: u32, den: u32) -> bool {
        if num == 0 {
            return false;
        }
        if num >= den {
            return true;
        }
        // high raw values => true, so that shrinking towards 0 turns it off
        self.below(den) >= den - num
    }

    pub fn pick<'a, T>(&mut self, xs: &'a [T]) -> &'a T {
        assert!(!xs.is_empty());
        &xs[self.below_usize(xs.len())]
    }

    /// Index drawn according to `weights` (first entry is the simplest).
    pub fn weighted(&mut self, weights: &[u32]) -> usize {
        let total: u32 = weights.iter().sum();
        assert!(total > 0);
        let mut r = self.below(total);
        for (i, w) in weights.iter().enumerate() {
            if r < *w {
                return i;
            }
            r -= *w;
        }
        weights.len() - 1
    }

    pub fn u64(&mut self) -> u64 {
        let hi = self.raw() as u64;
        let lo = self.raw() as u64;
        (hi << 32) | lo
    }

    /// `n` random bits as little-endian u64 words (top word masked).
    pub fn bits(&mut self, n: usize) -> Vec<u64> {
        let words = n.div_ceil(64).max(1);
        let mut v: Vec<u64> = (0..words).map(|_| self.u64()).collect();
        let rem = n % 64;
        if rem != 0 {
            let last = v.len() - 1;
            v[last] &= (1u64 << rem) - 1;
        }
        if n == 0 {
            v[0] = 0;
        }
        v
    }

    /// "Corner-biased" bits: 0, all ones, MSB only, LSB only, alternating,
    /// random — the values where width/sign handling usually breaks.
    pub fn corner_bits(&mut self, n: usize) -> Vec<u64> {
        let words = n.div_ceil(64).max(1);
        let mask_top = |v: &mut Vec<u64>| {
            let rem = n % 64;
            if rem != 0 {
                let last = v.len() - 1;
                v[last] &= (1u64 << rem) - 1;
            }
        };
        let kind = self.weighted(&[2, 2, 2, 1, 1, 1, 6]);
        let mut v = match kind {
            0 => vec![0u64; words],
            1 => vec![u64::MAX; words],
            2 => {
                let mut v = vec![0u64; words];
                if n > 0 {
                    v[(n - 1) / 64] |= 1u64 << ((n - 1) % 64);
                }
                v
            }
            3 => {
                let mut v = vec![0u64; words];
                v[0] = 1;
                v
            }
            4 => vec![0xAAAA_AAAA_AAAA_AAAAu64; words],
            5 => {
                // all ones except MSB (max positive signed)
                let mut v = vec![u64::MAX; words];
                if n > 0 {
                    v[(n - 1) / 64] &= !(1u64 << ((n - 1) % 64));
                }
                v
            }
            _ => return self.bits(n),
        };
        mask_top(&mut v);
        v
    }

    pub fn used(&self) -> usize {
        self.pos
    }

    pub fn exhausted(&self) -> bool {
        self.pos >= self.choices.len()
    }

    pub fn choices(&self) -> &[u32] {
        &self.choices
    }

    /// Identifier made of lowercase letters, length in `[1, max]`.
    pub fn ident(&mut self, max: usize) -> String {
        let n = self.usize_in(1, max.max(1));
        (0..n)
            .map(|_| (b'a' + self.below(26) as u8) as char)
            .collect()
    }
}
