pub mod draw;
pub mod run;
pub mod util;

pub use draw::Draw;
pub use run::{CaseCfg, CaseInfo, Ctx, Failure, Finding, Outcome, Tier, hash_str, hash64, quiet_panics};
pub use serde_json::{Value, json};
