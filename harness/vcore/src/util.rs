//! Small helpers shared by the checks: scratch directories, running external
//! commands with a timeout, file trees.

use std::collections::BTreeMap;
use std::io::Read;
use std::path::{Path, PathBuf};
use std::process::{Command, Stdio};
use std::time::{Duration, Instant};

pub const REPO: &str = "/repo";
pub const WORK: &str = "/verif/.work";

/// The repository under test: /repo, or `$VERIF_REPO` for mutation runs on a
/// scratch worktree (the harness must then also have been *built* against it).
pub fn repo_root() -> String {
    std::env::var("VERIF_REPO").unwrap_or_else(|_| REPO.to_string())
}

/// Scratch root: /verif/.work, or `$VERIF_OUT/.work`.
pub fn work_root() -> String {
    match std::env::var("VERIF_OUT") {
        Ok(o) => format!("{o}/.work"),
        Err(_) => WORK.to_string(),
    }
}

/// Fresh scratch directory under /verif/.work (never /tmp); removed on drop.
pub struct Scratch {
    pub path: PathBuf,
    keep: bool,
}

impl Scratch {
    pub fn new(tag: &str) -> Scratch {
        use std::sync::atomic::{AtomicU64, Ordering};
        static N: AtomicU64 = AtomicU64::new(0);
        let n = N.fetch_add(1, Ordering::Relaxed);
        let p = PathBuf::from(format!("{}/{}-{}-{}", work_root(), tag, std::process::id(), n));
        let _ = std::fs::remove_dir_all(&p);
        std::fs::create_dir_all(&p).expect("create scratch");
        Scratch { path: p, keep: false }
    }
    pub fn keep(&mut self) {
        self.keep = true;
    }
    pub fn join(&self, rel: &str) -> PathBuf {
        self.path.join(rel)
    }
}

impl Drop for Scratch {
    fn drop(&mut self) {
        if !self.keep {
            let _ = std::fs::remove_dir_all(&self.path);
        }
    }
}

#[derive(Debug, Clone)]
pub struct CmdOut {
    /// None = killed by signal or timed out
    pub code: Option<i32>,
    pub stdout: String,
    pub stderr: String,
    pub timed_out: bool,
    pub signal: Option<i32>,
}

/// Run a command to completion with a timeout; stdin closed.
pub fn run_cmd(
    program: &str,
    args: &[&str],
    cwd: &Path,
    env: &[(&str, &str)],
    timeout: Duration,
) -> CmdOut {
    let mut c = Command::new(program);
    c.args(args)
        .current_dir(cwd)
        .stdin(Stdio::null())
        .stdout(Stdio::piped())
        .stderr(Stdio::piped());
    for (k, v) in env {
        c.env(k, v);
    }
    let mut child = c.spawn().unwrap_or_else(|e| panic!("spawn {program}: {e}"));
    let mut so = child.stdout.take().unwrap();
    let mut se = child.stderr.take().unwrap();
    let t1 = std::thread::spawn(move || {
        let mut b = Vec::new();
        let _ = so.read_to_end(&mut b);
        String::from_utf8_lossy(&b).into_owned()
    });
    let t2 = std::thread::spawn(move || {
        let mut b = Vec::new();
        let _ = se.read_to_end(&mut b);
        String::from_utf8_lossy(&b).into_owned()
    });
    let start = Instant::now();
    let mut timed_out = false;
    let status = loop {
        match child.try_wait() {
            Ok(Some(s)) => break Some(s),
            Ok(None) => {
                if start.elapsed() > timeout {
                    let _ = child.kill();
                    let _ = child.wait();
                    timed_out = true;
                    break None;
                }
                std::thread::sleep(Duration::from_millis(5));
            }
            Err(_) => break None,
        }
    };
    let stdout = t1.join().unwrap_or_default();
    let stderr = t2.join().unwrap_or_default();
    #[cfg(unix)]
    let signal = {
        use std::os::unix::process::ExitStatusExt;
        status.and_then(|s| s.signal())
    };
    #[cfg(not(unix))]
    let signal = None;
    CmdOut {
        code: status.and_then(|s| s.code()),
        stdout,
        stderr,
        timed_out,
        signal,
    }
}

/// All regular files under `root` (relative path → bytes), sorted.
pub fn read_tree(root: &Path) -> BTreeMap<String, Vec<u8>> {
    fn walk(base: &Path, dir: &Path, out: &mut BTreeMap<String, Vec<u8>>) {
        let Ok(rd) = std::fs::read_dir(dir) else {
            return;
        };
        let mut ents: Vec<_> = rd.flatten().collect();
        ents.sort_by_key(|e| e.file_name());
        for e in ents {
            let p = e.path();
            let Ok(ft) = e.file_type() else { continue };
            if ft.is_dir() {
                walk(base, &p, out);
            } else if ft.is_file() {
                let rel = p.strip_prefix(base).unwrap().to_string_lossy().into_owned();
                out.insert(rel, std::fs::read(&p).unwrap_or_default());
            }
        }
    }
    let mut out = BTreeMap::new();
    walk(root, root, &mut out);
    out
}

/// `cp -a src dst` (keeps mtimes), dst must not exist.
pub fn copy_tree(src: &Path, dst: &Path) {
    let st = Command::new("cp")
        .arg("-a")
        .arg(src)
        .arg(dst)
        .status()
        .expect("cp");
    assert!(st.success(), "cp -a {src:?} {dst:?}");
}

pub fn write_file(p: &Path, text: &str) {
    if let Some(d) = p.parent() {
        std::fs::create_dir_all(d).expect("mkdir");
    }
    std::fs::write(p, text).expect("write");
}

/// Every `*.veryl` file of the repository's corpus: testcases/veryl and the std sources.
pub fn corpus_files() -> Vec<PathBuf> {
    let mut v = Vec::new();
    for root in ["testcases/veryl", "crates/std/veryl/src"] {
        let base = Path::new(&repo_root()).join(root);
        for (rel, _) in read_tree(&base) {
            if rel.ends_with(".veryl") {
                v.push(base.join(rel));
            }
        }
    }
    v.sort();
    v
}

/// Path of the real `veryl` / `veryl-ls` binary.  They are harness packages
/// (`vcli`, `vls`) whose bin targets are /repo's own `main.rs` files, so they
/// sit next to the running check binary in the same target directory.
pub fn repo_bin(name: &str) -> PathBuf {
    if let Ok(d) = std::env::var("VERIF_CLI_BIN_DIR") {
        return PathBuf::from(d).join(name);
    }
    let exe = std::env::current_exe().expect("current_exe");
    exe.parent().expect("exe dir").join(name)
}
