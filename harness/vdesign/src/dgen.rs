//! Generator of well-typed, synthesizable Veryl designs from a `vcore::Draw`.
//!
//! Type discipline respected (DESIGN.md §6a): 1-bit operands for `&& || !`,
//! signed left operand for `<<< >>>`, unsigned in-range constant selects, one
//! driver per bit, every `always_comb` target assigned first on every path,
//! an item only reads what earlier items / flip-flops / inputs define (no
//! combinational loops), every flip-flop reset.
//!
//! Exhausted choice sequences give the simplest alternative everywhere, so
//! shrinking the choice vector shrinks the design.

use crate::eval::{self, mask, ty_of};
use crate::ir::*;
use num_bigint::BigUint;
use num_traits::Zero;
use std::collections::{BTreeMap, BTreeSet};
use vcore::Draw;

/// Feature switches and size bounds.  `GenCfg::default()` enables
/// everything that is implemented; the constructors below give the common
/// sub-dialects.
#[derive(Clone, Debug)]
pub struct GenCfg {
    /// largest port / variable / literal width (≥ 1)
    pub max_width: u32,
    pub max_inputs: usize,
    pub max_outputs: usize,
    /// maximal operator nesting of one expression
    pub expr_depth: u32,
    /// number of module items (besides the output assigns)
    pub max_items: usize,

    // ---- expression features
    pub signed: bool,
    pub arith: bool,
    pub mul: bool,
    pub div: bool,
    pub pow: bool,
    pub shifts: bool,
    pub compare: bool,
    pub logical: bool,
    pub reduction: bool,
    pub if_expr: bool,
    pub case_expr: bool,
    pub switch_expr: bool,
    pub concat: bool,
    pub selects: bool,
    /// selects with a run-time index (`a[i]`, `a[i+:w]`, `a[i-:w]`, `a[i step w]`)
    pub dyn_selects: bool,
    pub casts: bool,
    pub sign_casts: bool,
    pub inside: bool,
    pub msb_lsb: bool,
    /// plain decimal literals (`12`: 32-bit signed)
    pub unsized_lits: bool,
    /// `'0` / `'1`
    pub fill_lits: bool,

    // ---- statement / structure features
    pub lets: bool,
    pub always_comb: bool,
    pub if_stmt: bool,
    pub case_stmt: bool,
    pub switch_stmt: bool,
    pub for_stmt: bool,
    pub op_assign: bool,
    pub partial_assign: bool,
    pub always_ff: bool,
    pub functions: bool,
    pub structs: bool,
    pub enums: bool,
    pub arrays: bool,
    pub consts: bool,
    pub params: bool,
    pub insts: bool,
    pub display: bool,
    /// `bit` / `u8`… typed variables next to `logic`
    pub two_state_types: bool,

    /// probability (per mille) that a divisor / dynamic index is left
    /// unguarded, so that the reference may produce "unknown" (X in SV)
    pub unguarded_per_mille: u32,
    /// allow shapes that only produce analyzer *warnings* (unsigned `>>>`,
    /// multi-bit logical operands)
    pub allow_warnings: bool,
    /// root-cause keys of known findings whose trigger shapes are avoided
    pub avoid: BTreeSet<String>,
    /// per-mille rate at which a shape listed in `avoid` is produced anyway
    /// (keeps a known finding visible without stopping the search)
    pub known_per_mille: u32,
    /// NON-DEFAULT (0 = off, consumes no choices): per-mille rate at which
    /// `gen_expr_design` emits a *wrap shape* instead of a free expression —
    /// nested width-growing operators over narrow unsigned operands whose
    /// intermediate wraps at the context width and is compared / shifted /
    /// reduced inline (`((a + b) - c) == d`)
    pub wrap_per_mille: u32,
}

impl Default for GenCfg {
    fn default() -> Self {
        GenCfg {
            max_width: 300,
            max_inputs: 6,
            max_outputs: 5,
            expr_depth: 3,
            max_items: 8,
            signed: true,
            arith: true,
            mul: true,
            div: true,
            pow: true,
            shifts: true,
            compare: true,
            logical: true,
            reduction: true,
            if_expr: true,
            case_expr: true,
            switch_expr: true,
            concat: true,
            selects: true,
            dyn_selects: true,
            casts: true,
            sign_casts: true,
            inside: true,
            msb_lsb: true,
            unsized_lits: true,
            fill_lits: true,
            lets: true,
            always_comb: true,
            if_stmt: true,
            case_stmt: true,
            switch_stmt: true,
            for_stmt: true,
            op_assign: true,
            partial_assign: true,
            always_ff: true,
            functions: true,
            structs: true,
            enums: true,
            arrays: true,
            consts: true,
            params: true,
            insts: true,
            display: false,
            two_state_types: true,
            unguarded_per_mille: 100,
            allow_warnings: false,
            avoid: crate::findings::FINDINGS
                .iter()
                .filter(|f| !crate::findings::NON_DEFAULT.contains(&f.key))
                .map(|f| f.key.to_string())
                .chain(crate::findings::MODULE_LEVEL_FINDINGS.iter().map(|f| f.0.to_string()))
                .chain(crate::findings::ASSIGN_FINDINGS.iter().map(|f| f.0.to_string()))
                .collect(),
            known_per_mille: 0,
            wrap_per_mille: 0,
        }
    }
}

impl GenCfg {
    /// Only `assign out = expr;` over input ports (C18).
    pub fn exprs_only() -> GenCfg {
        GenCfg {
            lets: false,
            always_comb: false,
            always_ff: false,
            functions: false,
            structs: false,
            enums: false,
            arrays: false,
            consts: false,
            params: false,
            insts: false,
            max_items: 0,
            ..Default::default()
        }
    }
    /// No flip-flops, no instances.
    pub fn comb_only() -> GenCfg {
        GenCfg {
            always_ff: false,
            insts: false,
            ..Default::default()
        }
    }
    /// Do not avoid the known finding `key`.
    pub fn allow(mut self, key: &str) -> GenCfg {
        self.avoid.remove(key);
        self
    }
    /// Avoid no known finding at all.
    pub fn allow_all(mut self) -> GenCfg {
        self.avoid.clear();
        self
    }
}

/// A generated design plus what the generator knows about it.
#[derive(Clone, Debug)]
pub struct Generated {
    pub design: Design,
    /// feature / shape labels (for the class histogram)
    pub classes: BTreeSet<String>,
    /// shapes the generator drew and replaced because a known finding or an
    /// LRM-latitude point would be hit: key → count
    pub excluded: BTreeMap<String, u64>,
}

/// What the current expression may read.
#[derive(Clone, Debug, Default)]
struct Scope {
    /// readable decls
    vars: Vec<DeclId>,
    /// only constants may be read (param / const initialisers, case items)
    const_only: bool,
    /// callable functions (indices) — empty inside function bodies
    funcs: Vec<usize>,
}

struct MGen<'c> {
    cfg: &'c GenCfg,
    m: Module,
    classes: BTreeSet<String>,
    excluded: BTreeMap<String, u64>,
    names: u32,
    /// loop variable → exclusive upper bound of its values
    loop_ranges: BTreeMap<DeclId, u32>,
    /// unsigned decls that are only ever read as `$signed(v)` (a variable
    /// read both plain and under `$signed` in one module hits the known
    /// finding `signed-cast-shares-signedness`)
    cast_only: BTreeSet<DeclId>,
}

pub fn width_class(w: u32) -> &'static str {
    match w {
        0..=1 => "w1",
        2..=8 => "w2_8",
        9..=32 => "w9_32",
        33..=64 => "w33_64",
        65..=128 => "w65_128",
        _ => "w129p",
    }
}

const BOUNDARY_WIDTHS: &[u32] = &[8, 16, 31, 32, 33, 63, 64, 65, 127, 128, 129, 191, 192, 193, 255, 256, 257, 300];

/// Width in `1..=max`, boundary widths and the wide classes over-weighted.
pub fn gen_width(d: &mut Draw, max: u32) -> u32 {
    let max = max.max(1);
    let w = match d.weighted(&[3, 2, 2, 2, 3, 3, 3]) {
        0 => d.range(2, 8) as u32,
        1 => 1,
        2 => d.range(9, 32) as u32,
        3 => d.range(33, 64) as u32,
        4 => d.range(65, 128) as u32,
        5 => d.range(129, max.max(129) as i64) as u32,
        _ => *d.pick(BOUNDARY_WIDTHS),
    };
    w.clamp(1, max)
}

fn big_from_words(ws: &[u64]) -> BigUint {
    let mut v = BigUint::zero();
    for (i, w) in ws.iter().enumerate() {
        v |= BigUint::from(*w) << (64 * i);
    }
    v
}

/// Corner-biased value of `w` bits.
pub fn gen_value(d: &mut Draw, w: u32) -> BigUint {
    big_from_words(&d.corner_bits(w as usize)) & mask(w)
}

impl<'c> MGen<'c> {
    fn new(cfg: &'c GenCfg, name: &str) -> MGen<'c> {
        MGen {
            cfg,
            m: Module {
                name: name.to_string(),
                ..Default::default()
            },
            classes: BTreeSet::new(),
            excluded: BTreeMap::new(),
            names: 0,
            loop_ranges: BTreeMap::new(),
            cast_only: BTreeSet::new(),
        }
    }

    fn class(&mut self, c: &str) {
        if !self.classes.contains(c) {
            self.classes.insert(c.to_string());
        }
    }

    fn exclude(&mut self, key: &str) {
        *self.excluded.entry(key.to_string()).or_insert(0) += 1;
    }

    fn fresh(&mut self, prefix: &str) -> String {
        self.names += 1;
        format!("{prefix}{}", self.names)
    }

    fn add_decl(&mut self, name: String, kind: DeclKind, ty: Ty, syntax: TySyntax) -> DeclId {
        self.m.decls.push(Decl {
            name,
            kind,
            ty,
            syntax,
            array: None,
            value: None,
            init: None,
        });
        self.m.decls.len() - 1
    }

    /// Reserve an unsigned scalar for `$signed(..)` use now and then.
    fn maybe_cast_only(&mut self, d: &mut Draw, id: DeclId) {
        let dd = &self.m.decls[id];
        let plain = dd.array.is_none() && matches!(dd.syntax, TySyntax::Logic | TySyntax::Bit | TySyntax::Fixed);
        if self.cfg.signed && self.cfg.sign_casts && plain && !dd.ty.signed && self.cfg.avoid.contains("signed-cast-shares-signedness") && d.chance(1, 5) {
            self.cast_only.insert(id);
        }
    }

    fn gen_ty(&mut self, d: &mut Draw) -> Ty {
        let w = gen_width(d, self.cfg.max_width);
        let signed = self.cfg.signed && d.chance(1, 3);
        Ty::new(w, signed)
    }

    fn gen_syntax(&mut self, d: &mut Draw, ty: Ty) -> TySyntax {
        if self.cfg.two_state_types && d.chance(1, 6) {
            if matches!(ty.w, 8 | 16 | 32 | 64) && d.bool() {
                return TySyntax::Fixed;
            }
            return TySyntax::Bit;
        }
        TySyntax::Logic
    }

    // ------------------------------------------------------------ literals

    fn gen_lit(&mut self, d: &mut Draw, hint: Option<Ty>, want_signed: Option<bool>) -> Expr {
        if self.cfg.unsized_lits && want_signed != Some(false) && d.chance(1, 8) {
            self.class("lit:unsized");
            return Expr::Lit(Lit::Dec(*d.pick(&[1u32, 0, 2, 3, 7, 10, 31, 32, 63, 64, 65, 255, 1000, 0x7fff_ffff])));
        }
        let w = match hint {
            Some(t) if d.chance(3, 4) => t.w,
            _ => gen_width(d, self.cfg.max_width),
        };
        let signed = match want_signed {
            Some(s) => s,
            None => self.cfg.signed && hint.map(|t| t.signed).unwrap_or(false) && d.chance(3, 4),
        };
        let val = gen_value(d, w);
        let base = match d.weighted(&[6, 2, 1, 1]) {
            0 => Base::Hex,
            1 => Base::Dec,
            2 if w <= 64 => Base::Bin,
            3 => Base::Oct,
            _ => Base::Hex,
        };
        Expr::Lit(Lit::Sized { w, signed, base, val })
    }

    /// unsigned literal of exactly this type
    fn lit_of(&self, t: Ty, v: u64) -> Expr {
        Expr::lit(t, BigUint::from(v) & mask(t.w))
    }

    // --------------------------------------------------------------- leaves

    /// A small unsigned index expression whose value is < `limit` whenever
    /// `guarded`; falls back to a constant.
    fn gen_index(&mut self, d: &mut Draw, sc: &Scope, limit: u32, guarded: bool) -> Expr {
        let limit = limit.max(1);
        // floor(log2(limit)): every value of that many bits is < limit
        let bits_ok = 31 - limit.leading_zeros();
        // candidates: (decl, width); constants and loop variables only when their values fit
        let mut cands: Vec<(DeclId, u32)> = vec![];
        for &v in &sc.vars {
            let dd = &self.m.decls[v];
            if self.cast_only.contains(&v) {
                continue;
            }
            if dd.array.is_some() || matches!(dd.syntax, TySyntax::Struct(_) | TySyntax::Enum(_) | TySyntax::LogicOf(_)) || (dd.ty.signed && dd.kind != DeclKind::LoopVar) {
                continue;
            }
            match dd.kind {
                DeclKind::LoopVar => {
                    if self.loop_ranges.get(&v).copied().unwrap_or(u32::MAX) <= limit {
                        cands.push((v, 0));
                    }
                }
                // (parameters are left out: the module is also elaborated
                // with the declared default, which may be far out of range —
                // an exponent of 2^32 keeps the analyzer busy for minutes)
                DeclKind::Param => {}
                DeclKind::Const => {
                    let on_param = {
                        fn dep(m: &Module, e: &Expr) -> bool {
                            let mut found = false;
                            crate::findings::walk(m, e, 1, &mut |m, n| {
                                if let Expr::Ref(r) = n.e {
                                    let d = &m.decls[r.decl];
                                    if d.kind == DeclKind::Param || (d.kind == DeclKind::Const && d.init.as_ref().map(|i| dep(m, i)).unwrap_or(false)) {
                                        found = true;
                                    }
                                }
                            });
                            found
                        }
                        dd.init.as_ref().map(|i| dep(&self.m, i)).unwrap_or(false)
                    };
                    if !on_param && dd.value.as_ref().map(|x| *x < BigUint::from(limit)).unwrap_or(false) {
                        cands.push((v, 0));
                    }
                }
                _ => {
                    if !sc.const_only {
                        cands.push((v, dd.ty.w));
                    }
                }
            }
        }
        if !cands.is_empty() && !d.chance(1, 4) {
            let (v, w) = cands[d.below_usize(cands.len())];
            if w == 0 {
                return Expr::var(v);
            }
            if !guarded {
                if w <= 16 {
                    return Expr::var(v);
                }
            } else if bits_ok >= 1 {
                if w <= bits_ok {
                    return Expr::var(v);
                }
                if self.cfg.selects {
                    // low bits of a wider variable
                    let lo = d.below(w - bits_ok + 1);
                    let sel = if bits_ok == 1 { Sel::BitC(CIdx::Num(lo)) } else { Sel::Range(CIdx::Num(lo + bits_ok - 1), CIdx::Num(lo)) };
                    return Expr::Ref(Ref {
                        decl: v,
                        idx: None,
                        field: None,
                        sel,
                    });
                }
            }
        }
        Expr::Lit(Lit::Dec(d.below(limit)))
    }

    fn readable<'a>(&'a self, sc: &'a Scope) -> Vec<DeclId> {
        sc.vars
            .iter()
            .copied()
            .filter(|&v| {
                let k = &self.m.decls[v].kind;
                !self.cast_only.contains(&v) && (!sc.const_only || matches!(k, DeclKind::Const | DeclKind::Param | DeclKind::LoopVar))
            })
            .collect()
    }

    /// A reference to (part of) a readable decl.
    fn gen_ref(&mut self, d: &mut Draw, sc: &Scope) -> Option<Expr> {
        let vars = self.readable(sc);
        if vars.is_empty() {
            return None;
        }
        let v = vars[d.below_usize(vars.len())];
        let dd = self.m.decls[v].clone();
        let mut r = Ref::whole(v);
        if let Some(n) = dd.array {
            let guarded = !d.chance(self.cfg.unguarded_per_mille, 1000);
            let idx = self.gen_index(d, sc, n, guarded);
            r.idx = Some(Box::new(idx));
            self.class("ref:array");
        }
        let mut bw = dd.ty.w;
        if let TySyntax::Struct(s) = dd.syntax {
            if d.chance(3, 4) {
                let f = d.below_usize(self.m.structs[s].fields.len());
                r.field = Some(f);
                bw = self.m.structs[s].fields[f].1.w;
                self.class("ref:field");
            }
        }
        let param_width = matches!(dd.syntax, TySyntax::LogicOf(_));
        let is_const = matches!(dd.kind, DeclKind::Const | DeclKind::Param | DeclKind::LoopVar);
        if self.cfg.selects && !is_const && d.chance(1, 3) {
            // kinds: constant bit, constant range, msb/lsb forms, dynamic forms
            let kind = if param_width {
                if self.cfg.msb_lsb && bw > 1 { 2 } else { 9 }
            } else {
                d.weighted(&[3, 3, if self.cfg.msb_lsb && bw > 1 { 2 } else { 0 }, if self.cfg.dyn_selects && !sc.const_only { 4 } else { 0 }])
            };
            match kind {
                0 => {
                    r.sel = Sel::BitC(CIdx::Num(d.below(bw)));
                    self.class("sel:bit");
                }
                1 => {
                    let lo = d.below(bw);
                    let hi = lo + d.below(bw - lo);
                    r.sel = Sel::Range(CIdx::Num(hi), CIdx::Num(lo));
                    self.class("sel:range");
                }
                2 => {
                    self.class("sel:msb_lsb");
                    r.sel = match d.below(if param_width { 2 } else { 4 }) {
                        0 => Sel::BitC(CIdx::Msb(0)),
                        1 => Sel::BitC(CIdx::Lsb(0)),
                        2 => {
                            let lo = d.below(bw);
                            Sel::Range(CIdx::Msb(0), CIdx::Num(lo))
                        }
                        _ => {
                            let k = d.below(bw);
                            Sel::Range(CIdx::Msb(k), CIdx::Lsb(0))
                        }
                    };
                }
                3 => {
                    let guarded = !d.chance(self.cfg.unguarded_per_mille, 1000);
                    match d.below(4) {
                        0 => {
                            let i = self.gen_index(d, sc, bw, guarded);
                            r.sel = Sel::BitD(Box::new(i));
                            self.class("sel:dyn_bit");
                        }
                        1 => {
                            let sw = 1 + d.below(bw.min(64));
                            let i = self.gen_index(d, sc, bw - sw + 1, guarded);
                            r.sel = Sel::PlusC(Box::new(i), sw);
                            self.class("sel:plus");
                        }
                        2 => {
                            // [i-:w] : i in [w-1, bw)
                            let sw = 1 + d.below(bw.min(64));
                            // index = (w-1) + j, j < bw-sw+1 ; expressed as literal-offset add when j is dynamic
                            let j = self.gen_index(d, sc, bw - sw + 1, guarded);
                            let i = match j {
                                Expr::Lit(Lit::Dec(n)) => Expr::Lit(Lit::Dec(n + sw - 1)),
                                e => {
                                    if sw == 1 {
                                        e
                                    } else {
                                        // widen so that the addition cannot wrap
                                        Expr::bin(BinOp::Add, Expr::Concat(vec![(Expr::lit_u(1, BigUint::zero()), None), (e, None)]), Expr::Lit(Lit::Dec(sw - 1)))
                                    }
                                }
                            };
                            r.sel = Sel::MinusC(Box::new(i), sw);
                            self.class("sel:minus");
                        }
                        _ => {
                            let sw = 1 + d.below(bw.min(32));
                            let n = bw / sw;
                            let i = self.gen_index(d, sc, n.max(1), guarded);
                            r.sel = Sel::Step(Box::new(i), sw);
                            self.class("sel:step");
                        }
                    }
                }
                _ => {}
            }
        }
        Some(Expr::Ref(r))
    }

    /// `true` when the shape guarded by the known-finding key `key` has to
    /// be replaced (counted in `excluded`).
    fn avoid(&mut self, d: &mut Draw, key: &str) -> bool {
        if !self.cfg.avoid.contains(key) {
            return false;
        }
        if self.cfg.known_per_mille > 0 && d.chance(self.cfg.known_per_mille, 1000) {
            self.class(&format!("known:{key}"));
            return false;
        }
        self.exclude(key);
        true
    }

    /// `$signed(e)`
    fn mk_signed(&mut self, _d: &mut Draw, e: Expr) -> Expr {
        self.class("cast:$signed");
        Expr::Signed(Box::new(e))
    }

    fn force_sign(&mut self, d: &mut Draw, e: Expr, signed: bool) -> Expr {
        let t = ty_of(&self.m, &e);
        if !self.cfg.sign_casts && t.signed != signed {
            // cast-free dialect (non-default): leave an operand unsigned where
            // signed was wanted; `{e}` is the cast-free `$unsigned(e)`
            // (a concatenation is unsigned and its operand self-determined)
            if signed {
                return e;
            }
            let e = match e {
                Expr::Lit(Lit::Dec(n)) => Expr::lit_u(32, BigUint::from(n)),
                e => e,
            };
            return Expr::Concat(vec![(e, None)]);
        }
        if t.signed == signed {
            e
        } else if signed {
            self.mk_signed(d, e)
        } else {
            self.class("cast:$unsigned");
            Expr::Unsigned(Box::new(e))
        }
    }

    fn gen_leaf(&mut self, d: &mut Draw, sc: &Scope, hint: Option<Ty>, sg: bool) -> Expr {
        if sg {
            // signed leaves: signed literal, signed variable, $signed(whole unsigned variable)
            let shares = self.cfg.avoid.contains("signed-cast-shares-signedness");
            let vars: Vec<DeclId> = sc
                .vars
                .iter()
                .copied()
                .filter(|&v| {
                    let dd = &self.m.decls[v];
                    let konst = matches!(dd.kind, DeclKind::Const | DeclKind::Param | DeclKind::LoopVar);
                    dd.array.is_none()
                        && !matches!(dd.syntax, TySyntax::Struct(_) | TySyntax::Enum(_))
                        && (!sc.const_only || konst)
                        && (dd.ty.signed || (self.cfg.sign_casts && !konst && (!shares || self.cast_only.contains(&v))))
                })
                .collect();
            if vars.is_empty() || d.chance(1, 4) {
                return self.gen_lit(d, hint, Some(true));
            }
            let v = vars[d.below_usize(vars.len())];
            let e = Expr::var(v);
            return self.force_sign(d, e, true);
        }
        let e = if d.chance(1, 4) { None } else { self.gen_ref(d, sc) };
        match e {
            Some(e) => e,
            None => self.gen_lit(d, hint, None),
        }
    }

    /// 1-bit expression (operand of `&& || !`, conditions)
    fn gen_bool(&mut self, d: &mut Draw, sc: &Scope, depth: u32) -> Expr {
        let e = self.gen_expr(d, sc, depth, None, false);
        self.to_bool(d, e)
    }

    fn to_bool(&mut self, d: &mut Draw, e: Expr) -> Expr {
        let t = ty_of(&self.m, &e);
        if t.w == 1 && !matches!(e, Expr::Lit(Lit::AllOne | Lit::AllZero)) {
            return e;
        }
        if self.cfg.allow_warnings && d.chance(1, 8) {
            return e;
        }
        match d.below(3) {
            0 if self.cfg.reduction => Expr::un(UnOp::RedOr, e),
            1 if self.cfg.compare => {
                let z = Expr::lit(t, BigUint::zero());
                Expr::bin(BinOp::Ne, e, z)
            }
            _ => {
                if self.cfg.reduction {
                    Expr::un(*d.pick(&[UnOp::RedOr, UnOp::RedAnd, UnOp::RedXor, UnOp::RedNor]), e)
                } else {
                    Expr::bin(BinOp::Ne, e, Expr::lit(t, BigUint::zero()))
                }
            }
        }
    }

    /// Shift amount: mostly small.
    fn gen_shift_amount(&mut self, d: &mut Draw, sc: &Scope, lw: u32, depth: u32) -> Expr {
        match d.weighted(&[4, 4, 1]) {
            0 => Expr::Lit(Lit::Dec(d.below(lw + 2))),
            1 => {
                // a narrow unsigned thing
                let bits = 32 - lw.leading_zeros();
                let e = self.gen_index(d, sc, 1 << bits.min(10), true);
                e
            }
            _ => {
                let e = self.gen_expr(d, sc, depth.min(1), None, false);
                e
            }
        }
    }

    /// Items of one case arm / `inside` list: values and ranges of type `t`
    /// that do not overlap anything in `used` (overlapping arms hit the known
    /// finding `case-expression-priority`); may be empty when the value space
    /// is exhausted.
    fn case_items(&mut self, d: &mut Draw, t: Ty, used: &mut Vec<(BigUint, BigUint)>) -> Vec<RangeItem> {
        let n = 1 + d.below(2);
        let mut items = vec![];
        let allow_overlap = !self.cfg.avoid.contains("case-expression-priority");
        let lim = if t.w >= 16 { 1u64 << 16 } else { 1u64 << t.w };
        for _ in 0..n {
            for _try in 0..6 {
                let small = |d: &mut Draw| d.below(lim.min(40) as u32) as u64;
                let (lo, hi, kind) = match d.weighted(&[5, 1, 1]) {
                    0 => {
                        let v = if d.chance(3, 4) { BigUint::from(small(d)) } else { gen_value(d, t.w) };
                        (v.clone(), v, 0)
                    }
                    k => {
                        let a = small(d);
                        let b = (a + d.below(4) as u64).min(lim - 1);
                        (BigUint::from(a), BigUint::from(b.max(a)), k)
                    }
                };
                if !allow_overlap && used.iter().any(|(l, h)| !(hi < *l || lo > *h)) {
                    continue;
                }
                used.push((lo.clone(), hi.clone()));
                match kind {
                    0 => items.push(RangeItem::Val(Expr::lit(t, lo))),
                    1 if t.w < 64 || hi < mask(t.w) => {
                        // exclusive upper bound hi+1
                        let e = &hi + BigUint::from(1u32);
                        if e <= mask(t.w) {
                            items.push(RangeItem::Excl(Expr::lit(t, lo), Expr::lit(t, e)));
                        } else {
                            items.push(RangeItem::Incl(Expr::lit(t, lo), Expr::lit(t, hi)));
                        }
                        self.class("item:range");
                    }
                    _ => {
                        items.push(RangeItem::Incl(Expr::lit(t, lo), Expr::lit(t, hi)));
                        self.class("item:range");
                    }
                }
                break;
            }
        }
        items
    }

    /// Selector for case / inside: an unsigned expression (items are sized
    /// literals of its type, so every comparison is unsigned at one width).
    fn gen_selector(&mut self, d: &mut Draw, sc: &Scope, depth: u32) -> (Expr, Ty) {
        let e = self.gen_expr(d, sc, depth, None, false);
        let e = if matches!(e, Expr::Lit(Lit::AllOne | Lit::AllZero)) { Expr::lit_u(1, BigUint::zero()) } else { e };
        let e = self.force_sign(d, e, false);
        let t = ty_of(&self.m, &e);
        (e, t)
    }

    // ---------------------------------------------------------- expressions

    /// Expression over `sc`.  `sg` = every context-determined leaf is made
    /// signed, so that the whole expression is signed (§11.8.1).
    pub fn gen_expr(&mut self, d: &mut Draw, sc: &Scope, depth: u32, hint: Option<Ty>, sg: bool) -> Expr {
        if depth == 0 || d.chance(1, 6) {
            return self.gen_leaf(d, sc, hint, sg);
        }
        let c = self.cfg;
        let w = |b: bool, n: u32| if b { n } else { 0 };
        let has_funcs = !sc.funcs.is_empty();
        let weights = [
            1,                                   // 0 leaf
            w(c.arith, 6),                       // 1 + - & | ^ ~^
            w(c.mul, 2),                         // 2 *
            w(c.div, 2),                         // 3 / %
            w(c.pow, 1),                         // 4 **
            w(c.shifts, 3),                      // 5 shifts
            w(c.arith, 2),                       // 6 unary - ~ +
            w(c.compare && !sg, 3),              // 7 compare
            w(c.logical && !sg, 1),              // 8 && || !
            w(c.reduction && !sg, 1),            // 9 reductions
            w(c.if_expr, 2),                     // 10 if
            w(c.concat && !sg, 2),               // 11 concat
            w(c.casts, 1),                       // 12 as
            w(c.sign_casts, 1),                  // 13 $signed / $unsigned
            w(c.case_expr, 1),                   // 14 case
            w(c.switch_expr, 1),                 // 15 switch
            w(c.inside && !sg, 1),               // 16 inside
            w(has_funcs && !sc.const_only && !sg, 1), // 17 call
            w(c.fill_lits && !sg, 1),            // 18 op with '0 / '1
        ];
        let k = d.weighted(&weights);
        let e = match k {
            1 => {
                let op = *d.pick(&[BinOp::Add, BinOp::Sub, BinOp::And, BinOp::Or, BinOp::Xor, BinOp::Xnor]);
                let a = self.gen_expr(d, sc, depth - 1, hint, sg);
                let ta = ty_of(&self.m, &a);
                let b = self.gen_expr(d, sc, depth - 1, Some(ta), sg);
                self.class(&format!("op:{}", op.name()));
                Expr::bin(op, a, b)
            }
            2 => {
                let a = self.gen_expr(d, sc, depth - 1, hint, sg);
                let ta = ty_of(&self.m, &a);
                let b = self.gen_expr(d, sc, depth - 1, Some(ta), sg);
                self.class("op:mul");
                Expr::bin(BinOp::Mul, a, b)
            }
            3 => {
                let op = *d.pick(&[BinOp::Div, BinOp::Rem]);
                let a = self.gen_expr(d, sc, depth - 1, hint, sg);
                let ta = ty_of(&self.m, &a);
                let mut b = self.gen_expr(d, sc, depth - 1, Some(ta), sg);
                if matches!(b, Expr::Lit(Lit::AllOne | Lit::AllZero)) {
                    b = self.lit_of(ta, 3);
                }
                if !d.chance(c.unguarded_per_mille, 1000) {
                    // divisor | 1 (same type): never zero
                    let tb = ty_of(&self.m, &b);
                    b = Expr::bin(BinOp::Or, b, self.lit_of(tb, 1));
                    self.class("guard:div");
                }
                self.class(&format!("op:{}", op.name()));
                Expr::bin(op, a, b)
            }
            4 => {
                let a = self.gen_expr(d, sc, depth - 1, hint, sg);
                // exponent: narrow (≤ 6 bits) so that results are not all 0
                let b = match d.weighted(&[3, 3]) {
                    0 => Expr::Lit(Lit::Sized {
                        w: 3,
                        signed: false,
                        base: Base::Dec,
                        val: BigUint::from(d.below(6)),
                    }),
                    _ => self.gen_index(d, sc, 8, true),
                };
                self.class("op:pow");
                Expr::bin(BinOp::Pow, a, b)
            }
            5 => {
                let op = *d.pick(&[BinOp::Shl, BinOp::Shr, BinOp::AShr, BinOp::AShl]);
                let mut a = self.gen_expr(d, sc, depth - 1, hint, sg);
                if matches!(a, Expr::Lit(Lit::AllOne | Lit::AllZero)) {
                    a = self.gen_leaf(d, sc, hint, true);
                }
                if matches!(op, BinOp::AShr | BinOp::AShl) && !(c.allow_warnings && d.chance(1, 8)) {
                    a = self.force_sign(d, a, true);
                }
                let ta = ty_of(&self.m, &a);
                let b = self.gen_shift_amount(d, sc, ta.w, depth - 1);
                let b = if matches!(b, Expr::Lit(Lit::AllOne | Lit::AllZero)) { Expr::Lit(Lit::Dec(1)) } else { b };
                self.class(&format!("op:{}", op.name()));
                let e = Expr::bin(op, a, b);
                if sg { self.force_sign(d, e, true) } else { e }
            }
            6 => {
                let op = *d.pick(&[UnOp::Neg, UnOp::BitNot, UnOp::Plus]);
                let a = self.gen_expr(d, sc, depth - 1, hint, sg);
                self.class(&format!("op:{}", op.name()));
                Expr::un(op, a)
            }
            7 => {
                let op = *d.pick(&[BinOp::Eq, BinOp::Ne, BinOp::Lt, BinOp::Le, BinOp::Gt, BinOp::Ge, BinOp::WEq, BinOp::WNe]);
                let both_signed = c.signed && d.chance(1, 3);
                let a = self.gen_expr(d, sc, depth - 1, hint, both_signed);
                let ta = ty_of(&self.m, &a);
                let b = self.gen_expr(d, sc, depth - 1, Some(ta), both_signed);
                self.class(&format!("op:{}", op.name()));
                if both_signed {
                    self.class("cmp:signed");
                }
                Expr::bin(op, a, b)
            }
            8 => {
                if d.chance(1, 3) {
                    let a = self.gen_bool(d, sc, depth - 1);
                    self.class("op:lognot");
                    Expr::un(UnOp::LogNot, a)
                } else {
                    let op = *d.pick(&[BinOp::LogAnd, BinOp::LogOr]);
                    let a = self.gen_bool(d, sc, depth - 1);
                    let b = self.gen_bool(d, sc, depth - 1);
                    self.class(&format!("op:{}", op.name()));
                    Expr::bin(op, a, b)
                }
            }
            9 => {
                let op = *d.pick(&[UnOp::RedAnd, UnOp::RedOr, UnOp::RedXor, UnOp::RedNand, UnOp::RedNor, UnOp::RedXnor]);
                let mut a = self.gen_expr(d, sc, depth - 1, None, false);
                if matches!(a, Expr::Lit(Lit::AllOne | Lit::AllZero)) {
                    a = self.gen_leaf(d, sc, None, true);
                }
                self.class(&format!("op:{}", op.name()));
                Expr::un(op, a)
            }
            10 => {
                let cnd = self.gen_bool(d, sc, depth - 1);
                let a = self.gen_expr(d, sc, depth - 1, hint, sg);
                let ta = ty_of(&self.m, &a);
                let b = self.gen_expr(d, sc, depth - 1, Some(ta), sg);
                self.class("expr:if");
                Expr::If(Box::new(cnd), Box::new(a), Box::new(b))
            }
            11 => {
                let n = 1 + d.below(3);
                let mut parts = vec![];
                let mut total = 0u32;
                for _ in 0..n {
                    let mut p = self.gen_expr(d, sc, depth - 1, None, false);
                    if matches!(p, Expr::Lit(Lit::Dec(_) | Lit::AllOne | Lit::AllZero)) {
                        // unsized numbers are not allowed inside a concatenation
                        p = self.lit_of(Ty::u(1 + d.below(8)), d.below(256) as u64);
                    }
                    let pw = ty_of(&self.m, &p).w;
                    let rep = if d.chance(1, 4) {
                        let max_rep = ((4 * c.max_width).saturating_sub(total) / pw.max(1)).min(6);
                        if max_rep >= 2 { Some(2 + d.below(max_rep - 1)) } else { None }
                    } else {
                        None
                    };
                    if rep.is_some() {
                        self.class("expr:repeat");
                    }
                    total += pw * rep.unwrap_or(1);
                    parts.push((p, rep));
                }
                self.class("expr:concat");
                Expr::Concat(parts)
            }
            12 => {
                let mut a = self.gen_expr(d, sc, depth - 1, hint, sg);
                if matches!(a, Expr::Lit(Lit::AllOne | Lit::AllZero)) {
                    a = self.gen_leaf(d, sc, hint, true);
                }
                let to = if !sg && d.chance(1, 3) {
                    let t = *d.pick(&[Ty::u(8), Ty::u(16), Ty::u(32), Ty::u(64), Ty::s(8), Ty::s(16), Ty::s(32), Ty::s(64)]);
                    self.class("cast:fixed");
                    CastTo::Fixed(t)
                } else {
                    self.class("cast:width");
                    CastTo::Width(gen_width(d, c.max_width))
                };
                let e = Expr::Cast(Box::new(a), to);
                if sg { self.force_sign(d, e, true) } else { e }
            }
            13 => {
                let mut a = self.gen_expr(d, sc, depth - 1, hint, false);
                if matches!(a, Expr::Lit(Lit::AllOne | Lit::AllZero)) {
                    a = self.gen_leaf(d, sc, hint, true);
                }
                if sg || d.bool() {
                    self.mk_signed(d, a)
                } else {
                    self.class("cast:$unsigned");
                    Expr::Unsigned(Box::new(a))
                }
            }
            14 => {
                let (sel, st) = self.gen_selector(d, sc, depth - 1);
                let n = 1 + d.below(3);
                let mut arms = vec![];
                let first = self.gen_expr(d, sc, depth - 1, hint, sg);
                let ht = Some(ty_of(&self.m, &first));
                let mut first = Some(first);
                let mut used = vec![];
                for _ in 0..n {
                    let items = self.case_items(d, st, &mut used);
                    if items.is_empty() {
                        continue;
                    }
                    let a = match first.take() {
                        Some(f) => f,
                        None => self.gen_expr(d, sc, depth - 1, ht, sg),
                    };
                    arms.push((items, a));
                }
                let dflt = self.gen_expr(d, sc, depth - 1, ht, sg);
                self.class("expr:case");
                Expr::Case(Box::new(sel), arms, Box::new(dflt))
            }
            15 => {
                let n = 1 + d.below(3);
                let mut arms = vec![];
                let mut ht = hint;
                for _ in 0..n {
                    let nc = 1 + d.below(2);
                    let conds = (0..nc).map(|_| self.gen_bool(d, sc, depth - 1)).collect();
                    let a = self.gen_expr(d, sc, depth - 1, ht, sg);
                    ht = Some(ty_of(&self.m, &a));
                    arms.push((conds, a));
                }
                let dflt = self.gen_expr(d, sc, depth - 1, ht, sg);
                self.class("expr:switch");
                Expr::Switch(arms, Box::new(dflt))
            }
            16 => {
                let (x, xt) = self.gen_selector(d, sc, depth - 1);
                let items = self.case_items(d, xt, &mut vec![]);
                let neg = d.chance(1, 3);
                self.class(if neg { "expr:outside" } else { "expr:inside" });
                Expr::Inside(Box::new(x), items, neg)
            }
            17 => {
                let f = sc.funcs[d.below_usize(sc.funcs.len())];
                let args_d = self.m.funcs[f].args.clone();
                let mut args = vec![];
                // no calls inside call arguments: the simulator inlines
                // functions and rejects `f(f(x))` as recursive
                let sc_args = Scope {
                    funcs: vec![],
                    ..sc.clone()
                };
                let sc = &sc_args;
                for a in args_d {
                    let t = self.m.decls[a].ty;
                    let mut e = self.gen_expr(d, sc, depth - 1, Some(t), false);
                    if matches!(e, Expr::Lit(Lit::AllOne | Lit::AllZero)) {
                        e = self.lit_of(t, 1);
                    }
                    args.push(e);
                }
                self.class("expr:call");
                let e = Expr::Call(f, args);
                if sg { self.force_sign(d, e, true) } else { e }
            }
            18 => {
                let op = *d.pick(&[BinOp::And, BinOp::Or, BinOp::Xor, BinOp::Add, BinOp::Sub]);
                let a = self.gen_expr(d, sc, depth - 1, hint, false);
                let a = if matches!(a, Expr::Lit(Lit::AllOne | Lit::AllZero)) { self.gen_leaf(d, sc, hint, true) } else { a };
                let f = Expr::Lit(if d.bool() { Lit::AllOne } else { Lit::AllZero });
                self.class("lit:fill");
                if d.bool() { Expr::bin(op, a, f) } else { Expr::bin(op, f, a) }
            }
            _ => self.gen_leaf(d, sc, hint, sg),
        };
        e
    }

    /// Run `f` until the expression it returns matches no avoided known
    /// finding (see `findings.rs`) when assigned to a `dest_w`-bit target;
    /// after a few tries fall back to a literal.
    fn checked(&mut self, d: &mut Draw, dest_w: u32, f: &mut dyn FnMut(&mut Self, &mut Draw) -> Expr) -> Expr {
        self.checked_for(d, dest_w, false, f)
    }

    /// `partial`: the target is a bit/part select or a struct field (the
    /// statement-level findings of `findings::assign_hits` apply too).
    fn checked_for(&mut self, d: &mut Draw, dest_w: u32, partial: bool, f: &mut dyn FnMut(&mut Self, &mut Draw) -> Expr) -> Expr {
        for _ in 0..4 {
            let saved = self.classes.clone();
            let e = f(self, d);
            let mut hits = crate::findings::hits(&self.m, &e, dest_w);
            hits.extend(crate::findings::assign_hits(&self.m, partial, dest_w, &e));
            let bad: Vec<&str> = hits.into_iter().filter(|k| self.cfg.avoid.contains(*k)).collect();
            if bad.is_empty() {
                return e;
            }
            if self.cfg.known_per_mille > 0 && d.chance(self.cfg.known_per_mille, 1000) {
                for k in &bad {
                    self.class(&format!("known:{k}"));
                }
                return e;
            }
            for k in bad {
                self.exclude(k);
            }
            self.classes = saved;
        }
        let w = if partial { dest_w.clamp(1, 64) } else { dest_w.max(1) };
        Expr::lit(Ty::u(w), gen_value(d, w))
    }

    /// Top-level expression for a target of type `t`: picks the signed mode
    /// now and then so that signed contexts are well represented.
    fn gen_rhs(&mut self, d: &mut Draw, sc: &Scope, t: Ty) -> Expr {
        self.gen_rhs_for(d, sc, t, false)
    }

    /// `partial` = the target is a select / field of a variable.
    fn gen_rhs_for(&mut self, d: &mut Draw, sc: &Scope, t: Ty, partial: bool) -> Expr {
        self.checked_for(d, t.w, partial, &mut |this, d| {
            let sg = this.cfg.signed && d.chance(1, 4);
            let depth = 1 + d.below(this.cfg.expr_depth);
            let hint = if d.chance(1, 2) { Some(t) } else { None };
            let e = this.gen_expr(d, sc, depth, hint, sg);
            if sg {
                this.class("ctx:signed_rhs");
            }
            e
        })
    }

    /// Narrow (< 64 bit) unsigned operand of width about `w`: a whole
    /// variable, the low bits of a wider unsigned variable, or a literal
    /// (corner-biased, so that additions overflow often).
    fn wrap_operand(&mut self, d: &mut Draw, sc: &Scope, w: u32) -> Expr {
        let vars: Vec<DeclId> = self
            .readable(sc)
            .into_iter()
            .filter(|&v| {
                let dd = &self.m.decls[v];
                dd.array.is_none() && !dd.ty.signed && matches!(dd.syntax, TySyntax::Logic | TySyntax::Bit) && !matches!(dd.kind, DeclKind::Const | DeclKind::Param | DeclKind::LoopVar)
            })
            .collect();
        if !vars.is_empty() && !d.chance(1, 4) {
            let v = vars[d.below_usize(vars.len())];
            let vw = self.m.decls[v].ty.w;
            if vw <= w {
                return Expr::var(v);
            }
            let lo = d.below(vw - w + 1);
            return Expr::Ref(Ref {
                decl: v,
                idx: None,
                field: None,
                sel: if w == 1 { Sel::BitC(CIdx::Num(lo)) } else { Sel::Range(CIdx::Num(lo + w - 1), CIdx::Num(lo)) },
            });
        }
        Expr::lit(Ty::u(w), gen_value(d, w))
    }

    /// `consumer(((a op1 b) op2 c))`: see `GenCfg::wrap_per_mille`.
    fn gen_wrap_expr(&mut self, d: &mut Draw, sc: &Scope) -> Expr {
        let w = *d.pick(&[8u32, 4, 16, 32, 12, 31, 33, 48, 63, 2, 24]);
        let a = self.wrap_operand(d, sc, w);
        let b = self.wrap_operand(d, sc, w);
        let op1 = *d.pick(&[BinOp::Add, BinOp::Sub, BinOp::Mul, BinOp::Shl]);
        let inner = if op1 == BinOp::Shl { Expr::bin(op1, a, Expr::Lit(Lit::Dec(1 + d.below(w.min(8))))) } else { Expr::bin(op1, a, b) };
        let c = self.wrap_operand(d, sc, w);
        let op2 = *d.pick(&[BinOp::Sub, BinOp::Add, BinOp::Sub, BinOp::Mul]);
        let mid = if d.bool() { Expr::bin(op2, inner, c) } else { Expr::bin(op2, c, inner) };
        self.class("expr:wrap_shape");
        self.class(&format!("wrap:{}_{}", op1.name(), op2.name()));
        match d.below(8) {
            0 | 1 => {
                let dd = self.wrap_operand(d, sc, w);
                let op = *d.pick(&[BinOp::Eq, BinOp::Ne, BinOp::Lt, BinOp::Ge, BinOp::Gt, BinOp::Le]);
                self.class("wrap:compare");
                if d.bool() { Expr::bin(op, mid, dd) } else { Expr::bin(op, dd, mid) }
            }
            2 => {
                self.class("wrap:shift");
                Expr::bin(BinOp::Shr, mid, Expr::Lit(Lit::Dec(1 + d.below(w))))
            }
            3 => {
                self.class("wrap:reduction");
                Expr::un(*d.pick(&[UnOp::RedOr, UnOp::RedAnd, UnOp::RedXor, UnOp::RedNor]), mid)
            }
            4 => {
                self.class("wrap:condition");
                let x = self.wrap_operand(d, sc, w);
                let y = self.wrap_operand(d, sc, w);
                let z = Expr::lit(Ty::u(w), BigUint::zero());
                Expr::If(Box::new(Expr::bin(BinOp::Ne, mid, z)), Box::new(x), Box::new(y))
            }
            5 => {
                self.class("wrap:lognot");
                let z = Expr::lit(Ty::u(w), BigUint::zero());
                Expr::un(UnOp::LogNot, Expr::bin(BinOp::Ne, mid, z))
            }
            6 => {
                // a third level: the wrapped value feeds another growing operator, then a compare
                self.class("wrap:nested3");
                let e = self.wrap_operand(d, sc, w);
                let f = self.wrap_operand(d, sc, w);
                Expr::bin(BinOp::Lt, Expr::bin(BinOp::Add, mid, e), f)
            }
            _ => {
                self.class("wrap:inside");
                let t = Ty::u(w);
                let lo = gen_value(d, w.min(6));
                let hi = &lo + BigUint::from(d.below(8));
                Expr::Inside(Box::new(mid), vec![RangeItem::Incl(Expr::lit(t, lo), Expr::lit(t, hi & mask(w)))], false)
            }
        }
    }

    /// Condition of a statement (1 bit, self-determined).
    fn gen_cond(&mut self, d: &mut Draw, sc: &Scope, depth: u32) -> Expr {
        self.checked(d, 1, &mut |this, d| this.gen_bool(d, sc, depth))
    }
}

include!("gen_items.rs");

/// Short structural description of an expression (operator names with the
/// type classes of the leaves), used for failure signatures and histograms:
/// `shr(ref:s:w65_128,sel:range:u:w2_8)`.
pub fn shape(m: &Module, e: &Expr) -> String {
    let t = ty_of(m, e);
    let tc = |t: Ty| format!("{}:{}", if t.signed { "s" } else { "u" }, width_class(t.w));
    let list = |xs: Vec<String>| xs.join(",");
    match e {
        Expr::Lit(Lit::Dec(_)) => "dec".into(),
        Expr::Lit(Lit::AllOne | Lit::AllZero) => "fill".into(),
        Expr::Lit(_) => format!("lit:{}", tc(t)),
        Expr::Ref(r) => {
            let d = &m.decls[r.decl];
            let k = match d.kind {
                DeclKind::Const | DeclKind::Param => "const",
                DeclKind::LoopVar => "loopvar",
                _ => "ref",
            };
            let sel = match &r.sel {
                Sel::None => "",
                Sel::BitC(_) => "[c]",
                Sel::BitD(_) => "[d]",
                Sel::Range(..) => "[c:c]",
                Sel::PlusC(..) => "[d+:]",
                Sel::MinusC(..) => "[d-:]",
                Sel::Step(..) => "[d step]",
            };
            let arr = if r.idx.is_some() { "[arr]" } else { "" };
            let fld = if r.field.is_some() { ".f" } else { "" };
            format!("{k}{arr}{fld}{sel}:{}/{}", tc(t), width_class(d.ty.w))
        }
        Expr::EnumVal(..) => "enumval".into(),
        Expr::Un(op, a) => format!("{}({})", op.name(), shape(m, a)),
        Expr::Bin(op, a, b) => format!("{}({},{})", op.name(), shape(m, a), shape(m, b)),
        Expr::If(c, a, b) => format!("if({},{},{})", shape(m, c), shape(m, a), shape(m, b)),
        Expr::Case(s, arms, dflt) => {
            let mut xs = vec![shape(m, s)];
            xs.extend(arms.iter().map(|(_, a)| shape(m, a)));
            xs.push(shape(m, dflt));
            format!("case({})", list(xs))
        }
        Expr::Switch(arms, dflt) => {
            let mut xs: Vec<String> = arms.iter().map(|(_, a)| shape(m, a)).collect();
            xs.push(shape(m, dflt));
            format!("switch({})", list(xs))
        }
        Expr::Concat(ps) => format!(
            "concat({})",
            list(ps.iter().map(|(p, n)| if n.is_some() { format!("rep {}", shape(m, p)) } else { shape(m, p) }).collect())
        ),
        Expr::Cast(a, to) => {
            let k = match to {
                CastTo::Width(_) => "width",
                CastTo::Fixed(_) => "fixed",
                CastTo::Enum(_) => "enum",
                CastTo::Struct(_) => "struct",
            };
            format!("as_{k}:{}({})", width_class(t.w), shape(m, a))
        }
        Expr::Signed(a) => format!("$signed({})", shape(m, a)),
        Expr::Unsigned(a) => format!("$unsigned({})", shape(m, a)),
        Expr::Inside(x, _, neg) => format!("{}({})", if *neg { "outside" } else { "inside" }, shape(m, x)),
        Expr::Call(_, args) => format!("call({})", list(args.iter().map(|a| shape(m, a)).collect())),
        Expr::Clog2(a) => format!("clog2({})", shape(m, a)),
        Expr::Bits(_) => "bits".into(),
    }
}
