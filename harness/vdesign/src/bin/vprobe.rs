//! Development probe: `vprobe FILE TOP [clk=NAME] [rst=NAME] [steps=N] in:NAME:W=HEX ... out:NAME:W ...`
//! runs the text under every engine configuration and prints every output.
use num_bigint::BigUint;
use vdesign::sim::*;

fn main() {
    let args: Vec<String> = std::env::args().skip(1).collect();
    let text = std::fs::read_to_string(&args[0]).expect("read");
    let top = args[1].clone();
    let mut stim = Stimulus::default();
    let mut vals = vec![];
    let mut steps = 1;
    for a in &args[2..] {
        if let Some(c) = a.strip_prefix("clk=") {
            stim.clock = Some(c.into());
        } else if let Some(c) = a.strip_prefix("rst=") {
            stim.reset = Some(c.into());
        } else if let Some(c) = a.strip_prefix("steps=") {
            steps = c.parse().unwrap();
        } else if let Some(r) = a.strip_prefix("in:") {
            let (nw, v) = r.split_once('=').unwrap();
            let (n, w) = nw.split_once(':').unwrap();
            stim.inputs.push(PortSpec { name: n.into(), width: w.parse().unwrap() });
            vals.push(BigUint::parse_bytes(v.as_bytes(), 16).unwrap());
        } else if let Some(r) = a.strip_prefix("out:") {
            let (n, w) = r.split_once(':').unwrap();
            stim.outputs.push(PortSpec { name: n.into(), width: w.parse().unwrap() });
        }
    }
    if stim.reset.is_some() {
        stim.steps.push(StimStep { reset: true, values: vals.clone() });
    }
    for _ in 0..steps {
        stim.steps.push(StimStep { reset: false, values: vals.clone() });
    }
    let a = match Analyzed::new(&text) {
        Ok(a) => a,
        Err(r) => {
            println!("REJECTED {r}");
            return;
        }
    };
    for w in &a.warnings {
        println!("warning: {w}");
    }
    let (fast, cc) = engine_configs();
    for c in fast.iter().chain(cc.iter()) {
        match a.run(&top, c, &stim) {
            Ok(t) => {
                print!("{:18}", config_label(c));
                for (i, row) in t.steps.iter().enumerate() {
                    print!(" |{i}:");
                    for (p, s) in stim.outputs.iter().zip(row) {
                        if s.xz == BigUint::from(0u32) {
                            print!(" {}={:x}", p.name, s.value);
                        } else {
                            print!(" {}={:x}/xz{:x}", p.name, s.value, s.xz);
                        }
                    }
                }
                println!("  jit={:?} anyxz={} disp={:?}", t.jit_stats, t.any_xz, t.display);
            }
            Err(e) => println!("{:18} ERROR {e}", config_label(c)),
        }
    }
}
