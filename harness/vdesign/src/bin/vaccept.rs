//! Development tool: `vaccept MODE N [SEED] [--show K] [--cc]`
//! MODE = expr | single | design | comb.  Generates N cases from a private
//! PRNG, reports the acceptance rate, rejection codes and reference-vs-engine
//! mismatches.  Not a check (checks draw from vcore only).
use std::collections::BTreeMap;
use vcore::Draw;
use vdesign::*;

fn splitmix(s: &mut u64) -> u64 {
    *s = s.wrapping_add(0x9E3779B97F4A7C15);
    let mut z = *s;
    z = (z ^ (z >> 30)).wrapping_mul(0xBF58476D1CE4E5B9);
    z = (z ^ (z >> 27)).wrapping_mul(0x94D049BB133111EB);
    z ^ (z >> 31)
}

fn main() {
    let args: Vec<String> = std::env::args().skip(1).collect();
    let mode = args[0].clone();
    let n: usize = args[1].parse().unwrap();
    let seed: u64 = args.get(2).and_then(|s| s.parse().ok()).unwrap_or(1);
    let show: usize = args.iter().position(|a| a == "--show").and_then(|i| args[i + 1].parse().ok()).unwrap_or(0);
    let use_cc = args.iter().any(|a| a == "--cc");
    let all = args.iter().any(|a| a == "--all");
    let mut rej: BTreeMap<String, usize> = BTreeMap::new();
    let mut rej_sample: BTreeMap<String, String> = BTreeMap::new();
    let mut accepted = 0;
    let mut mism = 0;
    let mut unknown = 0u64;
    let mut compared = 0u64;
    let mut shown = 0;
    let mut classes: BTreeMap<String, usize> = BTreeMap::new();
    let mut shapes: BTreeMap<String, usize> = BTreeMap::new();
    for i in 0..n {
        let mut s = seed.wrapping_mul(1_000_003).wrapping_add(i as u64);
        let choices: Vec<u32> = (0..6000).map(|_| splitmix(&mut s) as u32).collect();
        let res = std::thread::Builder::new()
            .stack_size(16 << 20)
            .spawn({
                let mode = mode.clone();
                move || {
                    let mut d = Draw::new(choices);
                    let cfg = match mode.as_str() {
                        "expr" | "single" => GenCfg::exprs_only(),
                        "comb" => GenCfg::comb_only(),
                        _ => GenCfg::default(),
                    };
                    let g = match mode.as_str() {
                        "expr" => gen_expr_design(&mut d, &cfg, 1, false).0,
                        "single" => gen_expr_design(&mut d, &cfg, 1, true).0,
                        _ => gen_design(&mut d, &cfg),
                    };
                    let text = print_design(&g.design);
                    let stim = gen_stimulus(&mut d, &g.design, 6);
                    let a = match Analyzed::new(&text) {
                        Ok(a) => a,
                        Err(r) => return (g, text, Err(r), vec![], d.used()),
                    };
                    let rt = reference_trace(&g.design, &stim);
                    let mut out = vec![];
                    let (fast, cc) = engine_configs();
                    let mut cfgs: Vec<_> = if all { fast } else { fast.into_iter().filter(|c| !c.use_4state && !c.disable_ff_opt).collect() };
                    if use_cc {
                        cfgs.extend(cc.into_iter().take(1));
                    }
                    for c in cfgs {
                        let r = std::panic::catch_unwind(std::panic::AssertUnwindSafe(|| a.run("Top", &c, &stim)));
                        let r = match r {
                            Ok(r) => r,
                            Err(_) => Err("panic".to_string()),
                        };
                        out.push((config_label(&c), r));
                    }
                    (g, text, Ok((stim, rt)), out, d.used())
                }
            })
            .unwrap()
            .join();
        let Ok((g, text, r, runs, _used)) = res else {
            *rej.entry("generator/analyzer panic".into()).or_insert(0) += 1;
            continue;
        };
        match r {
            Err(r) => {
                for (c, m) in &r.errors {
                    let k = format!("{}:{}", r.stage, c);
                    *rej.entry(k.clone()).or_insert(0) += 1;
                    rej_sample.entry(k).or_insert_with(|| format!("{m}\n{text}"));
                }
            }
            Ok((stim, rt)) => {
                accepted += 1;
                for c in &g.classes {
                    *classes.entry(c.clone()).or_insert(0) += 1;
                }
                let mut bad = None;
                // per output: set of engines that disagree with the reference
                let nout = stim.outputs.len();
                let mut fails: Vec<Vec<String>> = vec![vec![]; nout];
                for (label, run) in &runs {
                    if let Ok(t) = run {
                        for (row, rrow) in t.steps.iter().zip(&rt.steps) {
                            for (oi, (s, r)) in row.iter().zip(rrow).enumerate() {
                                if !r.x && s.value != r.v && !fails[oi].contains(label) {
                                    fails[oi].push(label.clone());
                                }
                            }
                        }
                    }
                }
                let top = g.design.top();
                for (oi, f) in fails.iter().enumerate() {
                    if f.is_empty() {
                        continue;
                    }
                    let od = top.decls.iter().position(|x| x.name == stim.outputs[oi].name).unwrap();
                    let ex = top.items.iter().find_map(|it| match it {
                        Item::Assign { lhs, rhs } if lhs.decl == od => Some(rhs),
                        _ => None,
                    });
                    if let Some(ex) = ex {
                        let k = format!("{} {} -> {}{}", f.join("+"), shape(top, ex), if top.decls[od].ty.signed { "s" } else { "u" }, top.decls[od].ty.w);
                        *shapes.entry(k).or_insert(0) += 1;
                    }
                }
                for (label, run) in &runs {
                    match run {
                        Err(e) => {
                            bad = Some(format!("{label}: ERROR {e}"));
                        }
                        Ok(t) => {
                            for (si, (row, rrow)) in t.steps.iter().zip(&rt.steps).enumerate() {
                                for (oi, (s, r)) in row.iter().zip(rrow).enumerate() {
                                    if r.x {
                                        unknown += 1;
                                        continue;
                                    }
                                    compared += 1;
                                    if s.value != r.v && bad.is_none() {
                                        bad = Some(format!(
                                            "{label}: step {si} output {} engine={:x} ref={:x} inputs={:?}",
                                            stim.outputs[oi].name,
                                            s.value,
                                            r.v,
                                            stim.inputs.iter().zip(&stim.steps[si].values).map(|(p, v)| format!("{}={:x}", p.name, v)).collect::<Vec<_>>()
                                        ));
                                    }
                                }
                            }
                        }
                    }
                }
                if let Some(b) = bad {
                    mism += 1;
                    if shown < show {
                        shown += 1;
                        println!("=== MISMATCH case {i}: {b}\n{text}");
                    }
                }
            }
        }
    }
    println!("accepted {accepted}/{n} ({:.1}%)  mismatching designs {mism}  compared {compared} unknown {unknown}", 100.0 * accepted as f64 / n as f64);
    for (k, v) in &rej {
        println!("  reject {k}: {v}");
    }
    if args.iter().any(|a| a == "--rej") {
        for (k, v) in &rej_sample {
            println!("--- sample for {k}:\n{v}");
        }
    }
    if args.iter().any(|a| a == "--shapes") {
        for (k, v) in &shapes {
            println!("  fail {v:4} {k}");
        }
    }
    if args.iter().any(|a| a == "--classes") {
        for (k, v) in &classes {
            println!("  class {k}: {v}");
        }
    }
}
