//! Shapes that trigger *known* genuine defects of /repo's simulator engines
//! (each confirmed against the real code; reproducers under
//! `/verif/known/C18/`).  One predicate per root cause.
//!
//! Two uses:
//! * the generator rejects an expression that matches a key listed in
//!   `GenCfg::avoid` (counted in `Generated::excluded`), so the search goes on
//!   past known defects;
//! * a check that sees an engine disagree classifies the failing expression
//!   with [`classify`]: the first matching key becomes the failure signature.
//!
//! The predicates look at an expression together with the context it is
//! evaluated in (width and signedness propagated from the assignment,
//! LRM §11.8.2), because most defects depend on the context width regime
//! (≤ 64, 65..128, > 128 bits).

use crate::eval::{ref_base_ty, ty_of};
use crate::ir::*;

/// Context of a (sub)expression: propagated width / signedness, or
/// self-determined.
#[derive(Clone, Copy, Debug)]
pub struct Ctx {
    pub w: u32,
    pub signed: bool,
}

/// One node of an expression together with its evaluation context.
pub struct Node<'a> {
    pub e: &'a Expr,
    pub ctx: Ctx,
    /// the node is a context-determined operand of its parent (extension to
    /// `ctx.w` happens at this node when it is a leaf)
    pub in_ctx: bool,
    /// the node is the whole right-hand side
    pub root: bool,
    /// width of the assignment target (0 when unknown / not an assignment)
    pub dest_w: u32,
}

/// Visit every node of `e`, evaluated as the right-hand side of an assignment
/// to a `dest_w`-bit target, with its context.
pub fn walk<'a>(m: &Module, e: &'a Expr, dest_w: u32, f: &mut dyn FnMut(&Module, &Node<'a>)) {
    let t = ty_of(m, e);
    let ctx = Ctx {
        w: t.w.max(dest_w),
        signed: t.signed,
    };
    let mut first = true;
    let mut g = |m: &Module, n: &Node<'a>| {
        let n2 = Node {
            e: n.e,
            ctx: n.ctx,
            in_ctx: n.in_ctx,
            root: first,
            dest_w,
        };
        first = false;
        f(m, &n2)
    };
    walk_ctx(m, e, ctx, true, &mut g);
}

fn self_ctx(m: &Module, e: &Expr) -> Ctx {
    let t = ty_of(m, e);
    Ctx { w: t.w, signed: t.signed }
}

fn walk_items<'a>(m: &Module, sel: &'a Expr, items: &'a [RangeItem], f: &mut dyn FnMut(&Module, &Node<'a>)) {
    let ts = ty_of(m, sel);
    let mut first = true;
    for it in items {
        let xs: Vec<&Expr> = match it {
            RangeItem::Val(v) => vec![v],
            RangeItem::Excl(a, b) | RangeItem::Incl(a, b) => vec![a, b],
        };
        for x in xs {
            let tx = ty_of(m, x);
            let c = Ctx {
                w: ts.w.max(tx.w),
                signed: ts.signed && tx.signed,
            };
            if first {
                walk_ctx(m, sel, c, true, f);
                first = false;
            }
            walk_ctx(m, x, c, true, f);
        }
    }
    if first {
        walk_ctx(m, sel, self_ctx(m, sel), false, f);
    }
}

fn walk_ref<'a>(m: &Module, r: &'a Ref, f: &mut dyn FnMut(&Module, &Node<'a>)) {
    if let Some(i) = &r.idx {
        walk_ctx(m, i, self_ctx(m, i), false, f);
    }
    match &r.sel {
        Sel::BitD(x) | Sel::PlusC(x, _) | Sel::MinusC(x, _) | Sel::Step(x, _) => walk_ctx(m, x, self_ctx(m, x), false, f),
        _ => {}
    }
}

fn walk_ctx<'a>(m: &Module, e: &'a Expr, ctx: Ctx, in_ctx: bool, f: &mut dyn FnMut(&Module, &Node<'a>)) {
    f(
        m,
        &Node {
            e,
            ctx,
            in_ctx,
            root: false,
            dest_w: 0,
        },
    );
    match e {
        Expr::Lit(_) | Expr::EnumVal(..) | Expr::Bits(_) => {}
        Expr::Ref(r) => walk_ref(m, r, f),
        Expr::Un(op, a) => match op {
            UnOp::Plus | UnOp::Neg | UnOp::BitNot => walk_ctx(m, a, ctx, true, f),
            _ => walk_ctx(m, a, self_ctx(m, a), false, f),
        },
        Expr::Bin(op, a, b) => {
            if op.is_compare() {
                let (ta, tb) = (ty_of(m, a), ty_of(m, b));
                let c = Ctx {
                    w: ta.w.max(tb.w),
                    signed: ta.signed && tb.signed,
                };
                walk_ctx(m, a, c, true, f);
                walk_ctx(m, b, c, true, f);
            } else if op.is_logical() {
                walk_ctx(m, a, self_ctx(m, a), false, f);
                walk_ctx(m, b, self_ctx(m, b), false, f);
            } else if op.is_shift() || *op == BinOp::Pow {
                walk_ctx(m, a, ctx, true, f);
                walk_ctx(m, b, self_ctx(m, b), false, f);
            } else {
                walk_ctx(m, a, ctx, true, f);
                walk_ctx(m, b, ctx, true, f);
            }
        }
        Expr::If(c, a, b) => {
            walk_ctx(m, c, self_ctx(m, c), false, f);
            walk_ctx(m, a, ctx, true, f);
            walk_ctx(m, b, ctx, true, f);
        }
        Expr::Case(s, arms, dflt) => {
            for (items, a) in arms {
                walk_items(m, s, items, f);
                walk_ctx(m, a, ctx, true, f);
            }
            walk_ctx(m, dflt, ctx, true, f);
        }
        Expr::Switch(arms, dflt) => {
            for (cs, a) in arms {
                for c in cs {
                    walk_ctx(m, c, self_ctx(m, c), false, f);
                }
                walk_ctx(m, a, ctx, true, f);
            }
            walk_ctx(m, dflt, ctx, true, f);
        }
        Expr::Concat(ps) => {
            for (p, _) in ps {
                walk_ctx(m, p, self_ctx(m, p), false, f);
            }
        }
        Expr::Cast(a, _) => {
            let ta = ty_of(m, a);
            let t = ty_of(m, e);
            walk_ctx(
                m,
                a,
                Ctx {
                    w: ta.w.max(t.w),
                    signed: ta.signed,
                },
                true,
                f,
            );
        }
        Expr::Signed(a) | Expr::Unsigned(a) | Expr::Clog2(a) => walk_ctx(m, a, self_ctx(m, a), false, f),
        Expr::Inside(x, items, _) => walk_items(m, x, items, f),
        Expr::Call(fi, args) => {
            for (a, d) in args.iter().zip(&m.funcs[*fi].args) {
                let ta = ty_of(m, a);
                walk_ctx(
                    m,
                    a,
                    Ctx {
                        w: ta.w.max(m.decls[*d].ty.w),
                        signed: ta.signed,
                    },
                    true,
                    f,
                );
            }
        }
    }
}

fn is_select(e: &Expr) -> bool {
    matches!(e, Expr::Ref(r) if !matches!(r.sel, Sel::None))
}

fn is_const_expr(m: &Module, e: &Expr) -> bool {
    let mut all = true;
    let mut f = |m: &Module, n: &Node| {
        if let Expr::Ref(r) = n.e {
            if !matches!(m.decls[r.decl].kind, DeclKind::Const | DeclKind::Param) {
                all = false;
            }
        }
        if matches!(n.e, Expr::Call(..)) {
            all = false;
        }
    };
    walk_ctx(m, e, Ctx { w: 1, signed: false }, false, &mut f);
    all
}

/// A known finding: key, one-line description, predicate on a node.
pub struct Finding {
    pub key: &'static str,
    pub what: &'static str,
    pub hit: fn(&Module, &Node) -> bool,
}

/// All known root causes, most specific first.
pub const FINDINGS: &[Finding] = &[
    Finding {
        key: "signed-cast-of-select",
        what: "$signed(x[..]) of a bit/part select is not sign-extended (no engine does at a direct store; the interpreter never does)",
        hit: |_, n| matches!(n.e, Expr::Signed(a) if is_select(a)),
    },
    Finding {
        key: "signed-cast-of-concat",
        what: "cc: $signed({..}) of a concatenation is not sign-extended (and is cut at 64 bits under >>>)",
        hit: |_, n| matches!(n.e, Expr::Signed(a) if matches!(**a, Expr::Concat(_))),
    },
    Finding {
        key: "signed-cast-of-constant",
        what: "$signed(<unsigned constant>) is not treated as signed by compile-time evaluation, which the interpreter and cc use to fold constants",
        hit: |m, n| matches!(n.e, Expr::Signed(a) if is_const_expr(m, a) && !ty_of(m, a).signed),
    },
    Finding {
        key: "signed-cast-of-expression",
        what: "$signed(<expression>) of anything but a plain variable (comparison, logical, unary result, …) is not sign-extended by any engine",
        hit: |_, n| matches!(n.e, Expr::Signed(a) if !matches!(**a, Expr::Ref(_))),
    },
    Finding {
        key: "unsigned-cast-of-expression",
        what: "JIT and cc: the operand of $unsigned(<expression>) is evaluated at the width of the surrounding context instead of self-determined (`$unsigned(a + b)` of 1-bit a, b gives 2)",
        hit: |m, n| matches!(n.e, Expr::Unsigned(a) if !matches!(**a, Expr::Ref(_)) && n.ctx.w > ty_of(m, a).w),
    },
    Finding {
        key: "width-cast-of-signed-operand",
        what: "`e as N` of a signed operand is emitted as N'(e) (signed, LRM 6.24.1) but every engine and compile-time evaluation treat the result as unsigned and zero-extend the operand",
        hit: |m, n| matches!(n.e, Expr::Cast(a, CastTo::Width(_)) if ty_of(m, a).signed),
    },
    Finding {
        key: "width-cast-narrowing-ignored",
        what: "`e as N` with N smaller than the width of e does not cut the value to N bits when it is an operand of a larger expression (all engines)",
        hit: |m, n| matches!(n.e, Expr::Cast(a, CastTo::Width(w)) if *w < ty_of(m, a).w),
    },
    Finding {
        key: "fixed-type-cast-keeps-operand-signedness",
        what: "`e as u8…u64 / i8…i64` is emitted as a cast to byte / longint unsigned … (signedness of the type), but every engine and compile-time evaluation keep the signedness of the operand",
        hit: |m, n| matches!(n.e, Expr::Cast(a, CastTo::Fixed(t)) if t.signed != ty_of(m, a).signed),
    },
    Finding {
        key: "fixed-type-cast-not-truncating",
        what: "`e as u16` … of an operand wider than the type: the engines do not cut the value to the type's width (interpreter, JIT and cc each give a different wrong value); cc also fails for operands wider than 64 bits",
        hit: |m, n| matches!(n.e, Expr::Cast(a, CastTo::Fixed(t)) if ty_of(m, a).w != t.w || true),
    },
    Finding {
        key: "select-of-signed-var",
        what: "JIT and cc treat a bit/part select of a signed variable as signed (sign-extend it in a signed context); selects are unsigned (LRM 11.8.1)",
        hit: |m, n| match n.e {
            Expr::Ref(r) if !matches!(r.sel, Sel::None) => ref_base_ty(m, r).signed,
            _ => false,
        },
    },
    Finding {
        key: "fill-literal-signedness",
        what: "'0 / '1 do not make the expression unsigned (LRM 5.7.1: unsized single-bit literals are unsigned)",
        hit: |_, n| matches!(n.e, Expr::Lit(Lit::AllOne | Lit::AllZero)),
    },
    Finding {
        key: "wide-unary-1bit",
        what: "JIT: ! and reduction operators evaluated into a context wider than 128 bits give the inverted / wrong bit",
        hit: |_, n| match n.e {
            Expr::Un(op, _) => (op.is_reduction() || *op == UnOp::LogNot) && n.ctx.w > 128,
            Expr::Inside(_, _, true) => n.ctx.w > 128,
            Expr::Bin(op, ..) if op.is_logical() => n.ctx.w > 128,
            _ => false,
        },
    },
    Finding {
        key: "wide-unary-sign-extension",
        what: "JIT (context wider than 128 bits) and cc (wider than 64 bits): unary + - ~ zero-extend a signed operand",
        hit: |m, n| match n.e {
            Expr::Un(UnOp::Plus | UnOp::Neg | UnOp::BitNot, a) => n.ctx.w > 64 && n.ctx.signed && ty_of(m, a).w < n.ctx.w,
            _ => false,
        },
    },
    Finding {
        key: "jit-signed-narrowing-store",
        what: "JIT: a bitwise operator or if / case expression over signed operands of different widths stored into a narrower target is not masked to the target width (the sign-extended operand leaks above it)",
        hit: |m, n| {
            let ops: Vec<&Expr> = match n.e {
                Expr::Bin(BinOp::And | BinOp::Or | BinOp::Xor | BinOp::Xnor, a, b) | Expr::If(_, a, b) => vec![a, b],
                Expr::Case(_, arms, d) => arms.iter().map(|x| &x.1).chain(std::iter::once(&**d)).collect(),
                _ => return false,
            };
            n.ctx.signed && ops.iter().any(|a| ty_of(m, a).w != ty_of(m, ops[0]).w || ty_of(m, a).w < n.ctx.w) && (!n.root || n.dest_w < n.ctx.w)
        },
    },
    Finding {
        key: "dynamic-part-select",
        what: "JIT and cc: a part select with a run-time index (`[i+:w]`, `[i-:w]`, `[i step w]`) returns bits above `w` (not masked to the select width), or panics inside Cranelift lowering (index out of bounds) for wide bases",
        hit: |_, n| match n.e {
            Expr::Ref(r) => match &r.sel {
                Sel::PlusC(i, _) | Sel::MinusC(i, _) | Sel::Step(i, _) => !matches!(**i, Expr::Lit(_)),
                _ => false,
            },
            _ => false,
        },
    },
    Finding {
        key: "cc-xnor-extension",
        what: "cc: `~^` only computes the low 64 bits of a wider context and zero-extends signed operands",
        hit: |_, n| matches!(n.e, Expr::Bin(BinOp::Xnor, ..)) && (n.ctx.w > 64 || n.ctx.signed),
    },
    Finding {
        key: "cc-wide-signed-bitwise",
        what: "cc: & | ^ in a signed context wider than 64 bits do not sign-extend a narrower operand past 64 bits",
        hit: |m, n| match n.e {
            Expr::Bin(BinOp::And | BinOp::Or | BinOp::Xor, a, b) => n.ctx.signed && n.ctx.w > 64 && (ty_of(m, a).w < n.ctx.w || ty_of(m, b).w < n.ctx.w),
            _ => false,
        },
    },
    Finding {
        key: "jit-compare-signed-1bit",
        what: "JIT: a comparison of two signed 1-bit operands stores an all-ones word instead of 1",
        hit: |m, n| match n.e {
            Expr::Bin(op, a, b) if op.is_compare() => {
                let (ta, tb) = (ty_of(m, a), ty_of(m, b));
                ta.signed && tb.signed && ta.w.min(tb.w) == 1
            }
            _ => false,
        },
    },
    Finding {
        key: "comptime-conditional-signed-arms",
        what: "compile-time evaluation: a signed arm of an if / case / switch expression is sign-extended even when the expression (other arm or surrounding operator unsigned) is unsigned",
        hit: |m, n| {
            let arms: Vec<&Expr> = match n.e {
                Expr::If(_, a, b) => vec![a, b],
                Expr::Case(_, arms, d) => arms.iter().map(|x| &x.1).chain(std::iter::once(&**d)).collect(),
                Expr::Switch(arms, d) => arms.iter().map(|x| &x.1).chain(std::iter::once(&**d)).collect(),
                _ => return false,
            };
            n.in_ctx && !n.ctx.signed && arms.iter().any(|a| ty_of(m, a).signed)
        },
    },
    Finding {
        key: "cc-wide-signed-compare",
        what: "cc: a comparison of signed operands wider than 64 bits gives the wrong answer",
        hit: |m, n| match n.e {
            Expr::Bin(op, a, b) if op.is_compare() => {
                let (ta, tb) = (ty_of(m, a), ty_of(m, b));
                ta.signed && tb.signed && ta.w.max(tb.w) > 64
            }
            _ => false,
        },
    },
    Finding {
        key: "case-expression-priority",
        what: "case expression whose arms overlap (same value or overlapping ranges in two arms): the engines and compile-time evaluation return a later matching arm, the emitted nested `?:` returns the first",
        hit: |_, n| match n.e {
            Expr::Case(_, arms, _) => {
                let mut seen: Vec<(num_bigint::BigUint, num_bigint::BigUint, usize)> = vec![];
                let lit = |e: &Expr| match e {
                    Expr::Lit(Lit::Sized { val, .. }) => Some(val.clone()),
                    Expr::Lit(Lit::Dec(n)) => Some(num_bigint::BigUint::from(*n)),
                    _ => None,
                };
                for (ai, (items, _)) in arms.iter().enumerate() {
                    for it in items {
                        let iv = match it {
                            RangeItem::Val(v) => lit(v).map(|x| (x.clone(), x)),
                            RangeItem::Incl(a, b) => lit(a).zip(lit(b)),
                            RangeItem::Excl(a, b) => lit(a).zip(lit(b)).map(|(a, b)| (a, if b > num_bigint::BigUint::from(0u32) { b - 1u32 } else { b })),
                        };
                        let Some((lo, hi)) = iv else {
                            return true; // non-literal item: overlap cannot be excluded
                        };
                        if seen.iter().any(|(l, h, a)| *a != ai && !(hi < *l || lo > *h)) {
                            return true;
                        }
                        seen.push((lo, hi, ai));
                    }
                }
                false
            }
            _ => false,
        },
    },
    Finding {
        key: "shift-amount-wider-than-64",
        what: "JIT and cc: a shift whose amount operand is wider than 64 bits ignores the high words of the amount",
        hit: |m, n| match n.e {
            Expr::Bin(op, _, b) if op.is_shift() => ty_of(m, b).w > 64,
            _ => false,
        },
    },
    Finding {
        key: "switch-expression-priority",
        what: "switch expression: with constant conditions or constant arm values the 2-state engines (and partly the 4-state ones) do not return the first matching arm",
        hit: |_, n| matches!(n.e, Expr::Switch(..)),
    },
    Finding {
        key: "jit-pow-signed-base",
        what: "JIT: `**` with a signed base gives a wrong value",
        hit: |_, n| matches!(n.e, Expr::Bin(BinOp::Pow, ..)) && n.ctx.signed,
    },
    Finding {
        key: "wide-shr-of-signed-operand",
        what: "JIT and cc: `>>` in a signed context wider than 64 bits (sign-extended operand, logical shift) fills or extends wrongly",
        hit: |_, n| matches!(n.e, Expr::Bin(BinOp::Shr, ..)) && n.ctx.signed && n.ctx.w > 64,
    },
    Finding {
        key: "cc-wide-shift-sign-extension",
        what: "cc: `<<` `<<<` `>>>` in a signed context wider than 64 bits do not sign-extend a narrower left operand (the result is cut at 64 bits)",
        hit: |m, n| match n.e {
            Expr::Bin(BinOp::Shl | BinOp::AShl | BinOp::AShr, a, _) => n.ctx.signed && n.ctx.w > 64 && ty_of(m, a).w < n.ctx.w,
            _ => false,
        },
    },
    Finding {
        key: "cranelift-panic-wide-ternary",
        what: "JIT and cc: an if / case expression in a context wider than 64 bits with an arm narrower than the context panics inside Cranelift lowering (`Option::unwrap()` on `None`, select on i128)",
        hit: |m, n| {
            let arms: Vec<&Expr> = match n.e {
                Expr::If(_, a, b) => vec![a, b],
                Expr::Case(_, arms, d) => arms.iter().map(|x| &x.1).chain(std::iter::once(&**d)).collect(),
                Expr::Switch(arms, d) => arms.iter().map(|x| &x.1).chain(std::iter::once(&**d)).collect(),
                _ => return false,
            };
            n.ctx.w > 64 && arms.iter().any(|a| ty_of(m, a).w < n.ctx.w)
        },
    },
    Finding {
        key: "wide-copy-shares-load",
        what: "JIT and cc: `assign o = v;` copying a variable wider than 64 bits into a target of another width makes other expressions of the module that read `v` see a wrongly extended / shifted value (the load is shared; shows as `interference/*`: the outputs are right when each is alone in a module)",
        hit: |m, n| match n.e {
            Expr::Ref(r) => n.root && matches!(r.sel, Sel::None) && r.idx.is_none() && r.field.is_none() && ty_of(m, n.e).w > 64 && n.dest_w != ty_of(m, n.e).w,
            _ => false,
        },
    },
    Finding {
        key: "cranelift-panic-signed-compare-in-wide-context",
        what: "JIT: a comparison of signed operands used as an operand in a context wider than 64 bits (`~(a <: b)` into 70 bits) panics inside Cranelift lowering (`Option::unwrap()` on `None`)",
        hit: |m, n| match n.e {
            Expr::Bin(op, a, b) if op.is_compare() => n.in_ctx && !n.root && n.ctx.w > 64 && ty_of(m, a).signed && ty_of(m, b).signed,
            _ => false,
        },
    },
    Finding {
        key: "cranelift-panic-reduction-xor-4state",
        what: "JIT 4-state: ^x / ~^x stored into a target wider than 64 bits panics inside Cranelift lowering (select on i128)",
        hit: |_, n| matches!(n.e, Expr::Un(UnOp::RedXor | UnOp::RedXnor, _)) && n.ctx.w > 64,
    },
    Finding {
        key: "unsigned-cast-interior-evaluated-unsigned",
        what: "$unsigned(<signed expression>): every engine evaluates the interior as unsigned (operands zero-extended; `$unsigned(a + b)` with a = 8'sh01, b = 1'sh1 gives 2, LRM: 0) — the operand of $unsigned is self-determined with its own signedness",
        hit: |m, n| matches!(n.e, Expr::Unsigned(a) if !matches!(**a, Expr::Ref(_) | Expr::Lit(_)) && ty_of(m, a).signed),
    },
    Finding {
        key: "cc-wide-shift-amount-truncated-to-32-bits",
        what: "cc: a shift in a context wider than 64 bits uses only the low 32 bits of the amount (`a >> b` into 257 bits with b = 40'h4000000000 returns a unshifted)",
        hit: |m, n| match n.e {
            Expr::Bin(op, _, b) if op.is_shift() => n.ctx.w > 64 && ty_of(m, b).w > 32,
            _ => false,
        },
    },
    Finding {
        key: "comptime-inside-operand-width",
        what: "compile-time evaluation of `inside e {items}` evaluates e at its own width instead of the width it shares with a wider item (`inside (a - b) {32'h0..=32'h7}` with 4-bit a < b gives 1; the engines and the emitted SV give 0)",
        hit: |m, n| match n.e {
            Expr::Inside(x, items, _) => {
                let xw = ty_of(m, x).w;
                !matches!(**x, Expr::Ref(_) | Expr::Lit(_))
                    && items.iter().any(|i| match i {
                        RangeItem::Val(v) => ty_of(m, v).w > xw,
                        RangeItem::Incl(a, b) | RangeItem::Excl(a, b) => ty_of(m, a).w > xw || ty_of(m, b).w > xw,
                    })
            }
            _ => false,
        },
    },
    Finding {
        key: "const-fold-self-determined",
        what: "JIT: an operator over constants is folded at its self-determined width / sign instead of the context's",
        hit: |m, n| match n.e {
            Expr::Un(..) | Expr::Bin(..) => n.in_ctx && is_const_expr(m, n.e) && n.ctx.w > ty_of(m, n.e).w,
            _ => false,
        },
    },
];

/// Known findings that are not a property of one expression (the generator
/// avoids them by construction, a check classifies them by other means).
pub const MODULE_LEVEL_FINDINGS: &[(&str, &str)] = &[
    (
        "signed-cast-shares-signedness",
        "JIT and cc: a variable read both as `$signed(v)` and plain in one module is loaded once; the plain use then sees a signed value (arithmetic `>>`, sign extension)",
    ),
    (
        "signed-cast-at-compile-time",
        "compile-time evaluation ignores `$signed` / `$unsigned` (the value keeps the operand's signedness)",
    ),
    (
        "ff-array-dynamic-index",
        "an unpacked array driven by an always_ff and read with a run-time index: build_ir fails with `unsupported description` in the default mode or under disable_ff_opt (the other mode builds it)",
    ),
];

/// Keys added after other checks started to depend on the choice-vector →
/// design mapping of `GenCfg::default()`: they are NOT in the default `avoid`
/// set (a check that wants them avoided inserts them into its own `GenCfg`).
pub const NON_DEFAULT: &[&str] = &["unsigned-cast-interior-evaluated-unsigned", "cc-wide-shift-amount-truncated-to-32-bits", "comptime-inside-operand-width"];

/// Known findings about an assignment as a whole: (key, description).
pub const ASSIGN_FINDINGS: &[(&str, &str)] = &[
    (
        "partial-assign-wide-rhs",
        "an assignment to a bit/part select, struct field or array element whose right-hand side is wider than 64 bits: the 4-state interpreter (and in some cases the 2-state one) stores 0 instead of the low bits; the JIT panics (`Option::unwrap()` on `None`) for a dynamically indexed array element",
    ),
    (
        "jit-panic-wide-case-range",
        "JIT: a case statement whose selector is wider than 64 bits with a range item (`a..b`) panics inside Cranelift lowering (index out of bounds)",
    ),
];

/// Keys of the statement-level findings that `s` itself (not its
/// sub-statements) matches.
pub fn stmt_hits(m: &Module, s: &Stmt) -> Vec<&'static str> {
    let mut out = vec![];
    match s {
        Stmt::Assign { lhs, rhs, .. } => {
            let partial = !matches!(lhs.sel, Sel::None) || lhs.field.is_some() || lhs.idx.is_some();
            out.extend(assign_hits(m, partial, 0, rhs));
        }
        Stmt::Case { sel, arms, .. } => {
            if ty_of(m, sel).w > 64 && arms.iter().any(|(items, _)| items.iter().any(|i| !matches!(i, RangeItem::Val(_)))) {
                out.push("jit-panic-wide-case-range");
            }
        }
        _ => {}
    }
    out
}

/// Keys of the assignment-level findings that `target = e` matches
/// (`partial`: the target is a select / struct field; `dest_w`: its width).
pub fn assign_hits(m: &Module, partial: bool, _dest_w: u32, e: &Expr) -> Vec<&'static str> {
    let mut out = vec![];
    if partial && ty_of(m, e).w > 64 {
        out.push("partial-assign-wide-rhs");
    }
    out
}

/// Keys of every finding some node of `e` (assigned to a `dest_w`-bit
/// target) matches, in `FINDINGS` order.
pub fn hits(m: &Module, e: &Expr, dest_w: u32) -> Vec<&'static str> {
    let mut out: Vec<&'static str> = vec![];
    let mut f = |m: &Module, n: &Node| {
        for fd in FINDINGS {
            if !out.contains(&fd.key) && (fd.hit)(m, n) {
                out.push(fd.key);
            }
        }
    };
    walk(m, e, dest_w, &mut f);
    let order = |k: &str| FINDINGS.iter().position(|f| f.key == k).unwrap_or(usize::MAX);
    out.sort_by_key(|k| order(k));
    out
}

/// Root-cause class of a failing expression: the first known finding it
/// matches, else `unclassified:<top operator>`.
pub fn classify(m: &Module, e: &Expr, dest_w: u32) -> String {
    match hits(m, e, dest_w).first() {
        Some(k) => k.to_string(),
        None => format!("unclassified:{}", top_op(e)),
    }
}

pub fn top_op(e: &Expr) -> String {
    match e {
        Expr::Lit(_) => "lit".into(),
        Expr::Ref(r) => {
            if matches!(r.sel, Sel::None) {
                "ref".into()
            } else {
                "select".into()
            }
        }
        Expr::EnumVal(..) => "enumval".into(),
        Expr::Un(op, _) => op.name().into(),
        Expr::Bin(op, ..) => op.name().into(),
        Expr::If(..) => "if".into(),
        Expr::Case(..) => "case".into(),
        Expr::Switch(..) => "switch".into(),
        Expr::Concat(_) => "concat".into(),
        Expr::Cast(..) => "cast".into(),
        Expr::Signed(_) => "$signed".into(),
        Expr::Unsigned(_) => "$unsigned".into(),
        Expr::Inside(..) => "inside".into(),
        Expr::Call(..) => "call".into(),
        Expr::Clog2(_) => "clog2".into(),
        Expr::Bits(_) => "bits".into(),
    }
}

/// `$signed(<unsigned operand>)` occurs in `e`: compile-time evaluation
/// ignores the cast (known finding `signed-cast-at-compile-time`), so the
/// compile-time oracle is blind for such expressions.
pub fn has_signed_cast_of_unsigned(m: &Module, e: &Expr) -> bool {
    let mut found = false;
    let mut f = |m: &Module, n: &Node| {
        match n.e {
            Expr::Signed(a) if !ty_of(m, a).signed => found = true,
            Expr::Unsigned(a) if ty_of(m, a).signed => found = true,
            _ => {}
        }
    };
    walk_ctx(m, e, Ctx { w: 1, signed: false }, false, &mut f);
    found
}
