//! Design IR: what the generator builds, the printer renders as Veryl and the
//! reference evaluator executes.  Everything is plain data (`Clone + Debug`).
//!
//! Naming: a *decl* is any named value of a module (port, `var`, `let`,
//! `param`, `const`, loop variable, function argument / local).  Expressions
//! refer to decls by index into `Module::decls`.

use num_bigint::BigUint;

pub type DeclId = usize;

/// Packed vector type: width in bits and signedness.
#[derive(Clone, Copy, Debug, PartialEq, Eq, Hash)]
pub struct Ty {
    pub w: u32,
    pub signed: bool,
}

impl Ty {
    pub const fn new(w: u32, signed: bool) -> Ty {
        Ty { w, signed }
    }
    pub const fn u(w: u32) -> Ty {
        Ty { w, signed: false }
    }
    pub const fn s(w: u32) -> Ty {
        Ty { w, signed: true }
    }
    pub const BIT: Ty = Ty { w: 1, signed: false };
}

/// How a decl's type is written in the source.
#[derive(Clone, Debug, PartialEq, Eq)]
pub enum TySyntax {
    /// `logic<w>` / `signed logic<w>` (`logic` when w == 1)
    Logic,
    /// `bit<w>` / `signed bit<w>` (2-state type)
    Bit,
    /// `u8 u16 u32 u64 i8 i16 i32 i64` (width/sign must match `Ty`)
    Fixed,
    /// `logic<P>` where `P` is the param/const decl whose value equals the width
    LogicOf(DeclId),
    /// a packed struct of the module (`Module::structs`)
    Struct(usize),
    /// an enum of the module (`Module::enums`)
    Enum(usize),
}

#[derive(Clone, Debug, PartialEq, Eq)]
pub enum DeclKind {
    Clock,
    Reset,
    Input,
    Output,
    Var,
    /// `let x: T = e;` — the defining expression lives in `Item::Let`
    Let,
    /// module parameter (`param P: T = default`); `actual` is the value this
    /// (specialised) module is evaluated with — the override of its instance
    Param,
    Const,
    /// loop variable of a `for` (emitted as `int`: 32-bit signed)
    LoopVar,
    /// function argument (input)
    FnArg,
    /// function-local `var`
    FnLocal,
}

#[derive(Clone, Debug)]
pub struct Decl {
    pub name: String,
    pub kind: DeclKind,
    /// packed type of one element (struct/enum: total width, unsigned unless enum base signed)
    pub ty: Ty,
    pub syntax: TySyntax,
    /// one unpacked dimension `[n]`
    pub array: Option<u32>,
    /// value of a `Param` / `Const` decl (already converted to `ty`);
    /// for `Param`: the value in effect (override), `default` is what the
    /// declaration prints
    pub value: Option<BigUint>,
    /// `Param`: declared default; `Const`: defining expression
    pub init: Option<Expr>,
}

#[derive(Clone, Debug)]
pub struct StructDef {
    pub name: String,
    /// first field = most significant
    pub fields: Vec<(String, Ty)>,
}

impl StructDef {
    pub fn width(&self) -> u32 {
        self.fields.iter().map(|f| f.1.w).sum()
    }
    /// (lsb offset, type) of field `i`
    pub fn field(&self, i: usize) -> (u32, Ty) {
        let below: u32 = self.fields[i + 1..].iter().map(|f| f.1.w).sum();
        (below, self.fields[i].1)
    }
}

#[derive(Clone, Debug)]
pub struct EnumDef {
    pub name: String,
    pub base: Ty,
    /// (variant name, value)
    pub variants: Vec<(String, u64)>,
    /// whether the declaration writes the values explicitly
    pub explicit: bool,
}

#[derive(Clone, Copy, Debug, PartialEq, Eq, Hash)]
pub enum UnOp {
    /// `+`
    Plus,
    /// `-`
    Neg,
    /// `~`
    BitNot,
    /// `!`
    LogNot,
    /// `&`
    RedAnd,
    /// `|`
    RedOr,
    /// `^`
    RedXor,
    /// `~&`
    RedNand,
    /// `~|`
    RedNor,
    /// `~^`
    RedXnor,
}

#[derive(Clone, Copy, Debug, PartialEq, Eq, Hash)]
pub enum BinOp {
    Add,
    Sub,
    Mul,
    Div,
    Rem,
    Pow,
    And,
    Or,
    Xor,
    Xnor,
    Shl,
    Shr,
    /// `<<<`
    AShl,
    /// `>>>`
    AShr,
    /// `<:`
    Lt,
    Le,
    /// `>:`
    Gt,
    Ge,
    Eq,
    Ne,
    /// `==?` (2-state: same as `==`)
    WEq,
    /// `!=?`
    WNe,
    LogAnd,
    LogOr,
}

pub const ALL_BINOPS: &[BinOp] = &[
    BinOp::Add,
    BinOp::Sub,
    BinOp::Mul,
    BinOp::Div,
    BinOp::Rem,
    BinOp::Pow,
    BinOp::And,
    BinOp::Or,
    BinOp::Xor,
    BinOp::Xnor,
    BinOp::Shl,
    BinOp::Shr,
    BinOp::AShl,
    BinOp::AShr,
    BinOp::Lt,
    BinOp::Le,
    BinOp::Gt,
    BinOp::Ge,
    BinOp::Eq,
    BinOp::Ne,
    BinOp::WEq,
    BinOp::WNe,
    BinOp::LogAnd,
    BinOp::LogOr,
];

pub const ALL_UNOPS: &[UnOp] = &[
    UnOp::Plus,
    UnOp::Neg,
    UnOp::BitNot,
    UnOp::LogNot,
    UnOp::RedAnd,
    UnOp::RedOr,
    UnOp::RedXor,
    UnOp::RedNand,
    UnOp::RedNor,
    UnOp::RedXnor,
];

impl BinOp {
    pub fn text(self) -> &'static str {
        use BinOp::*;
        match self {
            Add => "+",
            Sub => "-",
            Mul => "*",
            Div => "/",
            Rem => "%",
            Pow => "**",
            And => "&",
            Or => "|",
            Xor => "^",
            Xnor => "~^",
            Shl => "<<",
            Shr => ">>",
            AShl => "<<<",
            AShr => ">>>",
            Lt => "<:",
            Le => "<=",
            Gt => ">:",
            Ge => ">=",
            Eq => "==",
            Ne => "!=",
            WEq => "==?",
            WNe => "!=?",
            LogAnd => "&&",
            LogOr => "||",
        }
    }
    pub fn name(self) -> &'static str {
        use BinOp::*;
        match self {
            Add => "add",
            Sub => "sub",
            Mul => "mul",
            Div => "div",
            Rem => "rem",
            Pow => "pow",
            And => "and",
            Or => "or",
            Xor => "xor",
            Xnor => "xnor",
            Shl => "shl",
            Shr => "shr",
            AShl => "ashl",
            AShr => "ashr",
            Lt => "lt",
            Le => "le",
            Gt => "gt",
            Ge => "ge",
            Eq => "eq",
            Ne => "ne",
            WEq => "weq",
            WNe => "wne",
            LogAnd => "logand",
            LogOr => "logor",
        }
    }
    pub fn is_shift(self) -> bool {
        matches!(self, BinOp::Shl | BinOp::Shr | BinOp::AShl | BinOp::AShr)
    }
    pub fn is_compare(self) -> bool {
        use BinOp::*;
        matches!(self, Lt | Le | Gt | Ge | Eq | Ne | WEq | WNe)
    }
    pub fn is_logical(self) -> bool {
        matches!(self, BinOp::LogAnd | BinOp::LogOr)
    }
}

impl UnOp {
    pub fn text(self) -> &'static str {
        use UnOp::*;
        match self {
            Plus => "+",
            Neg => "-",
            BitNot => "~",
            LogNot => "!",
            RedAnd => "&",
            RedOr => "|",
            RedXor => "^",
            RedNand => "~&",
            RedNor => "~|",
            RedXnor => "~^",
        }
    }
    pub fn name(self) -> &'static str {
        use UnOp::*;
        match self {
            Plus => "uplus",
            Neg => "neg",
            BitNot => "bitnot",
            LogNot => "lognot",
            RedAnd => "redand",
            RedOr => "redor",
            RedXor => "redxor",
            RedNand => "rednand",
            RedNor => "rednor",
            RedXnor => "redxnor",
        }
    }
    pub fn is_reduction(self) -> bool {
        use UnOp::*;
        matches!(self, RedAnd | RedOr | RedXor | RedNand | RedNor | RedXnor)
    }
}

#[derive(Clone, Copy, Debug, PartialEq, Eq)]
pub enum Base {
    Hex,
    Dec,
    Bin,
    Oct,
}

#[derive(Clone, Debug, PartialEq, Eq)]
pub enum Lit {
    /// `W'hX`, `W'shX`, `W'd…`, `W'b…`, `W'o…`
    Sized { w: u32, signed: bool, base: Base, val: BigUint },
    /// plain decimal `123` (< 2^31): 32-bit signed (LRM 5.7.1)
    Dec(u32),
    /// `'0` — context-width zeros
    AllZero,
    /// `'1` — context-width ones
    AllOne,
}

/// Constant index inside a select: a number, `msb - k` or `lsb + k`.
#[derive(Clone, Copy, Debug, PartialEq, Eq)]
pub enum CIdx {
    Num(u32),
    /// `msb` (k = 0) or `msb - k`
    Msb(u32),
    /// `lsb` (k = 0) or `lsb + k`
    Lsb(u32),
}

#[derive(Clone, Debug)]
pub enum Sel {
    None,
    /// `[i]` constant
    BitC(CIdx),
    /// `[e]` dynamic
    BitD(Box<Expr>),
    /// `[hi:lo]`
    Range(CIdx, CIdx),
    /// `[e+:w]`
    PlusC(Box<Expr>, u32),
    /// `[e-:w]`
    MinusC(Box<Expr>, u32),
    /// `[e step w]` = `[e*w +: w]`
    Step(Box<Expr>, u32),
}

/// A reference to (part of) a decl: `name[idx].field[sel]`.
#[derive(Clone, Debug)]
pub struct Ref {
    pub decl: DeclId,
    /// unpacked array index
    pub idx: Option<Box<Expr>>,
    /// struct field index
    pub field: Option<usize>,
    pub sel: Sel,
}

impl Ref {
    pub fn whole(decl: DeclId) -> Ref {
        Ref {
            decl,
            idx: None,
            field: None,
            sel: Sel::None,
        }
    }
}

#[derive(Clone, Debug)]
pub enum CastTo {
    /// `as N`
    Width(u32),
    /// `as u8` … `as i64`
    Fixed(Ty),
    /// `as EnumName`
    Enum(usize),
    /// `as StructName`
    Struct(usize),
}

/// item of `inside` / `case`: a value, `lo..hi` (exclusive) or `lo..=hi`
#[derive(Clone, Debug)]
pub enum RangeItem {
    Val(Expr),
    Excl(Expr, Expr),
    Incl(Expr, Expr),
}

#[derive(Clone, Debug)]
pub enum Expr {
    Lit(Lit),
    Ref(Ref),
    /// enum variant `E::V`
    EnumVal(usize, usize),
    Un(UnOp, Box<Expr>),
    Bin(BinOp, Box<Expr>, Box<Expr>),
    /// `if c ? a : b`
    If(Box<Expr>, Box<Expr>, Box<Expr>),
    /// `case sel { items: e, …, default: e }`
    Case(Box<Expr>, Vec<(Vec<RangeItem>, Expr)>, Box<Expr>),
    /// `switch { c, c: e, …, default: e }`
    Switch(Vec<(Vec<Expr>, Expr)>, Box<Expr>),
    /// `{a, b repeat n, …}`
    Concat(Vec<(Expr, Option<u32>)>),
    /// `e as …`
    Cast(Box<Expr>, CastTo),
    /// `$signed(e)`
    Signed(Box<Expr>),
    /// `$unsigned(e)`
    Unsigned(Box<Expr>),
    /// `inside e {…}` (negate = `outside`)
    Inside(Box<Expr>, Vec<RangeItem>, bool),
    /// call of `Module::funcs[i]`
    Call(usize, Vec<Expr>),
    /// `$clog2(e)` of a constant
    Clog2(Box<Expr>),
    /// `$bits(decl)`
    Bits(DeclId),
}

impl Expr {
    pub fn var(d: DeclId) -> Expr {
        Expr::Ref(Ref::whole(d))
    }
    pub fn lit_u(w: u32, v: BigUint) -> Expr {
        Expr::Lit(Lit::Sized {
            w,
            signed: false,
            base: Base::Hex,
            val: v,
        })
    }
    pub fn lit(t: Ty, v: BigUint) -> Expr {
        Expr::Lit(Lit::Sized {
            w: t.w,
            signed: t.signed,
            base: Base::Hex,
            val: v,
        })
    }
    pub fn bin(op: BinOp, a: Expr, b: Expr) -> Expr {
        Expr::Bin(op, Box::new(a), Box::new(b))
    }
    pub fn un(op: UnOp, a: Expr) -> Expr {
        Expr::Un(op, Box::new(a))
    }
}

#[derive(Clone, Copy, Debug, PartialEq, Eq)]
pub enum AssignOp {
    Set,
    /// `+=` etc. (`x op= e` ≡ `x = x op e`)
    Op(BinOp),
}

#[derive(Clone, Debug)]
pub enum Stmt {
    Assign {
        lhs: Ref,
        op: AssignOp,
        rhs: Expr,
    },
    /// `{a, b} = e;`
    AssignConcat {
        lhs: Vec<Ref>,
        rhs: Expr,
    },
    If {
        cond: Expr,
        then: Vec<Stmt>,
        els: Vec<Stmt>,
    },
    Case {
        sel: Expr,
        arms: Vec<(Vec<RangeItem>, Vec<Stmt>)>,
        default: Option<Vec<Stmt>>,
    },
    Switch {
        arms: Vec<(Vec<Expr>, Vec<Stmt>)>,
        default: Option<Vec<Stmt>>,
    },
    /// `for i in lo..hi { … }` (`rev` adds the keyword `rev`; `incl` = `..=`; step ≥ 1, `rev` only with step 1)
    For {
        var: DeclId,
        lo: u32,
        hi: u32,
        incl: bool,
        rev: bool,
        step: u32,
        body: Vec<Stmt>,
        /// `break` when this condition holds at the top of the body
        break_if: Option<Expr>,
    },
    /// `$display(fmt, args…)`
    Display {
        fmt: String,
        args: Vec<Expr>,
    },
    /// `return e;` (functions only, last statement)
    Return(Expr),
}

#[derive(Clone, Debug)]
pub struct Func {
    pub name: String,
    pub args: Vec<DeclId>,
    pub locals: Vec<DeclId>,
    pub ret: Ty,
    pub body: Vec<Stmt>,
}

#[derive(Clone, Debug)]
pub enum Conn {
    /// input port ← expression
    In(Expr),
    /// output port → whole decl of the parent
    Out(DeclId),
}

#[derive(Clone, Debug)]
pub enum Item {
    /// `assign lhs = rhs;`
    Assign { lhs: Ref, rhs: Expr },
    /// `let name: T = rhs;`
    Let { decl: DeclId, rhs: Expr },
    AlwaysComb(Vec<Stmt>),
    /// `always_ff { if_reset { reset } else { body } }`; `explicit` prints `(clk, rst)`
    AlwaysFf {
        reset: Vec<Stmt>,
        body: Vec<Stmt>,
        explicit: bool,
    },
    /// `inst name: Module #(P: v) (port: conn, …);`
    Inst {
        name: String,
        module: usize,
        /// (param decl of the child, override expression — a constant)
        params: Vec<(DeclId, Expr)>,
        /// (port decl of the child, connection)
        conns: Vec<(DeclId, Conn)>,
    },
}

#[derive(Clone, Debug, Default)]
pub struct Module {
    pub name: String,
    pub decls: Vec<Decl>,
    pub structs: Vec<StructDef>,
    pub enums: Vec<EnumDef>,
    pub funcs: Vec<Func>,
    /// in dependency order: an item reads only what earlier items (or
    /// flip-flops / inputs) define.  The printer may permute them.
    pub items: Vec<Item>,
    /// printing order of `items` (a permutation); empty = as is
    pub print_order: Vec<usize>,
}

impl Module {
    pub fn ports(&self) -> impl Iterator<Item = (DeclId, &Decl)> {
        self.decls.iter().enumerate().filter(|(_, d)| {
            matches!(d.kind, DeclKind::Clock | DeclKind::Reset | DeclKind::Input | DeclKind::Output)
        })
    }
    pub fn inputs(&self) -> Vec<DeclId> {
        (0..self.decls.len()).filter(|&i| self.decls[i].kind == DeclKind::Input).collect()
    }
    pub fn outputs(&self) -> Vec<DeclId> {
        (0..self.decls.len()).filter(|&i| self.decls[i].kind == DeclKind::Output).collect()
    }
    pub fn clock(&self) -> Option<DeclId> {
        self.decls.iter().position(|d| d.kind == DeclKind::Clock)
    }
    pub fn reset(&self) -> Option<DeclId> {
        self.decls.iter().position(|d| d.kind == DeclKind::Reset)
    }
    pub fn has_ff(&self) -> bool {
        self.items.iter().any(|i| matches!(i, Item::AlwaysFf { .. }))
    }
}

/// A whole source file: modules (children first), `top` is the last one
/// unless stated otherwise.
#[derive(Clone, Debug, Default)]
pub struct Design {
    pub modules: Vec<Module>,
    pub top: usize,
}

impl Design {
    pub fn top(&self) -> &Module {
        &self.modules[self.top]
    }
}
