//! Driver for the simulator under test (`veryl_simulator`): parse → analyze →
//! `build_ir(&ir, top, &config)` → `Simulator` → set / step / get, exactly the
//! way `/repo/crates/simulator/src/tests.rs` does it.
//!
//! The analyzer keeps its tables in thread-locals, so an [`Analyzed`] must be
//! created and used on one thread that does no other analysis (vcore's
//! `ctx.run` gives every case a fresh thread).

use num_bigint::BigUint;
use num_traits::Zero;
use veryl_analyzer::ir as air;
use veryl_analyzer::{Analyzer, Context, symbol_table};
use veryl_metadata::Metadata;
use veryl_parser::Parser;
use veryl_simulator::ir::{Event, ModuleVariables, Value, VarId, build_ir, read_native_value};
use veryl_simulator::{Config, Simulator, output_buffer};

/// One port as the driver needs it.
#[derive(Clone, Debug, PartialEq, Eq)]
pub struct PortSpec {
    pub name: String,
    pub width: usize,
}

/// One simulation step: drive the inputs, then take one clock edge (with the
/// reset asserted around it when `reset` is set), then sample every output.
#[derive(Clone, Debug)]
pub struct StimStep {
    pub reset: bool,
    /// parallel to `Stimulus::inputs`
    pub values: Vec<BigUint>,
}

#[derive(Clone, Debug, Default)]
pub struct Stimulus {
    /// clock port; `None` = purely combinational design, stepped with the
    /// synthetic clock event like the simulator's own comb tests
    pub clock: Option<String>,
    pub reset: Option<String>,
    pub inputs: Vec<PortSpec>,
    pub outputs: Vec<PortSpec>,
    pub steps: Vec<StimStep>,
}

/// Value of one output after one step (`xz` = mask of X/Z bits, always 0 on
/// the 2-state engines).
#[derive(Clone, Debug, PartialEq, Eq)]
pub struct Sample {
    pub value: BigUint,
    pub xz: BigUint,
}

#[derive(Clone, Debug, Default)]
pub struct Trace {
    /// `steps[i][j]` = output `j` (order of `Stimulus::outputs`) after step `i`
    pub steps: Vec<Vec<Sample>>,
    /// text produced by `$display` / `$write` during the run
    pub display: String,
    /// some variable anywhere in the hierarchy showed X/Z at some sample point
    pub any_xz: bool,
    /// (compiled, total) top-level statements, `Ir::jit_stats`
    pub jit_stats: (usize, usize),
}

/// An analysed source text, from which simulators for any `Config` are built.
pub struct Analyzed {
    pub ir: air::Ir,
    /// rendered warnings (accepted designs may have them)
    pub warnings: Vec<String>,
}

/// Diagnostics of a rejected text.
#[derive(Clone, Debug)]
pub struct Rejected {
    pub stage: &'static str,
    /// (code, message)
    pub errors: Vec<(String, String)>,
}

impl std::fmt::Display for Rejected {
    fn fmt(&self, f: &mut std::fmt::Formatter<'_>) -> std::fmt::Result {
        write!(f, "{}:", self.stage)?;
        for (c, m) in &self.errors {
            write!(f, " [{c}] {m};")?;
        }
        Ok(())
    }
}

fn diag_code(e: &veryl_analyzer::AnalyzerError) -> String {
    // Debug form starts with the variant name
    let s = format!("{e:?}");
    s.split(|c: char| !c.is_alphanumeric()).next().unwrap_or("").to_string()
}

impl Analyzed {
    /// Parse and analyse `text` (one file, project `prj`).  Errors reject the
    /// text; warnings are kept.
    pub fn new(text: &str) -> Result<Analyzed, Rejected> {
        // a panic inside the analyzer is a defect of its own (C11), not of
        // the property a caller is checking: report it as a rejection
        match std::panic::catch_unwind(|| Self::new_unguarded(text)) {
            Ok(r) => r,
            Err(e) => {
                let msg = if let Some(s) = e.downcast_ref::<&str>() {
                    s.to_string()
                } else if let Some(s) = e.downcast_ref::<String>() {
                    s.clone()
                } else {
                    "panic".into()
                };
                Err(Rejected {
                    stage: "analyzer-panic",
                    errors: vec![("panic".into(), msg)],
                })
            }
        }
    }

    fn new_unguarded(text: &str) -> Result<Analyzed, Rejected> {
        symbol_table::clear();
        let metadata = Metadata::create_default("prj").map_err(|e| Rejected {
            stage: "metadata",
            errors: vec![("metadata".into(), e.to_string())],
        })?;
        let parser = Parser::parse(text, &"").map_err(|e| Rejected {
            stage: "parse",
            errors: vec![("parse".into(), e.to_string())],
        })?;
        let analyzer = Analyzer::new(&metadata);
        let mut context = Context::default();
        let mut errors = vec![];
        let mut ir = air::Ir::default();
        errors.append(&mut analyzer.analyze_pass1("prj", &parser.veryl));
        errors.append(&mut Analyzer::analyze_post_pass1());
        errors.append(&mut analyzer.analyze_pass2(&parser.veryl, &mut context, Some(&mut ir)));
        errors.append(&mut Analyzer::analyze_post_pass2(&ir));
        let mut errs = vec![];
        let mut warnings = vec![];
        for e in &errors {
            if e.is_error() {
                errs.push((diag_code(e), e.to_string()));
            } else {
                warnings.push(format!("[{}] {}", diag_code(e), e));
            }
        }
        if !errs.is_empty() {
            return Err(Rejected {
                stage: "analyze",
                errors: errs,
            });
        }
        Ok(Analyzed { ir, warnings })
    }

    /// Build a simulator for `top` under `config`.
    pub fn simulator(&self, top: &str, config: &Config) -> Result<Simulator, String> {
        let ir = build_ir(&self.ir, top.into(), config).map_err(|e| format!("build_ir: {e}"))?;
        Ok(Simulator::new(ir, None))
    }

    /// Run `stim` on `top` under `config`.
    pub fn run(&self, top: &str, config: &Config, stim: &Stimulus) -> Result<Trace, String> {
        let mut sim = self.simulator(top, config)?;
        run_on(&mut sim, config, stim)
    }
}

fn to_value(v: &BigUint, width: usize) -> Value {
    Value::new_biguint(v.clone(), width, false)
}

fn tree_has_xz(m: &ModuleVariables) -> bool {
    for var in m.variables.values() {
        for &ptr in &var.current_values {
            let v = unsafe { read_native_value(ptr, var.native_bytes, true, var.width as u32, false) };
            if v.is_xz() {
                return true;
            }
        }
    }
    m.children.iter().any(tree_has_xz)
}

/// Drive an already built simulator.
pub fn run_on(sim: &mut Simulator, config: &Config, stim: &Stimulus) -> Result<Trace, String> {
    let clk = match &stim.clock {
        Some(c) => sim.get_clock(c).ok_or_else(|| format!("no clock port {c}"))?,
        None => Event::Clock(VarId::SYNTHETIC),
    };
    let rst = match &stim.reset {
        Some(r) => Some(sim.get_reset(r).ok_or_else(|| format!("no reset port {r}"))?),
        None => None,
    };
    let mut trace = Trace {
        jit_stats: sim.ir.jit_stats(),
        ..Default::default()
    };
    output_buffer::enable();
    for st in &stim.steps {
        if st.values.len() != stim.inputs.len() {
            let _ = output_buffer::take();
            return Err("stimulus step has the wrong number of input values".into());
        }
        for (p, v) in stim.inputs.iter().zip(&st.values) {
            sim.set(&p.name, to_value(v, p.width));
        }
        match (&rst, st.reset) {
            (Some(r), true) => sim.step_reset(&clk, r),
            _ => sim.step(&clk),
        }
        let mut row = Vec::with_capacity(stim.outputs.len());
        for p in &stim.outputs {
            let Some(v) = sim.get(&p.name) else {
                let _ = output_buffer::take();
                return Err(format!("no output port {}", p.name));
            };
            if v.width() != p.width {
                let _ = output_buffer::take();
                return Err(format!("output {} has width {} (expected {})", p.name, v.width(), p.width));
            }
            row.push(Sample {
                value: v.payload().into_owned(),
                xz: v.mask_xz().into_owned(),
            });
        }
        if config.use_4state && !trace.any_xz {
            sim.ensure_comb_updated();
            if row.iter().any(|s| !s.xz.is_zero()) || tree_has_xz(&sim.ir.module_variables) {
                trace.any_xz = true;
            }
        }
        trace.steps.push(row);
    }
    trace.display = output_buffer::take();
    Ok(trace)
}

/// Convenience: analyse `veryl_text` and run one configuration.
pub fn run_trace(veryl_text: &str, top: &str, config: &Config, stim: &Stimulus) -> Result<Trace, String> {
    let a = Analyzed::new(veryl_text).map_err(|r| r.to_string())?;
    a.run(top, config, stim)
}

/// Short stable label of an engine configuration (`interp`, `jit`, `cc`,
/// `+noffopt`, `+4st`).
pub fn config_label(c: &Config) -> String {
    let mut s = if c.aot_c {
        "cc".to_string()
    } else if c.use_jit {
        "jit".to_string()
    } else {
        "interp".to_string()
    };
    if c.disable_ff_opt {
        s.push_str("+noffopt");
    }
    if c.use_4state {
        s.push_str("+4st");
    }
    s
}

/// `Config::all()` split into the variants that need no external compiler
/// and the `cc` ones.
pub fn engine_configs() -> (Vec<Config>, Vec<Config>) {
    let all = Config::all();
    let (cc, rest): (Vec<_>, Vec<_>) = all.into_iter().partition(|c| c.aot_c);
    (rest, cc)
}

/// Evaluate constant expressions at compile time through the analyzer: the
/// text must declare, in module `top`, output ports driven by constant
/// expressions; this helper is the run-time read-back of those constants
/// (one synthetic step on the interpreter).  See `c18` for the use.
pub fn read_outputs_once(a: &Analyzed, top: &str, config: &Config, outputs: &[PortSpec]) -> Result<Vec<Sample>, String> {
    let stim = Stimulus {
        clock: None,
        reset: None,
        inputs: vec![],
        outputs: outputs.to_vec(),
        steps: vec![StimStep {
            reset: false,
            values: vec![],
        }],
    };
    let mut t = a.run(top, config, &stim)?;
    Ok(t.steps.pop().unwrap_or_default())
}

/// Like [`Analyzed::run`], but samples the variables named by the
/// hierarchical `paths` (`v3`, `un7.v2`; element 0 of an array) after every
/// step, through `Simulator::get_var`.  `None` = no such variable in the
/// simulator's tree (e.g. optimised away).
pub fn run_deep(a: &Analyzed, top: &str, config: &Config, stim: &Stimulus, paths: &[String]) -> Result<Vec<Vec<Option<Sample>>>, String> {
    let mut sim = a.simulator(top, config)?;
    let clk = match &stim.clock {
        Some(c) => sim.get_clock(c).ok_or_else(|| format!("no clock port {c}"))?,
        None => Event::Clock(VarId::SYNTHETIC),
    };
    let rst = match &stim.reset {
        Some(r) => Some(sim.get_reset(r).ok_or_else(|| format!("no reset port {r}"))?),
        None => None,
    };
    output_buffer::enable();
    let mut out = vec![];
    for st in &stim.steps {
        for (p, v) in stim.inputs.iter().zip(&st.values) {
            sim.set(&p.name, to_value(v, p.width));
        }
        match (&rst, st.reset) {
            (Some(r), true) => sim.step_reset(&clk, r),
            _ => sim.step(&clk),
        }
        let row = paths
            .iter()
            .map(|p| {
                sim.get_var(p).map(|v| Sample {
                    value: v.payload().into_owned(),
                    xz: v.mask_xz().into_owned(),
                })
            })
            .collect();
        out.push(row);
    }
    let _ = output_buffer::take();
    Ok(out)
}
