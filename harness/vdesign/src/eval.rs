//! Reference evaluator over the design IR: IEEE 1800-2017 expression
//! semantics for 2-state values, written from the LRM (not from veryl).
//!
//! * §11.6 / Table 11-21: self-determined width of every expression form;
//! * §11.8.1: an expression is signed only if *all* its context-determined
//!   operands are signed; concatenation, selects, comparison and reduction
//!   results are unsigned; the right operand of a shift / `**` is
//!   self-determined and does not take part;
//! * §11.8.2: the (width, sign) of the outermost context is propagated down
//!   to every context-determined operand, each simple operand is extended
//!   to it *before* the operation — sign-extended only if the propagated
//!   type is signed;
//! * §11.4: wrap-around at the context width, `/` truncates toward zero, `%`
//!   takes the sign of the dividend, Table 11-4 for `**`, shifts with an
//!   unsigned amount, `>>>` fills with the sign bit only in a signed context;
//! * §6.24.1: a size cast `N'(e)` yields what an N-bit variable would hold
//!   after `e` was assigned to it, signedness of `e` passes through; casts to
//!   a type take that type;
//! * §10.7: an assignment evaluates the right-hand side at
//!   max(width(lhs), width(rhs)) and truncates.
//!
//! Operations whose result the LRM defines as X (division / modulus by zero,
//! out-of-range selects, `0 ** negative`, reads of a not-yet-reset flip-flop)
//! yield an *unknown* value (`Val::x`); unknown-ness is propagated
//! conservatively and a comparison must skip unknown outputs.

use crate::ir::*;
use num_bigint::{BigInt, BigUint, Sign};
use num_traits::{One, Zero};

/// A 2-state value of `w` bits, or unknown (`x`) where SV would give X.
#[derive(Clone, Debug, PartialEq, Eq)]
pub struct Val {
    pub w: u32,
    pub v: BigUint,
    pub x: bool,
}

pub fn mask(w: u32) -> BigUint {
    (BigUint::one() << w) - BigUint::one()
}

impl Val {
    pub fn new(w: u32, v: BigUint) -> Val {
        Val {
            w,
            v: v & mask(w),
            x: false,
        }
    }
    pub fn unknown(w: u32) -> Val {
        Val {
            w,
            v: BigUint::zero(),
            x: true,
        }
    }
    pub fn from_u64(w: u32, v: u64) -> Val {
        Val::new(w, BigUint::from(v))
    }
    pub fn bit(b: bool) -> Val {
        Val::from_u64(1, b as u64)
    }
    pub fn is_true(&self) -> bool {
        !self.v.is_zero()
    }
    pub fn msb(&self) -> bool {
        self.w > 0 && self.v.bit((self.w - 1) as u64)
    }
    /// two's-complement reading
    pub fn as_signed(&self) -> BigInt {
        if self.msb() {
            BigInt::from(self.v.clone()) - (BigInt::one() << self.w)
        } else {
            BigInt::from(self.v.clone())
        }
    }
    pub fn from_signed(w: u32, i: &BigInt) -> Val {
        let m = BigInt::one() << w;
        let mut r = i % &m;
        if r.sign() == Sign::Minus {
            r += &m;
        }
        Val::new(w, r.to_biguint().unwrap())
    }
    /// extend (or truncate) to `w` bits; `signed` = sign-extend
    pub fn resize(&self, w: u32, signed: bool) -> Val {
        if self.x {
            return Val::unknown(w);
        }
        if w <= self.w {
            return Val::new(w, self.v.clone());
        }
        if signed && self.msb() {
            let ext = mask(w) ^ mask(self.w);
            Val::new(w, &self.v | ext)
        } else {
            Val::new(w, self.v.clone())
        }
    }
}

/// Self-determined type (§11.6, §11.8.1) of an expression of module `m`.
pub fn ty_of(m: &Module, e: &Expr) -> Ty {
    match e {
        Expr::Lit(l) => match l {
            Lit::Sized { w, signed, .. } => Ty::new(*w, *signed),
            Lit::Dec(_) => Ty::s(32),
            Lit::AllZero | Lit::AllOne => Ty::u(1),
        },
        Expr::Ref(r) => ref_ty(m, r),
        Expr::EnumVal(e, _) => m.enums[*e].base,
        Expr::Un(op, a) => match op {
            UnOp::Plus | UnOp::Neg | UnOp::BitNot => ty_of(m, a),
            _ => Ty::BIT,
        },
        Expr::Bin(op, a, b) => {
            if op.is_compare() || op.is_logical() {
                Ty::BIT
            } else if op.is_shift() || *op == BinOp::Pow {
                ty_of(m, a)
            } else {
                let (ta, tb) = (ty_of(m, a), ty_of(m, b));
                Ty::new(ta.w.max(tb.w), ta.signed && tb.signed)
            }
        }
        Expr::If(_, a, b) => {
            let (ta, tb) = (ty_of(m, a), ty_of(m, b));
            Ty::new(ta.w.max(tb.w), ta.signed && tb.signed)
        }
        Expr::Case(_, arms, dflt) => {
            let mut t = ty_of(m, dflt);
            for (_, a) in arms {
                let ta = ty_of(m, a);
                t = Ty::new(t.w.max(ta.w), t.signed && ta.signed);
            }
            t
        }
        Expr::Switch(arms, dflt) => {
            let mut t = ty_of(m, dflt);
            for (_, a) in arms {
                let ta = ty_of(m, a);
                t = Ty::new(t.w.max(ta.w), t.signed && ta.signed);
            }
            t
        }
        Expr::Concat(parts) => {
            let w = parts.iter().map(|(p, n)| ty_of(m, p).w * n.unwrap_or(1)).sum();
            Ty::u(w)
        }
        Expr::Cast(a, to) => match to {
            CastTo::Width(n) => Ty::new(*n, ty_of(m, a).signed),
            CastTo::Fixed(t) => *t,
            CastTo::Enum(i) => m.enums[*i].base,
            CastTo::Struct(i) => Ty::u(m.structs[*i].width()),
        },
        Expr::Signed(a) => Ty::s(ty_of(m, a).w),
        Expr::Unsigned(a) => Ty::u(ty_of(m, a).w),
        Expr::Inside(..) => Ty::BIT,
        Expr::Call(f, _) => m.funcs[*f].ret,
        Expr::Clog2(_) | Expr::Bits(_) => Ty::s(32),
    }
}

/// type of the object selected by `r` before the bit/part select
pub fn ref_base_ty(m: &Module, r: &Ref) -> Ty {
    let d = &m.decls[r.decl];
    match (r.field, &d.syntax) {
        (Some(f), TySyntax::Struct(s)) => m.structs[*s].fields[f].1,
        _ => d.ty,
    }
}

pub fn cidx(c: CIdx, w: u32) -> i64 {
    match c {
        CIdx::Num(n) => n as i64,
        CIdx::Msb(k) => w as i64 - 1 - k as i64,
        CIdx::Lsb(k) => k as i64,
    }
}

pub fn ref_ty(m: &Module, r: &Ref) -> Ty {
    let b = ref_base_ty(m, r);
    match &r.sel {
        Sel::None => b,
        Sel::BitC(_) | Sel::BitD(_) => Ty::BIT,
        Sel::Range(h, l) => Ty::u((cidx(*h, b.w) - cidx(*l, b.w) + 1).max(1) as u32),
        Sel::PlusC(_, w) | Sel::MinusC(_, w) | Sel::Step(_, w) => Ty::u(*w),
    }
}

/// State of one module instance.
#[derive(Clone, Debug)]
pub struct Inst {
    pub module: usize,
    /// `vals[decl][element]`
    pub vals: Vec<Vec<Val>>,
    /// one per `Item::Inst` of the module, in item order
    pub children: Vec<Inst>,
}

/// A pending non-blocking write: bits `[lo, lo+val.w)` of `vals[decl][elem]`.
#[derive(Clone, Debug)]
struct Nba {
    decl: DeclId,
    elem: usize,
    lo: u32,
    val: Val,
    /// whole decl becomes unknown
    taint: bool,
}

#[derive(Clone, Copy, PartialEq, Eq)]
enum Mode {
    /// blocking assignments (always_comb, assign, function bodies)
    Blocking,
    /// non-blocking (always_ff)
    NonBlocking,
}

/// Counters of what the evaluation met (for evidence).
#[derive(Clone, Debug, Default)]
pub struct EvalStats {
    pub div_by_zero: u64,
    pub select_out_of_range: u64,
    pub pow_x: u64,
    pub unknown_cond: u64,
}

/// Reference simulator of a [`Design`].
pub struct RefSim<'a> {
    pub design: &'a Design,
    pub root: Inst,
    pub display: String,
    pub stats: EvalStats,
}

struct Cx<'a> {
    design: &'a Design,
    m: &'a Module,
    mode: Mode,
    nba: Vec<Nba>,
    display: String,
    stats: EvalStats,
    /// width of the return type while a function body runs
    ret_w: Option<u32>,
}

fn new_inst(design: &Design, module: usize) -> Inst {
    let m = &design.modules[module];
    let vals = m
        .decls
        .iter()
        .map(|d| {
            let n = d.array.unwrap_or(1) as usize;
            match (&d.kind, &d.value) {
                (DeclKind::Param | DeclKind::Const, Some(v)) => vec![Val::new(d.ty.w, v.clone()); n],
                _ => vec![Val::unknown(d.ty.w); n],
            }
        })
        .collect();
    let children = m
        .items
        .iter()
        .filter_map(|it| match it {
            Item::Inst { module, .. } => Some(new_inst(design, *module)),
            _ => None,
        })
        .collect();
    Inst {
        module,
        vals,
        children,
    }
}

impl<'a> RefSim<'a> {
    pub fn new(design: &'a Design) -> RefSim<'a> {
        RefSim {
            design,
            root: new_inst(design, design.top),
            display: String::new(),
            stats: EvalStats::default(),
        }
    }

    /// Drive a top-level input (truncated to the port width).
    pub fn set_input(&mut self, decl: DeclId, v: &BigUint) {
        let w = self.design.top().decls[decl].ty.w;
        self.root.vals[decl][0] = Val::new(w, v.clone());
    }

    /// Settle all combinational logic.
    pub fn settle(&mut self) {
        let mut st = std::mem::take(&mut self.stats);
        let mut disp = String::new();
        settle_inst(self.design, &mut self.root, &mut st, &mut disp);
        self.stats = st;
        // $display inside always_comb is not generated; ignore `disp`
    }

    /// One clock edge (reset asserted around it when `reset`), then settle.
    pub fn step(&mut self, reset: bool) {
        self.settle();
        let mut st = std::mem::take(&mut self.stats);
        let mut disp = std::mem::take(&mut self.display);
        clock_inst(self.design, &mut self.root, reset, &mut st, &mut disp);
        self.display = disp;
        self.stats = st;
        self.settle();
    }

    pub fn output(&self, decl: DeclId) -> &Val {
        &self.root.vals[decl][0]
    }
}

fn settle_inst(design: &Design, inst: &mut Inst, stats: &mut EvalStats, disp: &mut String) {
    let m = &design.modules[inst.module];
    let mut child_no = 0;
    for it in &m.items {
        match it {
            Item::AlwaysFf { .. } => {}
            Item::Inst { conns, module, .. } => {
                let cm = &design.modules[*module];
                // inputs: assignment to the child's port type
                for (port, c) in conns {
                    if let Conn::In(e) = c {
                        let mut cx = Cx::new(design, m, Mode::Blocking);
                        let t = cm.decls[*port].ty;
                        let v = cx.eval_assign(&mut inst.vals, e, t.w);
                        cx.flush(stats, disp);
                        inst.children[child_no].vals[*port][0] = v;
                    }
                }
                settle_inst(design, &mut inst.children[child_no], stats, disp);
                for (port, c) in conns {
                    if let Conn::Out(d) = c {
                        let pv = inst.children[child_no].vals[*port][0].clone();
                        let pt = cm.decls[*port].ty;
                        let dt = m.decls[*d].ty;
                        // port connection = continuous assignment (§23.3.3)
                        let w = pt.w.max(dt.w);
                        inst.vals[*d][0] = pv.resize(w, pt.signed).resize(dt.w, false);
                    }
                }
                child_no += 1;
            }
            Item::Assign { lhs, rhs } => {
                let mut cx = Cx::new(design, m, Mode::Blocking);
                cx.assign(&mut inst.vals, lhs, AssignOp::Set, rhs);
                cx.flush(stats, disp);
            }
            Item::Let { decl, rhs } => {
                let mut cx = Cx::new(design, m, Mode::Blocking);
                cx.assign(&mut inst.vals, &Ref::whole(*decl), AssignOp::Set, rhs);
                cx.flush(stats, disp);
            }
            Item::AlwaysComb(stmts) => {
                let mut cx = Cx::new(design, m, Mode::Blocking);
                cx.exec_block(&mut inst.vals, stmts);
                cx.flush(stats, disp);
            }
        }
    }
}

fn clock_inst(design: &Design, inst: &mut Inst, reset: bool, stats: &mut EvalStats, disp: &mut String) {
    let m = &design.modules[inst.module];
    let mut cx = Cx::new(design, m, Mode::NonBlocking);
    for it in &m.items {
        if let Item::AlwaysFf { reset: r, body, .. } = it {
            if reset {
                cx.exec_block(&mut inst.vals, r);
            } else {
                cx.exec_block(&mut inst.vals, body);
            }
        }
    }
    let nba = std::mem::take(&mut cx.nba);
    cx.flush(stats, disp);
    for c in inst.children.iter_mut() {
        clock_inst(design, c, reset, stats, disp);
    }
    for n in nba {
        apply_write(&mut inst.vals, &n);
    }
}

fn apply_write(vals: &mut [Vec<Val>], n: &Nba) {
    if n.taint {
        for e in vals[n.decl].iter_mut() {
            *e = Val::unknown(e.w);
        }
        return;
    }
    let Some(slot) = vals[n.decl].get_mut(n.elem) else {
        return;
    };
    if n.lo == 0 && n.val.w == slot.w {
        *slot = n.val.clone();
        return;
    }
    if slot.x || n.val.x {
        // partial write of / over an unknown: conservatively unknown
        *slot = Val::unknown(slot.w);
        return;
    }
    let wmask = mask(n.val.w) << n.lo;
    let keep = mask(slot.w) ^ (&wmask & mask(slot.w));
    let nv = (&slot.v & keep) | ((&n.val.v << n.lo) & mask(slot.w));
    *slot = Val::new(slot.w, nv);
}

/// where a `Ref` lands
struct Place {
    /// array element (`None` = index out of range)
    elem: Option<usize>,
    /// lsb offset within the element
    lo: i64,
    w: u32,
    /// some index was unknown
    xidx: bool,
    /// the bit/part select leaves the selected object (partly or wholly)
    oob: bool,
}

fn small_int(v: &Val, signed: bool) -> i64 {
    let i = if signed { v.as_signed() } else { BigInt::from(v.v.clone()) };
    // anything beyond ±2^40 is out of every range anyway
    let lim = BigInt::from(1i64 << 40);
    if i > lim {
        1i64 << 40
    } else if i < -lim {
        -(1i64 << 40)
    } else {
        let (s, d) = i.to_u64_digits();
        let mag = d.first().copied().unwrap_or(0) as i64;
        if s == Sign::Minus { -mag } else { mag }
    }
}

impl<'a> Cx<'a> {
    fn new(design: &'a Design, m: &'a Module, mode: Mode) -> Cx<'a> {
        Cx {
            design,
            m,
            mode,
            nba: vec![],
            display: String::new(),
            stats: EvalStats::default(),
            ret_w: None,
        }
    }

    fn flush(&mut self, stats: &mut EvalStats, disp: &mut String) {
        stats.div_by_zero += self.stats.div_by_zero;
        stats.select_out_of_range += self.stats.select_out_of_range;
        stats.pow_x += self.stats.pow_x;
        stats.unknown_cond += self.stats.unknown_cond;
        disp.push_str(&self.display);
        self.display.clear();
        self.stats = EvalStats::default();
    }

    // ---------------------------------------------------------------- places

    fn dyn_idx(&mut self, vals: &mut Vec<Vec<Val>>, e: &Expr) -> Option<i64> {
        let v = self.eval_self(vals, e);
        if v.x {
            return None;
        }
        Some(small_int(&v, ty_of(self.m, e).signed))
    }

    fn place(&mut self, vals: &mut Vec<Vec<Val>>, r: &Ref) -> Place {
        let d = &self.m.decls[r.decl];
        let mut xidx = false;
        let elem = match (&r.idx, d.array) {
            (Some(ie), Some(n)) => match self.dyn_idx(vals, ie) {
                None => {
                    xidx = true;
                    None
                }
                Some(i) if i < 0 || i >= n as i64 => None,
                Some(i) => Some(i as usize),
            },
            _ => Some(0),
        };
        let mut lo: i64 = 0;
        let mut bw = d.ty.w;
        if let (Some(f), TySyntax::Struct(s)) = (r.field, &d.syntax) {
            let (off, t) = self.m.structs[*s].field(f);
            lo = off as i64;
            bw = t.w;
        }
        // (lsb within the selected object, width); None = unknown index
        let rel: Option<(i64, u32)> = match &r.sel {
            Sel::None => Some((0, bw)),
            Sel::BitC(c) => Some((cidx(*c, bw), 1)),
            Sel::BitD(e) => self.dyn_idx(vals, e).map(|i| (i, 1)),
            Sel::Range(h, l) => {
                let (h, l) = (cidx(*h, bw), cidx(*l, bw));
                Some((l, (h - l + 1).max(1) as u32))
            }
            Sel::PlusC(e, sw) => self.dyn_idx(vals, e).map(|i| (i, *sw)),
            Sel::MinusC(e, sw) => self.dyn_idx(vals, e).map(|i| (i - *sw as i64 + 1, *sw)),
            Sel::Step(e, sw) => self.dyn_idx(vals, e).map(|i| (i.saturating_mul(*sw as i64), *sw)),
        };
        match rel {
            Some((l, sw)) => {
                let oob = l < 0 || l + sw as i64 > bw as i64;
                Place {
                    elem,
                    lo: lo + l,
                    w: sw,
                    xidx,
                    oob,
                }
            }
            None => Place {
                elem,
                lo,
                w: ref_ty(self.m, r).w,
                xidx: true,
                oob: false,
            },
        }
    }

    fn read_ref(&mut self, vals: &mut Vec<Vec<Val>>, r: &Ref) -> Val {
        let p = self.place(vals, r);
        if p.xidx {
            return Val::unknown(p.w);
        }
        let Some(elem) = p.elem else {
            self.stats.select_out_of_range += 1;
            return Val::unknown(p.w);
        };
        if p.oob {
            self.stats.select_out_of_range += 1;
            return Val::unknown(p.w);
        }
        let base = &vals[r.decl][elem];
        if base.x {
            return Val::unknown(p.w);
        }
        Val::new(p.w, &base.v >> (p.lo as u32))
    }

    fn write_ref(&mut self, vals: &mut Vec<Vec<Val>>, r: &Ref, v: Val) {
        let p = self.place(vals, r);
        let mut n = Nba {
            decl: r.decl,
            elem: p.elem.unwrap_or(0),
            lo: 0,
            val: v,
            taint: false,
        };
        if p.xidx {
            n.taint = true;
        } else if p.elem.is_none() {
            return; // write to a non-existent element is ignored
        } else if p.oob {
            // (partly) out of range: LRM writes the in-range bits only.  The
            // generator keeps left-hand selects in range; be conservative.
            self.stats.select_out_of_range += 1;
            n.taint = true;
        } else {
            n.lo = p.lo as u32;
            n.val = n.val.resize(p.w, false);
        }
        match self.mode {
            Mode::Blocking => apply_write(vals, &n),
            Mode::NonBlocking => self.nba.push(n),
        }
    }

    fn taint_targets(&mut self, vals: &mut Vec<Vec<Val>>, stmts: &[Stmt]) {
        let mut ds = vec![];
        collect_targets(stmts, &mut ds);
        for d in ds {
            let n = Nba {
                decl: d,
                elem: 0,
                lo: 0,
                val: Val::unknown(1),
                taint: true,
            };
            match self.mode {
                Mode::Blocking => apply_write(vals, &n),
                Mode::NonBlocking => self.nba.push(n),
            }
        }
    }

    // ------------------------------------------------------------ statements

    fn assign(&mut self, vals: &mut Vec<Vec<Val>>, lhs: &Ref, op: AssignOp, rhs: &Expr) {
        let lt = ref_ty(self.m, lhs);
        let v = match op {
            AssignOp::Set => self.eval_assign(vals, rhs, lt.w),
            AssignOp::Op(b) => {
                // `x op= e` is `x = x op (e)`
                let e = Expr::Bin(b, Box::new(Expr::Ref(lhs.clone())), Box::new(rhs.clone()));
                self.eval_assign(vals, &e, lt.w)
            }
        };
        self.write_ref(vals, lhs, v);
    }

    /// value of `e` assigned to a `w`-bit target (§10.7)
    fn eval_assign(&mut self, vals: &mut Vec<Vec<Val>>, e: &Expr, w: u32) -> Val {
        let t = ty_of(self.m, e);
        let cw = t.w.max(w);
        self.eval(vals, e, cw, t.signed).resize(w, false)
    }

    fn exec_block(&mut self, vals: &mut Vec<Vec<Val>>, stmts: &[Stmt]) -> Option<Val> {
        for s in stmts {
            if let Some(r) = self.exec(vals, s) {
                return Some(r);
            }
        }
        None
    }

    fn match_items(&mut self, vals: &mut Vec<Vec<Val>>, sel: &Expr, items: &[RangeItem]) -> Val {
        // any item matches; unknown if undecided and some comparison unknown
        let mut unk = false;
        for it in items {
            let r = match it {
                RangeItem::Val(v) => self.compare(vals, BinOp::Eq, sel, v),
                RangeItem::Excl(lo, hi) => {
                    let a = self.compare(vals, BinOp::Ge, sel, lo);
                    let b = self.compare(vals, BinOp::Lt, sel, hi);
                    and3(&a, &b)
                }
                RangeItem::Incl(lo, hi) => {
                    let a = self.compare(vals, BinOp::Ge, sel, lo);
                    let b = self.compare(vals, BinOp::Le, sel, hi);
                    and3(&a, &b)
                }
            };
            if r.x {
                unk = true;
            } else if r.is_true() {
                return Val::bit(true);
            }
        }
        if unk { Val::unknown(1) } else { Val::bit(false) }
    }

    fn exec(&mut self, vals: &mut Vec<Vec<Val>>, s: &Stmt) -> Option<Val> {
        match s {
            Stmt::Assign { lhs, op, rhs } => {
                self.assign(vals, lhs, *op, rhs);
                None
            }
            Stmt::AssignConcat { lhs, rhs } => {
                let total: u32 = lhs.iter().map(|r| ref_ty(self.m, r).w).sum();
                let v = self.eval_assign(vals, rhs, total);
                let mut hi = total;
                for r in lhs {
                    let w = ref_ty(self.m, r).w;
                    let part = if v.x { Val::unknown(w) } else { Val::new(w, &v.v >> (hi - w)) };
                    self.write_ref(vals, r, part);
                    hi -= w;
                }
                None
            }
            Stmt::If { cond, then, els } => {
                let c = self.eval_self(vals, cond);
                if c.x {
                    self.stats.unknown_cond += 1;
                    self.taint_targets(vals, then);
                    self.taint_targets(vals, els);
                    None
                } else if c.is_true() {
                    self.exec_block(vals, then)
                } else {
                    self.exec_block(vals, els)
                }
            }
            Stmt::Case { sel, arms, default } => {
                for (i, (items, body)) in arms.iter().enumerate() {
                    let r = self.match_items(vals, sel, items);
                    if r.x {
                        self.stats.unknown_cond += 1;
                        for (_, b) in &arms[i..] {
                            self.taint_targets(vals, b);
                        }
                        if let Some(d) = default {
                            self.taint_targets(vals, d);
                        }
                        return None;
                    }
                    if r.is_true() {
                        return self.exec_block(vals, body);
                    }
                }
                match default {
                    Some(d) => self.exec_block(vals, d),
                    None => None,
                }
            }
            Stmt::Switch { arms, default } => {
                for (i, (conds, body)) in arms.iter().enumerate() {
                    let mut hit = false;
                    for c in conds {
                        let r = self.eval_self(vals, c);
                        if r.x {
                            self.stats.unknown_cond += 1;
                            for (_, b) in &arms[i..] {
                                self.taint_targets(vals, b);
                            }
                            if let Some(d) = default {
                                self.taint_targets(vals, d);
                            }
                            return None;
                        }
                        if r.is_true() {
                            hit = true;
                            break;
                        }
                    }
                    if hit {
                        return self.exec_block(vals, body);
                    }
                }
                match default {
                    Some(d) => self.exec_block(vals, d),
                    None => None,
                }
            }
            Stmt::For {
                var,
                lo,
                hi,
                incl,
                rev,
                step,
                body,
                break_if,
            } => {
                let end = if *incl { *hi as u64 + 1 } else { *hi as u64 };
                let mut its: Vec<u64> = vec![];
                let mut i = *lo as u64;
                while i < end {
                    its.push(i);
                    i += (*step).max(1) as u64;
                }
                if *rev {
                    its.reverse();
                }
                for i in its {
                    vals[*var][0] = Val::from_u64(32, i);
                    if let Some(b) = break_if {
                        let c = self.eval_self(vals, b);
                        if c.x {
                            self.stats.unknown_cond += 1;
                            self.taint_targets(vals, body);
                            break;
                        }
                        if c.is_true() {
                            break;
                        }
                    }
                    if let Some(r) = self.exec_block(vals, body) {
                        return Some(r);
                    }
                }
                None
            }
            Stmt::Display { fmt, args } => {
                let mut vs = vec![];
                for a in args {
                    let t = ty_of(self.m, a);
                    vs.push((self.eval_self(vals, a), t));
                }
                self.display.push_str(&format_display(fmt, &vs));
                self.display.push('\n');
                None
            }
            Stmt::Return(e) => {
                // assignment to the implicit return variable
                let w = self.ret_w.unwrap_or(ty_of(self.m, e).w);
                Some(self.eval_assign(vals, e, w))
            }
        }
    }

    // ----------------------------------------------------------- expressions

    /// self-determined evaluation
    pub fn eval_self(&mut self, vals: &mut Vec<Vec<Val>>, e: &Expr) -> Val {
        let t = ty_of(self.m, e);
        self.eval(vals, e, t.w, t.signed)
    }

    /// comparison `a op b`: the two operands form a context of their own
    fn compare(&mut self, vals: &mut Vec<Vec<Val>>, op: BinOp, a: &Expr, b: &Expr) -> Val {
        let (ta, tb) = (ty_of(self.m, a), ty_of(self.m, b));
        let w = ta.w.max(tb.w);
        let s = ta.signed && tb.signed;
        let va = self.eval(vals, a, w, s);
        let vb = self.eval(vals, b, w, s);
        if va.x || vb.x {
            return Val::unknown(1);
        }
        let ord = if s { va.as_signed().cmp(&vb.as_signed()) } else { va.v.cmp(&vb.v) };
        use std::cmp::Ordering::*;
        let r = match op {
            BinOp::Lt => ord == Less,
            BinOp::Le => ord != Greater,
            BinOp::Gt => ord == Greater,
            BinOp::Ge => ord != Less,
            BinOp::Eq | BinOp::WEq => ord == Equal,
            BinOp::Ne | BinOp::WNe => ord != Equal,
            _ => unreachable!(),
        };
        Val::bit(r)
    }

    /// Evaluate `e` in a context of `w` bits whose propagated type is
    /// signed iff `s` (§11.8.2).  `w` ≥ the self-determined width.
    pub fn eval(&mut self, vals: &mut Vec<Vec<Val>>, e: &Expr, w: u32, s: bool) -> Val {
        match e {
            // ---- context-determined operators
            Expr::Un(op @ (UnOp::Plus | UnOp::Neg | UnOp::BitNot), a) => {
                let va = self.eval(vals, a, w, s);
                if va.x {
                    return Val::unknown(w);
                }
                match op {
                    UnOp::Plus => va,
                    UnOp::Neg => Val::from_signed(w, &-BigInt::from(va.v)),
                    _ => Val::new(w, mask(w) ^ va.v),
                }
            }
            Expr::Bin(op, a, b) if !op.is_compare() && !op.is_logical() => {
                if op.is_shift() {
                    let va = self.eval(vals, a, w, s);
                    let vb = self.eval_self(vals, b);
                    if va.x || vb.x {
                        return Val::unknown(w);
                    }
                    // amount is unsigned (§11.4.10)
                    let big = vb.v >= BigUint::from(w);
                    let n = if big { w } else { vb.v.iter_u32_digits().next().unwrap_or(0) };
                    return match op {
                        BinOp::Shl | BinOp::AShl => {
                            if big {
                                Val::new(w, BigUint::zero())
                            } else {
                                Val::new(w, va.v << n)
                            }
                        }
                        BinOp::Shr => {
                            if big {
                                Val::new(w, BigUint::zero())
                            } else {
                                Val::new(w, va.v >> n)
                            }
                        }
                        _ => {
                            // >>> : arithmetic only when the result type is signed
                            if s && va.msb() {
                                let fill = if n >= w { mask(w) } else { mask(w) ^ mask(w - n) };
                                let body = if big { BigUint::zero() } else { va.v >> n };
                                Val::new(w, body | fill)
                            } else if big {
                                Val::new(w, BigUint::zero())
                            } else {
                                Val::new(w, va.v >> n)
                            }
                        }
                    };
                }
                if *op == BinOp::Pow {
                    let va = self.eval(vals, a, w, s);
                    let tb = ty_of(self.m, b);
                    let vb = self.eval_self(vals, b);
                    if va.x || vb.x {
                        return Val::unknown(w);
                    }
                    let m2 = BigUint::one() << w;
                    let exp_neg = tb.signed && vb.msb();
                    if !exp_neg {
                        // non-negative exponent: ring arithmetic mod 2^w (0**0 = 1)
                        return Val::new(w, va.v.modpow(&vb.v, &m2));
                    }
                    // negative exponent: Table 11-4
                    let base = if s { va.as_signed() } else { BigInt::from(va.v.clone()) };
                    if base.is_zero() {
                        self.stats.pow_x += 1;
                        return Val::unknown(w);
                    }
                    if base.is_one() {
                        return Val::from_u64(w, 1);
                    }
                    if base == -BigInt::one() {
                        let odd = vb.v.bit(0);
                        return if odd { Val::new(w, mask(w)) } else { Val::from_u64(w, 1) };
                    }
                    return Val::new(w, BigUint::zero());
                }
                let va = self.eval(vals, a, w, s);
                let vb = self.eval(vals, b, w, s);
                if va.x || vb.x {
                    return Val::unknown(w);
                }
                match op {
                    BinOp::Add => Val::new(w, va.v + vb.v),
                    BinOp::Sub => Val::from_signed(w, &(BigInt::from(va.v) - BigInt::from(vb.v))),
                    BinOp::Mul => Val::new(w, va.v * vb.v),
                    BinOp::And => Val::new(w, va.v & vb.v),
                    BinOp::Or => Val::new(w, va.v | vb.v),
                    BinOp::Xor => Val::new(w, va.v ^ vb.v),
                    BinOp::Xnor => Val::new(w, mask(w) ^ (va.v ^ vb.v)),
                    BinOp::Div | BinOp::Rem => {
                        if vb.v.is_zero() {
                            self.stats.div_by_zero += 1;
                            return Val::unknown(w);
                        }
                        if s {
                            let (x, y) = (va.as_signed(), vb.as_signed());
                            // BigInt `/` and `%` truncate toward zero; `%` takes the sign of the dividend
                            let r = if *op == BinOp::Div { &x / &y } else { &x % &y };
                            Val::from_signed(w, &r)
                        } else if *op == BinOp::Div {
                            Val::new(w, va.v / vb.v)
                        } else {
                            Val::new(w, va.v % vb.v)
                        }
                    }
                    _ => unreachable!(),
                }
            }
            Expr::If(c, a, b) => {
                let vc = self.eval_self(vals, c);
                if vc.x {
                    self.stats.unknown_cond += 1;
                    return Val::unknown(w);
                }
                if vc.is_true() { self.eval(vals, a, w, s) } else { self.eval(vals, b, w, s) }
            }
            Expr::Case(sel, arms, dflt) => {
                for (items, a) in arms {
                    let r = self.match_items(vals, sel, items);
                    if r.x {
                        self.stats.unknown_cond += 1;
                        return Val::unknown(w);
                    }
                    if r.is_true() {
                        return self.eval(vals, a, w, s);
                    }
                }
                self.eval(vals, dflt, w, s)
            }
            Expr::Switch(arms, dflt) => {
                for (conds, a) in arms {
                    for c in conds {
                        let r = self.eval_self(vals, c);
                        if r.x {
                            self.stats.unknown_cond += 1;
                            return Val::unknown(w);
                        }
                        if r.is_true() {
                            return self.eval(vals, a, w, s);
                        }
                    }
                }
                self.eval(vals, dflt, w, s)
            }
            Expr::Lit(Lit::AllZero) => Val::new(w, BigUint::zero()),
            Expr::Lit(Lit::AllOne) => Val::new(w, mask(w)),
            // ---- simple operands and self-determined sub-expressions:
            //      own value, then extension to the propagated type
            _ => {
                let t = ty_of(self.m, e);
                let v = self.eval_leaf(vals, e, t);
                v.resize(w, s)
            }
        }
    }

    fn eval_leaf(&mut self, vals: &mut Vec<Vec<Val>>, e: &Expr, t: Ty) -> Val {
        match e {
            Expr::Lit(l) => match l {
                Lit::Sized { w, val, .. } => Val::new(*w, val.clone()),
                Lit::Dec(n) => Val::from_u64(32, *n as u64),
                Lit::AllZero => Val::from_u64(1, 0),
                Lit::AllOne => Val::from_u64(1, 1),
            },
            Expr::Ref(r) => self.read_ref(vals, r),
            Expr::EnumVal(en, v) => Val::from_u64(t.w, self.m.enums[*en].variants[*v].1),
            Expr::Un(op, a) => {
                let va = self.eval_self(vals, a);
                if va.x {
                    return Val::unknown(1);
                }
                let ones = va.v.count_ones();
                let r = match op {
                    UnOp::LogNot => va.v.is_zero(),
                    UnOp::RedAnd => va.v == mask(va.w),
                    UnOp::RedNand => va.v != mask(va.w),
                    UnOp::RedOr => !va.v.is_zero(),
                    UnOp::RedNor => va.v.is_zero(),
                    UnOp::RedXor => ones % 2 == 1,
                    UnOp::RedXnor => ones % 2 == 0,
                    _ => unreachable!(),
                };
                Val::bit(r)
            }
            Expr::Bin(op, a, b) if op.is_compare() => self.compare(vals, *op, a, b),
            Expr::Bin(op, a, b) => {
                // && ||
                let va = self.eval_self(vals, a);
                let vb = self.eval_self(vals, b);
                match op {
                    BinOp::LogAnd => and3(&va, &vb),
                    BinOp::LogOr => {
                        if (!va.x && va.is_true()) || (!vb.x && vb.is_true()) {
                            Val::bit(true)
                        } else if va.x || vb.x {
                            Val::unknown(1)
                        } else {
                            Val::bit(false)
                        }
                    }
                    _ => unreachable!(),
                }
            }
            Expr::Concat(parts) => {
                let mut acc = BigUint::zero();
                let mut unk = false;
                for (p, n) in parts {
                    let v = self.eval_self(vals, p);
                    unk |= v.x;
                    for _ in 0..n.unwrap_or(1) {
                        acc = (acc << v.w) | &v.v;
                    }
                }
                if unk { Val::unknown(t.w) } else { Val::new(t.w, acc) }
            }
            Expr::Cast(a, _) => {
                // assignment-like context (§6.24.1)
                let ta = ty_of(self.m, a);
                let cw = ta.w.max(t.w);
                self.eval(vals, a, cw, ta.signed).resize(t.w, false)
            }
            Expr::Signed(a) | Expr::Unsigned(a) => self.eval_self(vals, a),
            Expr::Inside(x, items, neg) => {
                let r = self.match_items(vals, x, items);
                if r.x {
                    r
                } else {
                    Val::bit(r.is_true() != *neg)
                }
            }
            Expr::Call(f, args) => {
                let func = &self.m.funcs[*f];
                for (a, d) in args.iter().zip(&func.args) {
                    let dt = self.m.decls[*d].ty;
                    let v = self.eval_assign(vals, a, dt.w);
                    vals[*d][0] = v;
                }
                for l in &func.locals {
                    let n = vals[*l].len();
                    vals[*l] = vec![Val::unknown(self.m.decls[*l].ty.w); n];
                }
                let saved = (self.mode, self.ret_w);
                self.mode = Mode::Blocking;
                self.ret_w = Some(func.ret.w);
                let r = self.exec_block(vals, &func.body);
                (self.mode, self.ret_w) = saved;
                r.unwrap_or(Val::unknown(func.ret.w))
            }
            Expr::Clog2(a) => {
                let v = self.eval_self(vals, a);
                if v.x {
                    return Val::unknown(32);
                }
                // ceil(log2(v)), $clog2(0) = 0
                let r = if v.v <= BigUint::one() { 0 } else { (&v.v - BigUint::one()).bits() };
                Val::from_u64(32, r)
            }
            Expr::Bits(d) => {
                let dd = &self.m.decls[*d];
                Val::from_u64(32, (dd.ty.w * dd.array.unwrap_or(1)) as u64)
            }
            _ => unreachable!("context-determined form reached eval_leaf: {e:?}"),
        }
    }
}

fn and3(a: &Val, b: &Val) -> Val {
    if (!a.x && !a.is_true()) || (!b.x && !b.is_true()) {
        Val::bit(false)
    } else if a.x || b.x {
        Val::unknown(1)
    } else {
        Val::bit(true)
    }
}

fn collect_targets(stmts: &[Stmt], out: &mut Vec<DeclId>) {
    for s in stmts {
        match s {
            Stmt::Assign { lhs, .. } => out.push(lhs.decl),
            Stmt::AssignConcat { lhs, .. } => out.extend(lhs.iter().map(|r| r.decl)),
            Stmt::If { then, els, .. } => {
                collect_targets(then, out);
                collect_targets(els, out);
            }
            Stmt::Case { arms, default, .. } => {
                for (_, b) in arms {
                    collect_targets(b, out);
                }
                if let Some(d) = default {
                    collect_targets(d, out);
                }
            }
            Stmt::Switch { arms, default } => {
                for (_, b) in arms {
                    collect_targets(b, out);
                }
                if let Some(d) = default {
                    collect_targets(d, out);
                }
            }
            Stmt::For { body, .. } => collect_targets(body, out),
            Stmt::Display { .. } | Stmt::Return(_) => {}
        }
    }
}

/// `$display` formatting for the directives the generator uses: `%h %d %b %%`
/// (LRM 21.2.1.2: `%d` pads to the width of the largest value; the generator
/// uses `%0d` to avoid padding rules).
pub fn format_display(fmt: &str, args: &[(Val, Ty)]) -> String {
    let mut out = String::new();
    let mut it = args.iter();
    let mut cs = fmt.chars().peekable();
    while let Some(c) = cs.next() {
        if c != '%' {
            out.push(c);
            continue;
        }
        let mut spec = String::new();
        while let Some(&n) = cs.peek() {
            cs.next();
            if n.is_ascii_alphabetic() || n == '%' {
                spec.push(n);
                break;
            }
            spec.push(n);
        }
        let kind = spec.chars().last().unwrap_or('%');
        if kind == '%' {
            out.push('%');
            continue;
        }
        let Some((v, t)) = it.next() else {
            continue;
        };
        if v.x {
            out.push('x');
            continue;
        }
        match kind {
            'h' | 'x' => out.push_str(&format!("{:x}", v.v)),
            'b' => out.push_str(&format!("{:b}", v.v)),
            'd' => {
                if t.signed {
                    out.push_str(&v.as_signed().to_string());
                } else {
                    out.push_str(&v.v.to_string());
                }
            }
            _ => {}
        }
    }
    out
}

/// Evaluate a constant expression (no signal reads) of module `m`,
/// self-determined.
pub fn eval_const(design: &Design, m: &Module, e: &Expr) -> Val {
    let mut vals: Vec<Vec<Val>> = m
        .decls
        .iter()
        .map(|d| match &d.value {
            Some(v) => vec![Val::new(d.ty.w, v.clone()); d.array.unwrap_or(1) as usize],
            None => vec![Val::unknown(d.ty.w); d.array.unwrap_or(1) as usize],
        })
        .collect();
    let mut cx = Cx::new(design, m, Mode::Blocking);
    cx.eval_self(&mut vals, e)
}

/// Evaluate a constant expression as assigned to a `w`-bit target.
pub fn eval_const_assign(design: &Design, m: &Module, e: &Expr, w: u32) -> Val {
    let mut vals: Vec<Vec<Val>> = m
        .decls
        .iter()
        .map(|d| match &d.value {
            Some(v) => vec![Val::new(d.ty.w, v.clone()); d.array.unwrap_or(1) as usize],
            None => vec![Val::unknown(d.ty.w); d.array.unwrap_or(1) as usize],
        })
        .collect();
    let mut cx = Cx::new(design, m, Mode::Blocking);
    cx.eval_assign(&mut vals, e, w)
}
