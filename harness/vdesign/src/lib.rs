//! `vdesign` — generator of well-typed Veryl designs, IEEE 1800 reference
//! evaluator over the same IR, stimulus generation and a driver for the
//! simulator under test.  See README.md.

pub mod eval;
pub mod findings;
pub mod dgen;
pub mod ir;
pub mod minimize;
pub mod print;
pub mod sim;
pub mod stim;

pub use eval::{RefSim, Val, ty_of};
pub use dgen::{ExprInfo, shape, GenCfg, Generated, constify, gen_design, gen_expr_design, gen_value, gen_width, width_class};
pub use ir::*;
pub use print::print_design;
pub use sim::{Analyzed, PortSpec, Rejected, Sample, StimStep, Stimulus, Trace, config_label, engine_configs, run_trace};
pub use sim::run_deep;
pub use stim::{DeepVar, RefTrace, deep_vars, gen_stimulus, port_specs, reference_deep, reference_trace};
