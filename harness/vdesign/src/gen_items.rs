// Module-level generation (included into gen.rs).

/// How statements are being generated.
#[derive(Clone, Copy, PartialEq, Eq)]
enum Blk {
    Comb,
    Ff,
}

impl<'c> MGen<'c> {
    fn const_scope(&self) -> Scope {
        Scope {
            vars: (0..self.m.decls.len())
                .filter(|&i| matches!(self.m.decls[i].kind, DeclKind::Const | DeclKind::Param))
                .collect(),
            const_only: true,
            funcs: vec![],
        }
    }

    fn gen_consts(&mut self, d: &mut Draw, is_child: bool) {
        if self.cfg.params {
            let n = d.below(3);
            for _ in 0..n {
                let name = self.fresh("P");
                let (ty, syntax) = if d.chance(2, 3) {
                    (Ty::u(32), TySyntax::Fixed)
                } else {
                    let t = self.gen_ty(d);
                    (t, TySyntax::Logic)
                };
                let actual = if ty == Ty::u(32) { BigUint::from(1 + d.below(self.cfg.max_width.min(64))) } else { gen_value(d, ty.w) };
                let default = if is_child && d.chance(2, 3) {
                    if ty == Ty::u(32) { BigUint::from(1 + d.below(self.cfg.max_width.min(64))) } else { gen_value(d, ty.w) }
                } else {
                    actual.clone()
                };
                let id = self.add_decl(name, DeclKind::Param, ty, syntax);
                self.m.decls[id].value = Some(actual);
                self.m.decls[id].init = Some(if ty == Ty::u(32) {
                    Expr::Lit(Lit::Dec(default.iter_u32_digits().next().unwrap_or(0)))
                } else {
                    Expr::lit(ty, default)
                });
                self.class("decl:param");
            }
        }
        if self.cfg.consts {
            let n = d.below(3);
            for _ in 0..n {
                let name = self.fresh("C");
                let ty = self.gen_ty(d);
                let syntax = self.gen_syntax(d, ty);
                let sc = self.const_scope();
                let e = self.gen_rhs(d, &sc, ty);
                let design = Design::default();
                let v = eval::eval_const_assign(&design, &self.m, &e, ty.w);
                let e = if v.x {
                    // e.g. division by a zero constant: use a literal instead
                    Expr::lit(ty, gen_value(d, ty.w))
                } else {
                    e
                };
                let v = eval::eval_const_assign(&design, &self.m, &e, ty.w);
                let id = self.add_decl(name, DeclKind::Const, ty, syntax);
                self.m.decls[id].value = Some(v.v);
                self.m.decls[id].init = Some(e);
                self.class("decl:const");
            }
        }
    }

    fn gen_types(&mut self, d: &mut Draw) {
        if self.cfg.structs && d.chance(1, 3) {
            let n = 2 + d.below(3);
            let mut fields = vec![];
            for i in 0..n {
                let w = gen_width(d, (self.cfg.max_width / n).max(1));
                fields.push((format!("f{i}"), Ty::new(w, self.cfg.signed && d.chance(1, 5))));
            }
            let name = self.fresh("St");
            self.m.structs.push(StructDef { name, fields });
            self.class("decl:struct");
        }
        if self.cfg.enums && d.chance(1, 3) {
            let w = 1 + d.below(4);
            let n = 2 + d.below(((1u32 << w) - 1).min(5));
            let n = n.min(1 << w);
            let explicit = d.chance(1, 3);
            let name = self.fresh("En");
            let mut variants = vec![];
            let mut vals: Vec<u64> = (0..(1u64 << w)).collect();
            for i in 0..n {
                let v = if explicit {
                    let k = d.below_usize(vals.len());
                    vals.remove(k)
                } else {
                    i as u64
                };
                variants.push((format!("V{i}"), v));
            }
            self.m.enums.push(EnumDef {
                name,
                base: Ty::u(w),
                variants,
                explicit,
            });
            self.class("decl:enum");
        }
    }

    fn gen_funcs(&mut self, d: &mut Draw) {
        if !self.cfg.functions {
            return;
        }
        let n = d.weighted(&[3, 2, 1]);
        for _ in 0..n {
            let name = self.fresh("fn_");
            let na = 1 + d.below(3);
            let mut args = vec![];
            for _ in 0..na {
                let an = self.fresh("x");
                let t = self.gen_ty(d);
                args.push(self.add_decl(an, DeclKind::FnArg, t, TySyntax::Logic));
            }
            let mut sc = self.const_scope();
            sc.const_only = false;
            sc.vars.extend(args.iter().copied());
            let nl = d.below(3);
            let mut locals = vec![];
            let mut body = vec![];
            for _ in 0..nl {
                let ln = self.fresh("t");
                let t = self.gen_ty(d);
                let l = self.add_decl(ln, DeclKind::FnLocal, t, TySyntax::Logic);
                let e = self.gen_rhs(d, &sc, t);
                body.push(Stmt::Assign {
                    lhs: Ref::whole(l),
                    op: AssignOp::Set,
                    rhs: e,
                });
                if self.cfg.if_stmt && d.chance(1, 3) {
                    let c = self.gen_cond(d, &sc, 1);
                    let mut sc2 = sc.clone();
                    sc2.vars.push(l);
                    let e2 = self.gen_rhs(d, &sc2, t);
                    body.push(Stmt::If {
                        cond: c,
                        then: vec![Stmt::Assign {
                            lhs: Ref::whole(l),
                            op: AssignOp::Set,
                            rhs: e2,
                        }],
                        els: vec![],
                    });
                }
                locals.push(l);
                sc.vars.push(l);
            }
            let ret = self.gen_ty(d);
            let e = self.gen_rhs(d, &sc, ret);
            body.push(Stmt::Return(e));
            self.m.funcs.push(Func {
                name,
                args,
                locals,
                ret,
                body,
            });
            self.class("decl:function");
        }
    }

    /// New variable (or output) of a random shape.
    fn new_target(&mut self, d: &mut Draw, allow_output: bool, outputs_left: &mut usize) -> DeclId {
        let as_output = allow_output && *outputs_left > 0 && d.chance(1, 4);
        let ty = self.gen_ty(d);
        let kind = if as_output {
            *outputs_left -= 1;
            DeclKind::Output
        } else {
            DeclKind::Var
        };
        let name = if as_output { self.fresh("o") } else { self.fresh("v") };
        if !as_output && self.cfg.structs && !self.m.structs.is_empty() && d.chance(1, 5) {
            let s = d.below_usize(self.m.structs.len());
            let w = self.m.structs[s].width();
            self.class("var:struct");
            return self.add_decl(name, kind, Ty::u(w), TySyntax::Struct(s));
        }
        let syntax = if as_output { TySyntax::Logic } else { self.gen_syntax(d, ty) };
        let id = self.add_decl(name, kind, ty, syntax);
        self.maybe_cast_only(d, id);
        if !as_output && self.cfg.arrays && d.chance(1, 6) {
            self.cast_only.remove(&id);
            self.m.decls[id].array = Some(2 + d.below(5));
            // keep arrays narrow enough to be cheap
            self.class("var:array");
        }
        id
    }

    /// Statements that assign every bit of `t` (constant values when `lits`).
    fn full_assign(&mut self, d: &mut Draw, sc: &Scope, t: DeclId, lits: bool) -> Vec<Stmt> {
        let dd = self.m.decls[t].clone();
        let rhs_p = |this: &mut Self, d: &mut Draw, ty: Ty, partial: bool| -> Expr {
            if lits {
                // (a select / field target takes at most 64 bits of literal: known finding partial-assign-wide-rhs)
                let w = if partial && this.cfg.avoid.contains("partial-assign-wide-rhs") { ty.w.min(64) } else { ty.w };
                if d.chance(1, 3) { Expr::Lit(Lit::Dec(0)) } else { Expr::lit(Ty::new(w, ty.signed), gen_value(d, w)) }
            } else {
                this.gen_rhs_for(d, sc, ty, partial)
            }
        };
        let rhs = |this: &mut Self, d: &mut Draw, ty: Ty| -> Expr { rhs_p(this, d, ty, false) };
        if let Some(n) = dd.array {
            if self.cfg.for_stmt && d.chance(2, 3) {
                let iname = self.fresh("ix");
                let iv = self.add_decl(iname, DeclKind::LoopVar, Ty::s(32), TySyntax::Fixed);
                self.loop_ranges.insert(iv, n);
                let mut sc2 = sc.clone();
                sc2.vars.push(iv);
                let e = if lits { rhs(self, d, dd.ty) } else { self.gen_rhs(d, &sc2, dd.ty) };
                self.class("stmt:for");
                return vec![Stmt::For {
                    var: iv,
                    lo: 0,
                    hi: n,
                    incl: false,
                    rev: d.chance(1, 4),
                    step: 1,
                    body: vec![Stmt::Assign {
                        lhs: Ref {
                            decl: t,
                            idx: Some(Box::new(Expr::var(iv))),
                            field: None,
                            sel: Sel::None,
                        },
                        op: AssignOp::Set,
                        rhs: e,
                    }],
                    break_if: None,
                }];
            }
            return (0..n)
                .map(|i| Stmt::Assign {
                    lhs: Ref {
                        decl: t,
                        idx: Some(Box::new(Expr::Lit(Lit::Dec(i)))),
                        field: None,
                        sel: Sel::None,
                    },
                    op: AssignOp::Set,
                    rhs: rhs(self, d, dd.ty),
                })
                .collect();
        }
        if let TySyntax::Struct(s) = dd.syntax {
            let nf = self.m.structs[s].fields.len();
            return (0..nf)
                .map(|f| {
                    let ft = self.m.structs[s].fields[f].1;
                    Stmt::Assign {
                        lhs: Ref {
                            decl: t,
                            idx: None,
                            field: Some(f),
                            sel: Sel::None,
                        },
                        op: AssignOp::Set,
                        rhs: rhs_p(self, d, ft, true),
                    }
                })
                .collect();
        }
        // split into two part-select assignments now and then
        if self.cfg.partial_assign && dd.ty.w >= 2 && !matches!(dd.syntax, TySyntax::LogicOf(_)) && d.chance(1, 6) {
            let cut = 1 + d.below(dd.ty.w - 1);
            self.class("stmt:split_assign");
            return vec![
                Stmt::Assign {
                    lhs: Ref {
                        decl: t,
                        idx: None,
                        field: None,
                        sel: Sel::Range(CIdx::Num(cut - 1), CIdx::Num(0)),
                    },
                    op: AssignOp::Set,
                    rhs: rhs_p(self, d, Ty::u(cut), true),
                },
                Stmt::Assign {
                    lhs: Ref {
                        decl: t,
                        idx: None,
                        field: None,
                        sel: Sel::Range(CIdx::Num(dd.ty.w - 1), CIdx::Num(cut)),
                    },
                    op: AssignOp::Set,
                    rhs: rhs_p(self, d, Ty::u(dd.ty.w - cut), true),
                },
            ];
        }
        vec![Stmt::Assign {
            lhs: Ref::whole(t),
            op: AssignOp::Set,
            rhs: rhs(self, d, dd.ty),
        }]
    }

    /// A left-hand side inside `t` (always in range).
    fn gen_lhs(&mut self, d: &mut Draw, sc: &Scope, t: DeclId) -> Ref {
        let dd = self.m.decls[t].clone();
        let mut r = Ref::whole(t);
        if let Some(n) = dd.array {
            r.idx = Some(Box::new(self.gen_index(d, sc, n, true)));
        }
        let mut bw = dd.ty.w;
        if let TySyntax::Struct(s) = dd.syntax {
            if d.chance(2, 3) {
                let f = d.below_usize(self.m.structs[s].fields.len());
                r.field = Some(f);
                bw = self.m.structs[s].fields[f].1.w;
            }
        }
        if self.cfg.partial_assign && !matches!(dd.syntax, TySyntax::LogicOf(_)) && d.chance(1, 3) {
            match d.weighted(&[2, 2, if self.cfg.dyn_selects { 2 } else { 0 }]) {
                0 => r.sel = Sel::BitC(CIdx::Num(d.below(bw))),
                1 => {
                    let lo = d.below(bw);
                    let hi = lo + d.below(bw - lo);
                    r.sel = Sel::Range(CIdx::Num(hi), CIdx::Num(lo));
                }
                _ => {
                    if d.bool() {
                        let i = self.gen_index(d, sc, bw, true);
                        r.sel = Sel::BitD(Box::new(i));
                    } else {
                        let sw = 1 + d.below(bw.min(32));
                        let i = self.gen_index(d, sc, bw - sw + 1, true);
                        r.sel = Sel::PlusC(Box::new(i), sw);
                    }
                    self.class("lhs:dyn_select");
                }
            }
            self.class("lhs:partial");
        }
        r
    }

    fn gen_block(&mut self, d: &mut Draw, sc: &Scope, targets: &[DeclId], depth: u32, blk: Blk, n: u32) -> Vec<Stmt> {
        (0..n).map(|_| self.gen_stmt(d, sc, targets, depth, blk)).collect()
    }

    fn gen_stmt(&mut self, d: &mut Draw, sc: &Scope, targets: &[DeclId], depth: u32, blk: Blk) -> Stmt {
        let c = self.cfg;
        let w = |b: bool, n: u32| if b && depth > 0 { n } else { 0 };
        let k = d.weighted(&[
            4,
            w(c.if_stmt, 3),
            w(c.case_stmt, 2),
            w(c.switch_stmt, 1),
            w(c.for_stmt, 2),
            if c.op_assign { 1 } else { 0 },
            if c.display && blk == Blk::Ff { 1 } else { 0 },
        ]);
        let t = targets[d.below_usize(targets.len())];
        match k {
            1 => {
                let cond = self.gen_cond(d, sc, 2);
                let nt = 1 + d.below(2);
                let then = self.gen_block(d, sc, targets, depth - 1, blk, nt);
                let els = match d.weighted(&[2, 2, 1]) {
                    0 => vec![],
                    1 => {
                        let ne = 1 + d.below(2);
                        self.gen_block(d, sc, targets, depth - 1, blk, ne)
                    }
                    _ => {
                        // else if
                        let c2 = self.gen_cond(d, sc, 1);
                        let t2 = self.gen_block(d, sc, targets, depth - 1, blk, 1);
                        let e2 = if d.bool() { self.gen_block(d, sc, targets, depth - 1, blk, 1) } else { vec![] };
                        vec![Stmt::If {
                            cond: c2,
                            then: t2,
                            els: e2,
                        }]
                    }
                };
                self.class("stmt:if");
                Stmt::If { cond, then, els }
            }
            2 => {
                let (sel, st) = self.gen_selector(d, sc, 1);
                let n = 1 + d.below(3);
                let mut arms = vec![];
                let mut used = vec![];
                for _ in 0..n {
                    let mut items = self.case_items(d, st, &mut used);
                    // known finding jit-panic-wide-case-range: no range items for a selector wider than 64 bits
                    if st.w > 64 && items.iter().any(|i| !matches!(i, RangeItem::Val(_))) && self.avoid(d, "jit-panic-wide-case-range") {
                        items.retain(|i| matches!(i, RangeItem::Val(_)));
                    }
                    if items.is_empty() {
                        continue;
                    }
                    let nb = 1 + d.below(2);
                    arms.push((items, self.gen_block(d, sc, targets, depth - 1, blk, nb)));
                }
                if arms.is_empty() {
                    arms.push((vec![RangeItem::Val(self.lit_of(st, 0))], self.gen_block(d, sc, targets, depth - 1, blk, 1)));
                }
                let default = if d.chance(2, 3) { Some(self.gen_block(d, sc, targets, depth - 1, blk, 1)) } else { None };
                self.class(if default.is_some() { "stmt:case" } else { "stmt:case_nodefault" });
                Stmt::Case { sel, arms, default }
            }
            3 => {
                let n = 1 + d.below(3);
                let mut arms = vec![];
                for _ in 0..n {
                    let nc = 1 + d.below(2);
                    let conds = (0..nc).map(|_| self.gen_cond(d, sc, 1)).collect();
                    arms.push((conds, self.gen_block(d, sc, targets, depth - 1, blk, 1)));
                }
                let default = if d.chance(2, 3) { Some(self.gen_block(d, sc, targets, depth - 1, blk, 1)) } else { None };
                self.class(if default.is_some() { "stmt:switch" } else { "stmt:switch_nodefault" });
                Stmt::Switch { arms, default }
            }
            4 => {
                let iname = self.fresh("ix");
                let iv = self.add_decl(iname, DeclKind::LoopVar, Ty::s(32), TySyntax::Fixed);
                let lo = d.below(3);
                let cnt = 1 + d.below(6);
                let rev = d.chance(1, 4);
                // `rev` with a step counts down from the top bound: keep step 1 there
                let step = if !rev && d.chance(1, 5) { 2 } else { 1 };
                let incl = d.chance(1, 4);
                let hi = if incl { lo + cnt - 1 } else { lo + cnt };
                self.loop_ranges.insert(iv, if incl { hi + 1 } else { hi });
                let mut sc2 = sc.clone();
                sc2.vars.push(iv);
                // bias: bit-wise work on a target
                let mut body = vec![];
                let tw = self.m.decls[t].ty.w;
                let simple = self.m.decls[t].array.is_none() && !matches!(self.m.decls[t].syntax, TySyntax::Struct(_) | TySyntax::LogicOf(_));
                let top = if incl { hi + 1 } else { hi };
                if simple && top <= tw && d.chance(2, 3) {
                    let e = self.gen_rhs(d, &sc2, Ty::BIT);
                    body.push(Stmt::Assign {
                        lhs: Ref {
                            decl: t,
                            idx: None,
                            field: None,
                            sel: Sel::BitD(Box::new(Expr::var(iv))),
                        },
                        op: AssignOp::Set,
                        rhs: e,
                    });
                    self.class("stmt:for_bitwise");
                } else {
                    body = self.gen_block(d, &sc2, targets, depth - 1, blk, 1);
                }
                let break_if = if d.chance(1, 5) { Some(self.gen_cond(d, &sc2, 1)) } else { None };
                if break_if.is_some() {
                    self.class("stmt:break");
                }
                self.class("stmt:for");
                Stmt::For {
                    var: iv,
                    lo,
                    hi,
                    incl,
                    rev,
                    step,
                    body,
                    break_if,
                }
            }
            5 => {
                // op-assign on a whole scalar target
                let dd = &self.m.decls[t];
                if dd.array.is_none() && !matches!(dd.syntax, TySyntax::Struct(_)) {
                    let ty = dd.ty;
                    let ops: &[BinOp] = if ty.signed {
                        &[BinOp::Add, BinOp::Sub, BinOp::Mul, BinOp::And, BinOp::Or, BinOp::Xor, BinOp::Shl, BinOp::Shr, BinOp::AShr, BinOp::AShl]
                    } else {
                        &[BinOp::Add, BinOp::Sub, BinOp::Mul, BinOp::And, BinOp::Or, BinOp::Xor, BinOp::Shl, BinOp::Shr]
                    };
                    let op = *d.pick(ops);
                    let rhs = if op.is_shift() { self.gen_shift_amount(d, sc, ty.w, 1) } else { self.gen_rhs(d, sc, ty) };
                    self.class("stmt:op_assign");
                    return Stmt::Assign {
                        lhs: Ref::whole(t),
                        op: AssignOp::Op(op),
                        rhs,
                    };
                }
                let lhs = self.gen_lhs(d, sc, t);
                let ty = eval::ref_ty(&self.m, &lhs);
                let partial = !matches!(lhs.sel, Sel::None) || lhs.field.is_some() || lhs.idx.is_some();
                let rhs = self.gen_rhs_for(d, sc, ty, partial);
                Stmt::Assign {
                    lhs,
                    op: AssignOp::Set,
                    rhs,
                }
            }
            6 => {
                let n = 1 + d.below(2);
                let mut fmt = String::from("d");
                let mut args = vec![];
                for i in 0..n {
                    let e = self.gen_expr(d, sc, 1, None, false);
                    let e = self.force_sign(d, e, false);
                    fmt.push_str(&format!(" {i}=%h"));
                    args.push(e);
                }
                self.class("stmt:display");
                Stmt::Display { fmt, args }
            }
            _ => {
                let lhs = self.gen_lhs(d, sc, t);
                let ty = eval::ref_ty(&self.m, &lhs);
                let partial = !matches!(lhs.sel, Sel::None) || lhs.field.is_some() || lhs.idx.is_some();
                let rhs = self.gen_rhs_for(d, sc, ty, partial);
                Stmt::Assign {
                    lhs,
                    op: AssignOp::Set,
                    rhs,
                }
            }
        }
    }
}

/// Summary of a child module the parent needs for instantiation.
fn needs_clock(design_modules: &[Module], m: &Module) -> bool {
    m.has_ff()
        || m.items.iter().any(|it| match it {
            Item::Inst { module, .. } => needs_clock(design_modules, &design_modules[*module]),
            _ => false,
        })
}

fn gen_module(d: &mut Draw, cfg: &GenCfg, name: &str, done: &[Module], children: &[usize], is_child: bool) -> (Module, BTreeSet<String>, BTreeMap<String, u64>) {
    let mut g = MGen::new(cfg, name);
    // ---- ports
    let n_in = 1 + d.below(cfg.max_inputs.max(1) as u32);
    let mut sc = Scope::default();
    g.gen_consts(d, is_child);
    sc.vars.extend(g.const_scope().vars);
    let width_params: Vec<DeclId> = (0..g.m.decls.len())
        .filter(|&i| {
            let dd = &g.m.decls[i];
            dd.kind == DeclKind::Param && dd.ty == Ty::u(32) && dd.syntax == TySyntax::Fixed
        })
        .collect();
    for _ in 0..n_in {
        let name = g.fresh("a");
        if !width_params.is_empty() && d.chance(1, 4) {
            let p = width_params[d.below_usize(width_params.len())];
            let w = g.m.decls[p].value.as_ref().unwrap().iter_u32_digits().next().unwrap_or(1);
            let signed = cfg.signed && d.chance(1, 3);
            let id = g.add_decl(name, DeclKind::Input, Ty::new(w, signed), TySyntax::LogicOf(p));
            sc.vars.push(id);
            g.class("decl:param_width");
            continue;
        }
        let t = g.gen_ty(d);
        let id = g.add_decl(name, DeclKind::Input, t, TySyntax::Logic);
        g.maybe_cast_only(d, id);
        sc.vars.push(id);
    }
    g.gen_types(d);
    g.gen_funcs(d);
    sc.funcs = (0..g.m.funcs.len()).collect();
    let mut outputs_left = 1 + d.below(cfg.max_outputs.max(1) as u32) as usize;

    // ---- flip-flop groups: declared now, bodies generated last
    let mut ff_groups: Vec<Vec<DeclId>> = vec![];
    if cfg.always_ff {
        let n = d.weighted(&[2, 3, 2, 1]);
        for _ in 0..n {
            let k = 1 + d.below(3);
            let mut grp = vec![];
            for _ in 0..k {
                let t = g.new_target(d, true, &mut outputs_left);
                // known finding `ff-array-dynamic-index`: an unpacked array
                // held in flip-flops and read with a run-time index makes
                // build_ir fail ("unsupported description") in some modes
                if g.m.decls[t].array.is_some() && g.avoid(d, "ff-array-dynamic-index") {
                    g.m.decls[t].array = None;
                }
                grp.push(t);
                sc.vars.push(t);
            }
            ff_groups.push(grp);
        }
    }

    // ---- combinational items
    let n_items = d.below(cfg.max_items as u32 + 1);
    let mut insts_left: Vec<usize> = children.to_vec();
    for _ in 0..n_items {
        let k = d.weighted(&[
            3,
            if cfg.lets { 2 } else { 0 },
            if cfg.always_comb { 3 } else { 0 },
            if !insts_left.is_empty() { 3 } else { 0 },
        ]);
        match k {
            1 => {
                let ty = g.gen_ty(d);
                let syntax = g.gen_syntax(d, ty);
                let name = g.fresh("l");
                let e = g.gen_rhs(d, &sc, ty);
                let id = g.add_decl(name, DeclKind::Let, ty, syntax);
                g.maybe_cast_only(d, id);
                g.m.items.push(Item::Let { decl: id, rhs: e });
                sc.vars.push(id);
                g.class("item:let");
            }
            2 => {
                let nt = 1 + d.below(3);
                let targets: Vec<DeclId> = (0..nt).map(|_| g.new_target(d, true, &mut outputs_left)).collect();
                let mut body = vec![];
                let mut sc2 = sc.clone();
                for &t in &targets {
                    body.extend(g.full_assign(d, &sc2, t, false));
                    sc2.vars.push(t);
                }
                let n = d.below(4);
                body.extend(g.gen_block(d, &sc2, &targets, 2, Blk::Comb, n));
                g.m.items.push(Item::AlwaysComb(body));
                sc = sc2;
                g.class("item:always_comb");
            }
            3 => {
                let ci = insts_left.remove(0);
                let cm = &done[ci];
                let mut conns = vec![];
                let mut new_vars = vec![];
                for (pid, p) in cm.ports() {
                    match p.kind {
                        DeclKind::Input => {
                            let e = g.gen_rhs(d, &sc, p.ty);
                            conns.push((pid, Conn::In(e)));
                        }
                        DeclKind::Output => {
                            let name = g.fresh("v");
                            let id = g.add_decl(name, DeclKind::Var, p.ty, TySyntax::Logic);
                            conns.push((pid, Conn::Out(id)));
                            new_vars.push(id);
                        }
                        _ => {}
                    }
                }
                let mut params = vec![];
                for (i, p) in cm.decls.iter().enumerate() {
                    if p.kind == DeclKind::Param {
                        let actual = p.value.clone().unwrap_or_default();
                        let same = match &p.init {
                            Some(Expr::Lit(Lit::Dec(n))) => BigUint::from(*n) == actual,
                            Some(Expr::Lit(Lit::Sized { val, .. })) => *val == actual,
                            _ => false,
                        };
                        if !same || d.chance(1, 4) {
                            let e = if p.ty == Ty::u(32) && p.syntax == TySyntax::Fixed {
                                Expr::Lit(Lit::Dec(actual.iter_u32_digits().next().unwrap_or(0)))
                            } else {
                                Expr::lit(p.ty, actual)
                            };
                            params.push((i, e));
                            g.class("inst:param_override");
                        }
                    }
                }
                let name = g.fresh("un");
                g.m.items.push(Item::Inst {
                    name,
                    module: ci,
                    params,
                    conns,
                });
                sc.vars.extend(new_vars);
                g.class("item:inst");
            }
            _ => {
                let t = g.new_target(d, true, &mut outputs_left);
                for s in g.full_assign(d, &sc, t, false) {
                    match s {
                        Stmt::Assign { lhs, rhs, .. } => g.m.items.push(Item::Assign { lhs, rhs }),
                        other => g.m.items.push(Item::AlwaysComb(vec![other])),
                    }
                }
                sc.vars.push(t);
                g.class("item:assign");
            }
        }
    }

    // ---- flip-flop bodies (may read everything)
    for grp in &ff_groups {
        let mut reset = vec![];
        for &t in grp {
            reset.extend(g.full_assign(d, &sc, t, true));
        }
        let n = 1 + d.below(4);
        let body = g.gen_block(d, &sc, grp, 2, Blk::Ff, n);
        g.m.items.push(Item::AlwaysFf {
            reset,
            body,
            explicit: d.chance(1, 4),
        });
        g.class("item:always_ff");
    }

    // ---- remaining outputs
    let have_out = g.m.decls.iter().filter(|x| x.kind == DeclKind::Output).count();
    let n_more = outputs_left.max(if have_out == 0 { 1 } else { 0 });
    for _ in 0..n_more {
        let ty = g.gen_ty(d);
        let name = g.fresh("o");
        let id = g.add_decl(name, DeclKind::Output, ty, TySyntax::Logic);
        let e = g.gen_rhs(d, &sc, ty);
        g.m.items.push(Item::Assign {
            lhs: Ref::whole(id),
            rhs: e,
        });
    }

    // ---- clock / reset
    let child_clk = g.m.items.iter().any(|it| match it {
        Item::Inst { module, .. } => needs_clock(done, &done[*module]),
        _ => false,
    });
    if g.m.has_ff() || child_clk {
        g.add_decl("clk".into(), DeclKind::Clock, Ty::BIT, TySyntax::Logic);
        g.add_decl("rst".into(), DeclKind::Reset, Ty::BIT, TySyntax::Logic);
    }

    // ---- printing order: a random permutation now and then
    if d.chance(1, 3) {
        let n = g.m.items.len();
        let mut order: Vec<usize> = (0..n).collect();
        for i in (1..n).rev() {
            let j = d.below(i as u32 + 1) as usize;
            order.swap(i, j);
        }
        g.m.print_order = order;
        g.class("layout:shuffled_items");
    }
    (g.m, g.classes, g.excluded)
}

/// Generate a design: up to two child modules and a top module `Top`.
pub fn gen_design(d: &mut Draw, cfg: &GenCfg) -> Generated {
    let mut modules: Vec<Module> = vec![];
    let mut classes = BTreeSet::new();
    let mut excluded = BTreeMap::new();
    let n_children = if cfg.insts { d.weighted(&[3, 2, 1]) } else { 0 };
    let child_cfg = GenCfg {
        insts: false,
        max_items: cfg.max_items.min(3),
        max_inputs: cfg.max_inputs.min(3),
        max_outputs: cfg.max_outputs.min(2),
        ..cfg.clone()
    };
    for i in 0..n_children {
        let (m, c, e) = gen_module(d, &child_cfg, &format!("Sub{i}"), &modules, &[], true);
        modules.push(m);
        classes.extend(c);
        for (k, v) in e {
            *excluded.entry(k).or_insert(0) += v;
        }
    }
    let children: Vec<usize> = (0..modules.len()).collect();
    let (top, c, e) = gen_module(d, cfg, "Top", &modules, &children, false);
    classes.extend(c);
    for (k, v) in e {
        *excluded.entry(k).or_insert(0) += v;
    }
    modules.push(top);
    let top = modules.len() - 1;
    // children that were not instantiated are dropped from the text? keep them: harmless
    Generated {
        design: Design { modules, top },
        classes,
        excluded,
    }
}

/// What `gen_expr_design` knows about one output expression.
#[derive(Clone, Debug)]
pub struct ExprInfo {
    pub output: DeclId,
    pub classes: BTreeSet<String>,
    /// widest operand or result
    pub max_width: u32,
    /// some operand is signed
    pub any_signed: bool,
    /// the whole expression is signed (§11.8.1)
    pub signed_ctx: bool,
}

fn scan_expr(m: &Module, e: &Expr, maxw: &mut u32, any_signed: &mut bool) {
    let t = ty_of(m, e);
    *maxw = (*maxw).max(t.w);
    match e {
        Expr::Ref(r) => {
            let bt = m.decls[r.decl].ty;
            *maxw = (*maxw).max(bt.w);
            if t.signed {
                *any_signed = true;
            }
            if let Some(i) = &r.idx {
                scan_expr(m, i, maxw, any_signed);
            }
            match &r.sel {
                Sel::BitD(x) | Sel::PlusC(x, _) | Sel::MinusC(x, _) | Sel::Step(x, _) => scan_expr(m, x, maxw, any_signed),
                _ => {}
            }
        }
        Expr::Lit(_) | Expr::EnumVal(..) | Expr::Bits(_) => {
            if t.signed && !matches!(e, Expr::Lit(Lit::Dec(_))) {
                *any_signed = true;
            }
        }
        Expr::Un(_, a) | Expr::Cast(a, _) | Expr::Unsigned(a) | Expr::Clog2(a) => scan_expr(m, a, maxw, any_signed),
        Expr::Signed(a) => {
            *any_signed = true;
            scan_expr(m, a, maxw, any_signed)
        }
        Expr::Bin(_, a, b) => {
            scan_expr(m, a, maxw, any_signed);
            scan_expr(m, b, maxw, any_signed);
        }
        Expr::If(c, a, b) => {
            scan_expr(m, c, maxw, any_signed);
            scan_expr(m, a, maxw, any_signed);
            scan_expr(m, b, maxw, any_signed);
        }
        Expr::Case(s, arms, dflt) => {
            scan_expr(m, s, maxw, any_signed);
            for (_, a) in arms {
                scan_expr(m, a, maxw, any_signed);
            }
            scan_expr(m, dflt, maxw, any_signed);
        }
        Expr::Switch(arms, dflt) => {
            for (cs, a) in arms {
                for c in cs {
                    scan_expr(m, c, maxw, any_signed);
                }
                scan_expr(m, a, maxw, any_signed);
            }
            scan_expr(m, dflt, maxw, any_signed);
        }
        Expr::Concat(ps) => {
            for (p, _) in ps {
                scan_expr(m, p, maxw, any_signed);
            }
        }
        Expr::Inside(x, _, _) => scan_expr(m, x, maxw, any_signed),
        Expr::Call(_, args) => {
            for a in args {
                scan_expr(m, a, maxw, any_signed);
            }
        }
    }
}

/// C18 flavour: module `Top` with input ports and `n` outputs, each
/// `assign o = <expression over the inputs>;`.  `single_op` limits every
/// expression to one operator over leaves.
pub fn gen_expr_design(d: &mut Draw, cfg: &GenCfg, n: usize, single_op: bool) -> (Generated, Vec<ExprInfo>) {
    let mut g = MGen::new(cfg, "Top");
    let n_in = 2 + d.below(cfg.max_inputs.max(2) as u32 - 1);
    let mut sc = Scope::default();
    for _ in 0..n_in {
        let name = g.fresh("a");
        let t = g.gen_ty(d);
        let id = g.add_decl(name, DeclKind::Input, t, TySyntax::Logic);
        g.maybe_cast_only(d, id);
        sc.vars.push(id);
    }
    let mut infos = vec![];
    for _ in 0..n {
        let ty = g.gen_ty(d);
        let name = g.fresh("o");
        let saved = std::mem::take(&mut g.classes);
        let sg = cfg.signed && d.chance(1, 3);
        let depth = if single_op { 1 } else { 1 + d.below(cfg.expr_depth) };
        let hint = if d.chance(1, 2) { Some(ty) } else { None };
        let e = g.checked(d, ty.w, &mut |g, d| {
            // non-default bias (consumes nothing when off)
            if g.cfg.wrap_per_mille > 0 && d.chance(g.cfg.wrap_per_mille, 1000) {
                return g.gen_wrap_expr(d, &sc);
            }
            let mut e = g.gen_expr(d, &sc, depth, hint, sg);
            if single_op {
                // retry a few times to get an operator rather than a leaf
                let mut tries = 0;
                while matches!(e, Expr::Lit(_) | Expr::Ref(_)) && tries < 3 {
                    e = g.gen_expr(d, &sc, 1, hint, sg);
                    tries += 1;
                }
            }
            e
        });
        let id = g.add_decl(name, DeclKind::Output, ty, TySyntax::Logic);
        let mut maxw = ty.w;
        let mut any_signed = false;
        scan_expr(&g.m, &e, &mut maxw, &mut any_signed);
        let signed_ctx = ty_of(&g.m, &e).signed;
        let mut cls = std::mem::replace(&mut g.classes, saved);
        if signed_ctx {
            cls.insert("ctx:signed".into());
        }
        cls.insert(format!("maxw:{}", width_class(maxw)));
        g.classes.extend(cls.iter().cloned());
        infos.push(ExprInfo {
            output: id,
            classes: cls,
            max_width: maxw,
            any_signed,
            signed_ctx,
        });
        g.m.items.push(Item::Assign {
            lhs: Ref::whole(id),
            rhs: e,
        });
    }
    let out = Generated {
        design: Design {
            modules: vec![g.m],
            top: 0,
        },
        classes: g.classes,
        excluded: g.excluded,
    };
    (out, infos)
}

/// The same design with every data input of the top module turned into a
/// `const` of the given value, whole references to it replaced by a sized
/// literal of the port's type, and every output driven through a `const` of
/// the output's type — so the analyzer evaluates each output expression at
/// compile time (C18, second sentence).  Only for designs whose top module
/// is purely `assign out = expr` (as produced by `gen_expr_design`).
pub fn constify(design: &Design, values: &[(DeclId, BigUint)]) -> Design {
    let mut dsg = design.clone();
    let top = dsg.top;
    let m = &mut dsg.modules[top];
    let vals: BTreeMap<DeclId, BigUint> = values.iter().cloned().collect();
    for (id, v) in &vals {
        let dd = &mut m.decls[*id];
        dd.kind = DeclKind::Const;
        dd.value = Some(v.clone());
        dd.init = Some(Expr::lit(dd.ty, v.clone()));
    }
    fn subst(m: &Module, vals: &BTreeMap<DeclId, BigUint>, e: &mut Expr) {
        match e {
            Expr::Ref(r) => {
                if let Some(i) = &mut r.idx {
                    subst(m, vals, i);
                }
                match &mut r.sel {
                    Sel::BitD(x) | Sel::PlusC(x, _) | Sel::MinusC(x, _) | Sel::Step(x, _) => subst(m, vals, x),
                    _ => {}
                }
                if matches!(r.sel, Sel::None) && r.idx.is_none() && r.field.is_none() {
                    if let Some(v) = vals.get(&r.decl) {
                        *e = Expr::lit(m.decls[r.decl].ty, v.clone());
                    }
                }
            }
            Expr::Lit(_) | Expr::EnumVal(..) | Expr::Bits(_) => {}
            Expr::Un(_, a) | Expr::Cast(a, _) | Expr::Unsigned(a) | Expr::Signed(a) | Expr::Clog2(a) => subst(m, vals, a),
            Expr::Bin(_, a, b) => {
                subst(m, vals, a);
                subst(m, vals, b);
            }
            Expr::If(c, a, b) => {
                subst(m, vals, c);
                subst(m, vals, a);
                subst(m, vals, b);
            }
            Expr::Case(s, arms, dflt) => {
                subst(m, vals, s);
                for (_, a) in arms {
                    subst(m, vals, a);
                }
                subst(m, vals, dflt);
            }
            Expr::Switch(arms, dflt) => {
                for (cs, a) in arms {
                    for c in cs {
                        subst(m, vals, c);
                    }
                    subst(m, vals, a);
                }
                subst(m, vals, dflt);
            }
            Expr::Concat(ps) => {
                for (p, _) in ps {
                    subst(m, vals, p);
                }
            }
            Expr::Inside(x, _, _) => subst(m, vals, x),
            Expr::Call(_, args) => {
                for a in args {
                    subst(m, vals, a);
                }
            }
        }
    }
    let snapshot = m.clone();
    let mut new_items = vec![];
    let mut k = 0;
    for it in m.items.iter_mut() {
        if let Item::Assign { lhs, rhs } = it {
            subst(&snapshot, &vals, rhs);
            if matches!(lhs.sel, Sel::None) && snapshot.decls[lhs.decl].kind == DeclKind::Output {
                // const K: <type of the output> = rhs; assign o = K;
                k += 1;
                let od = &snapshot.decls[lhs.decl];
                new_items.push((format!("K{k}"), od.ty, rhs.clone(), lhs.decl));
            }
        }
    }
    for (name, ty, rhs, out) in new_items {
        m.decls.push(Decl {
            name,
            kind: DeclKind::Const,
            ty,
            syntax: TySyntax::Logic,
            array: None,
            value: None,
            init: Some(rhs),
        });
        let kid = m.decls.len() - 1;
        for it in m.items.iter_mut() {
            if let Item::Assign { lhs, rhs } = it {
                if lhs.decl == out {
                    *rhs = Expr::var(kid);
                }
            }
        }
    }
    dsg
}
