//! Renders the design IR as Veryl source text.
//!
//! Every non-atomic operand is parenthesised, so the text has exactly the
//! tree shape of the IR (parentheses do not create a self-determined context
//! in SystemVerilog, LRM §11.8.2).

use crate::ir::*;
use std::fmt::Write;

pub fn print_design(d: &Design) -> String {
    let mut s = String::new();
    for m in &d.modules {
        print_module(d, m, &mut s);
        s.push('\n');
    }
    s
}

fn fixed_name(t: Ty) -> Option<&'static str> {
    Some(match (t.w, t.signed) {
        (8, false) => "u8",
        (16, false) => "u16",
        (32, false) => "u32",
        (64, false) => "u64",
        (8, true) => "i8",
        (16, true) => "i16",
        (32, true) => "i32",
        (64, true) => "i64",
        _ => return None,
    })
}

pub fn type_text(m: &Module, ty: Ty, syn: &TySyntax) -> String {
    let sg = if ty.signed { "signed " } else { "" };
    match syn {
        TySyntax::Logic => {
            if ty.w == 1 && !ty.signed {
                "logic".into()
            } else {
                format!("{sg}logic<{}>", ty.w)
            }
        }
        TySyntax::Bit => {
            if ty.w == 1 && !ty.signed {
                "bit".into()
            } else {
                format!("{sg}bit<{}>", ty.w)
            }
        }
        TySyntax::Fixed => fixed_name(ty).map(|s| s.to_string()).unwrap_or_else(|| format!("{sg}logic<{}>", ty.w)),
        TySyntax::LogicOf(p) => format!("{sg}logic<{}>", m.decls[*p].name),
        TySyntax::Struct(i) => m.structs[*i].name.clone(),
        TySyntax::Enum(i) => m.enums[*i].name.clone(),
    }
}

fn decl_type(m: &Module, d: &Decl) -> String {
    let mut t = type_text(m, d.ty, &d.syntax);
    if let Some(n) = d.array {
        write!(t, " [{n}]").unwrap();
    }
    t
}

fn print_module(design: &Design, m: &Module, s: &mut String) {
    write!(s, "module {}", m.name).unwrap();
    let params: Vec<&Decl> = m.decls.iter().filter(|d| d.kind == DeclKind::Param).collect();
    if !params.is_empty() {
        s.push_str(" #(\n");
        for p in params {
            let init = p.init.as_ref().map(|e| expr(m, e)).unwrap_or_else(|| "0".into());
            writeln!(s, "    param {}: {} = {},", p.name, decl_type(m, p), init).unwrap();
        }
        s.push(')');
    }
    s.push_str(" (\n");
    for (_, p) in m.ports() {
        let dir = match p.kind {
            DeclKind::Clock => {
                writeln!(s, "    {}: input clock,", p.name).unwrap();
                continue;
            }
            DeclKind::Reset => {
                writeln!(s, "    {}: input reset,", p.name).unwrap();
                continue;
            }
            DeclKind::Input => "input",
            _ => "output",
        };
        writeln!(s, "    {}: {dir} {},", p.name, decl_type(m, p)).unwrap();
    }
    s.push_str(") {\n");
    for st in &m.structs {
        writeln!(s, "    struct {} {{", st.name).unwrap();
        for (n, t) in &st.fields {
            writeln!(s, "        {n}: {},", type_text(m, *t, &TySyntax::Logic)).unwrap();
        }
        s.push_str("    }\n");
    }
    for en in &m.enums {
        writeln!(s, "    enum {}: {} {{", en.name, type_text(m, en.base, &TySyntax::Logic)).unwrap();
        for (n, v) in &en.variants {
            if en.explicit {
                writeln!(s, "        {n} = {}'d{v},", en.base.w).unwrap();
            } else {
                writeln!(s, "        {n},").unwrap();
            }
        }
        s.push_str("    }\n");
    }
    for d in m.decls.iter().filter(|d| d.kind == DeclKind::Const) {
        let init = d.init.as_ref().map(|e| expr(m, e)).unwrap_or_else(|| "0".into());
        writeln!(s, "    const {}: {} = {};", d.name, decl_type(m, d), init).unwrap();
    }
    for f in &m.funcs {
        writeln!(s, "    function {} (", f.name).unwrap();
        for a in &f.args {
            let d = &m.decls[*a];
            writeln!(s, "        {}: input {},", d.name, decl_type(m, d)).unwrap();
        }
        writeln!(s, "    ) -> {} {{", type_text(m, f.ret, &TySyntax::Logic)).unwrap();
        for l in &f.locals {
            let d = &m.decls[*l];
            writeln!(s, "        var {}: {};", d.name, decl_type(m, d)).unwrap();
        }
        stmts(m, &f.body, 2, s);
        s.push_str("    }\n");
    }
    for d in m.decls.iter().filter(|d| d.kind == DeclKind::Var) {
        writeln!(s, "    var {}: {};", d.name, decl_type(m, d)).unwrap();
    }
    let order: Vec<usize> = if m.print_order.len() == m.items.len() {
        m.print_order.clone()
    } else {
        (0..m.items.len()).collect()
    };
    // `let` must precede its uses textually: print all lets first, in dependency order
    for it in &m.items {
        if let Item::Let { decl, rhs } = it {
            let d = &m.decls[*decl];
            writeln!(s, "    let {}: {} = {};", d.name, decl_type(m, d), expr(m, rhs)).unwrap();
        }
    }
    for i in order {
        match &m.items[i] {
            Item::Let { .. } => {}
            Item::Assign { lhs, rhs } => {
                writeln!(s, "    assign {} = {};", ref_text(m, lhs), expr(m, rhs)).unwrap();
            }
            Item::AlwaysComb(b) => {
                s.push_str("    always_comb {\n");
                stmts(m, b, 2, s);
                s.push_str("    }\n");
            }
            Item::AlwaysFf { reset, body, explicit } => {
                if *explicit {
                    let c = m.clock().map(|c| m.decls[c].name.clone()).unwrap_or_default();
                    let r = m.reset().map(|c| m.decls[c].name.clone()).unwrap_or_default();
                    writeln!(s, "    always_ff ({c}, {r}) {{").unwrap();
                } else {
                    s.push_str("    always_ff {\n");
                }
                s.push_str("        if_reset {\n");
                stmts(m, reset, 3, s);
                s.push_str("        } else {\n");
                stmts(m, body, 3, s);
                s.push_str("        }\n    }\n");
            }
            Item::Inst {
                name,
                module,
                params,
                conns,
            } => {
                let cm = &design.modules[*module];
                write!(s, "    inst {name}: {}", cm.name).unwrap();
                if !params.is_empty() {
                    s.push_str(" #(\n");
                    for (p, e) in params {
                        writeln!(s, "        {}: {},", cm.decls[*p].name, expr(m, e)).unwrap();
                    }
                    s.push_str("    )");
                }
                s.push_str(" (\n");
                if let Some(c) = cm.clock() {
                    let pc = m.clock().map(|c| m.decls[c].name.clone()).unwrap_or_default();
                    writeln!(s, "        {}: {pc},", cm.decls[c].name).unwrap();
                }
                if let Some(c) = cm.reset() {
                    let pc = m.reset().map(|c| m.decls[c].name.clone()).unwrap_or_default();
                    writeln!(s, "        {}: {pc},", cm.decls[c].name).unwrap();
                }
                for (p, c) in conns {
                    let t = match c {
                        Conn::In(e) => expr(m, e),
                        Conn::Out(d) => m.decls[*d].name.clone(),
                    };
                    writeln!(s, "        {}: {t},", cm.decls[*p].name).unwrap();
                }
                s.push_str("    );\n");
            }
        }
    }
    s.push_str("}\n");
}

fn ind(n: usize) -> String {
    "    ".repeat(n)
}

fn range_items(m: &Module, items: &[RangeItem]) -> String {
    items
        .iter()
        .map(|i| match i {
            RangeItem::Val(v) => expr(m, v),
            RangeItem::Excl(a, b) => format!("{}..{}", atom(m, a), atom(m, b)),
            RangeItem::Incl(a, b) => format!("{}..={}", atom(m, a), atom(m, b)),
        })
        .collect::<Vec<_>>()
        .join(", ")
}

fn block(m: &Module, b: &[Stmt], lvl: usize, s: &mut String) {
    s.push_str("{\n");
    stmts(m, b, lvl + 1, s);
    write!(s, "{}}}", ind(lvl)).unwrap();
}

fn stmts(m: &Module, b: &[Stmt], lvl: usize, s: &mut String) {
    for st in b {
        stmt(m, st, lvl, s);
    }
}

fn stmt(m: &Module, st: &Stmt, lvl: usize, s: &mut String) {
    let i = ind(lvl);
    match st {
        Stmt::Assign { lhs, op, rhs } => {
            let o = match op {
                AssignOp::Set => "=".to_string(),
                AssignOp::Op(b) => format!("{}=", b.text()),
            };
            writeln!(s, "{i}{} {o} {};", ref_text(m, lhs), expr(m, rhs)).unwrap();
        }
        Stmt::AssignConcat { lhs, rhs } => {
            let l: Vec<String> = lhs.iter().map(|r| ref_text(m, r)).collect();
            writeln!(s, "{i}{{{}}} = {};", l.join(", "), expr(m, rhs)).unwrap();
        }
        Stmt::If { cond, then, els } => {
            write!(s, "{i}if {} ", expr(m, cond)).unwrap();
            block(m, then, lvl, s);
            let mut e = els;
            loop {
                if e.is_empty() {
                    break;
                }
                if e.len() == 1
                    && let Stmt::If { cond, then, els } = &e[0]
                {
                    write!(s, " else if {} ", expr(m, cond)).unwrap();
                    block(m, then, lvl, s);
                    e = els;
                    continue;
                }
                s.push_str(" else ");
                block(m, e, lvl, s);
                break;
            }
            s.push('\n');
        }
        Stmt::Case { sel, arms, default } => {
            writeln!(s, "{i}case {} {{", expr(m, sel)).unwrap();
            for (items, b) in arms {
                write!(s, "{}{}: ", ind(lvl + 1), range_items(m, items)).unwrap();
                block(m, b, lvl + 1, s);
                s.push('\n');
            }
            if let Some(d) = default {
                write!(s, "{}default: ", ind(lvl + 1)).unwrap();
                block(m, d, lvl + 1, s);
                s.push('\n');
            }
            writeln!(s, "{i}}}").unwrap();
        }
        Stmt::Switch { arms, default } => {
            writeln!(s, "{i}switch {{").unwrap();
            for (conds, b) in arms {
                let c: Vec<String> = conds.iter().map(|c| expr(m, c)).collect();
                write!(s, "{}{}: ", ind(lvl + 1), c.join(", ")).unwrap();
                block(m, b, lvl + 1, s);
                s.push('\n');
            }
            if let Some(d) = default {
                write!(s, "{}default: ", ind(lvl + 1)).unwrap();
                block(m, d, lvl + 1, s);
                s.push('\n');
            }
            writeln!(s, "{i}}}").unwrap();
        }
        Stmt::For {
            var,
            lo,
            hi,
            incl,
            rev,
            step,
            body,
            break_if,
        } => {
            let r = if *rev { "rev " } else { "" };
            let dots = if *incl { "..=" } else { ".." };
            let stp = if *step > 1 { format!(" step += {step}") } else { String::new() };
            writeln!(s, "{i}for {} in {r}{lo}{dots}{hi}{stp} {{", m.decls[*var].name).unwrap();
            if let Some(b) = break_if {
                writeln!(s, "{}if {} {{", ind(lvl + 1), expr(m, b)).unwrap();
                writeln!(s, "{}break;", ind(lvl + 2)).unwrap();
                writeln!(s, "{}}}", ind(lvl + 1)).unwrap();
            }
            stmts(m, body, lvl + 1, s);
            writeln!(s, "{i}}}").unwrap();
        }
        Stmt::Display { fmt, args } => {
            let mut a = String::new();
            for e in args {
                write!(a, ", {}", expr(m, e)).unwrap();
            }
            writeln!(s, "{i}$display(\"{fmt}\"{a});").unwrap();
        }
        Stmt::Return(e) => {
            writeln!(s, "{i}return {};", expr(m, e)).unwrap();
        }
    }
}

fn cidx_text(c: CIdx) -> String {
    match c {
        CIdx::Num(n) => n.to_string(),
        CIdx::Msb(0) => "msb".into(),
        CIdx::Msb(k) => format!("msb - {k}"),
        CIdx::Lsb(0) => "lsb".into(),
        CIdx::Lsb(k) => format!("lsb + {k}"),
    }
}

pub fn ref_text(m: &Module, r: &Ref) -> String {
    let d = &m.decls[r.decl];
    let mut s = d.name.clone();
    if let Some(i) = &r.idx {
        write!(s, "[{}]", expr(m, i)).unwrap();
    }
    if let (Some(f), TySyntax::Struct(st)) = (r.field, &d.syntax) {
        write!(s, ".{}", m.structs[*st].fields[f].0).unwrap();
    }
    match &r.sel {
        Sel::None => {}
        Sel::BitC(c) => write!(s, "[{}]", cidx_text(*c)).unwrap(),
        Sel::BitD(e) => write!(s, "[{}]", expr(m, e)).unwrap(),
        Sel::Range(h, l) => write!(s, "[{}:{}]", cidx_text(*h), cidx_text(*l)).unwrap(),
        Sel::PlusC(e, w) => write!(s, "[{}+:{w}]", expr(m, e)).unwrap(),
        Sel::MinusC(e, w) => write!(s, "[{}-:{w}]", expr(m, e)).unwrap(),
        Sel::Step(e, w) => write!(s, "[{} step {w}]", expr(m, e)).unwrap(),
    }
    s
}

fn lit_text(l: &Lit) -> String {
    match l {
        Lit::Sized { w, signed, base, val } => {
            let sg = if *signed { "s" } else { "" };
            match base {
                Base::Hex => format!("{w}'{sg}h{val:x}"),
                Base::Dec => format!("{w}'{sg}d{val}"),
                Base::Bin => format!("{w}'{sg}b{val:b}"),
                Base::Oct => format!("{w}'{sg}o{val:o}"),
            }
        }
        Lit::Dec(n) => n.to_string(),
        Lit::AllZero => "'0".into(),
        Lit::AllOne => "'1".into(),
    }
}

fn is_atom(e: &Expr) -> bool {
    matches!(
        e,
        Expr::Lit(_)
            | Expr::Ref(_)
            | Expr::EnumVal(..)
            | Expr::Concat(_)
            | Expr::Signed(_)
            | Expr::Unsigned(_)
            | Expr::Call(..)
            | Expr::Clog2(_)
            | Expr::Bits(_)
    )
}

/// operand position: parenthesised unless atomic
fn atom(m: &Module, e: &Expr) -> String {
    if is_atom(e) { expr(m, e) } else { format!("({})", expr(m, e)) }
}

pub fn expr(m: &Module, e: &Expr) -> String {
    match e {
        Expr::Lit(l) => lit_text(l),
        Expr::Ref(r) => ref_text(m, r),
        Expr::EnumVal(en, v) => format!("{}::{}", m.enums[*en].name, m.enums[*en].variants[*v].0),
        Expr::Un(op, a) => format!("{}{}", op.text(), atom(m, a)),
        Expr::Bin(op, a, b) => format!("{} {} {}", atom(m, a), op.text(), atom(m, b)),
        Expr::If(c, a, b) => format!("if {} ? {} : {}", atom(m, c), atom(m, a), atom(m, b)),
        Expr::Case(sel, arms, dflt) => {
            let mut s = format!("case {} {{ ", atom(m, sel));
            for (items, a) in arms {
                write!(s, "{}: {}, ", range_items(m, items), atom(m, a)).unwrap();
            }
            write!(s, "default: {}, }}", atom(m, dflt)).unwrap();
            s
        }
        Expr::Switch(arms, dflt) => {
            let mut s = "switch { ".to_string();
            for (conds, a) in arms {
                let c: Vec<String> = conds.iter().map(|c| atom(m, c)).collect();
                write!(s, "{}: {}, ", c.join(", "), atom(m, a)).unwrap();
            }
            write!(s, "default: {}, }}", atom(m, dflt)).unwrap();
            s
        }
        Expr::Concat(parts) => {
            let p: Vec<String> = parts
                .iter()
                .map(|(e, n)| match n {
                    Some(n) => format!("{} repeat {n}", atom(m, e)),
                    None => atom(m, e),
                })
                .collect();
            format!("{{{}}}", p.join(", "))
        }
        Expr::Cast(a, to) => {
            let t = match to {
                CastTo::Width(n) => n.to_string(),
                CastTo::Fixed(t) => fixed_name(*t).unwrap_or("u32").to_string(),
                CastTo::Enum(i) => m.enums[*i].name.clone(),
                CastTo::Struct(i) => m.structs[*i].name.clone(),
            };
            format!("{} as {t}", atom(m, a))
        }
        Expr::Signed(a) => format!("$signed({})", expr(m, a)),
        Expr::Unsigned(a) => format!("$unsigned({})", expr(m, a)),
        Expr::Inside(x, items, neg) => {
            format!("{} {} {{{}}}", if *neg { "outside" } else { "inside" }, atom(m, x), range_items(m, items))
        }
        Expr::Call(f, args) => {
            let a: Vec<String> = args.iter().map(|a| expr(m, a)).collect();
            format!("{}({})", m.funcs[*f].name, a.join(", "))
        }
        Expr::Clog2(a) => format!("$clog2({})", expr(m, a)),
        Expr::Bits(d) => format!("$bits({})", m.decls[*d].name),
    }
}
