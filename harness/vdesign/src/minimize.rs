//! Structural minimiser (delta debugging on the design IR) for reproducers:
//! removes items, statements and stimulus steps and simplifies expressions
//! while a caller-supplied predicate ("still fails with the same signature")
//! holds.  Mutants the analyzer rejects simply make the predicate false.

use crate::eval::ty_of;
use crate::ir::*;
use crate::sim::Stimulus;
use num_bigint::BigUint;
use num_traits::Zero;

fn blocks_of_stmt<'a>(s: &'a mut Stmt, out: &mut Vec<&'a mut Vec<Stmt>>) {
    match s {
        Stmt::If { then, els, .. } => {
            out.push(then);
            out.push(els);
        }
        Stmt::Case { arms, default, .. } => {
            for (_, b) in arms.iter_mut() {
                out.push(b);
            }
            if let Some(d) = default {
                out.push(d);
            }
        }
        Stmt::Switch { arms, default } => {
            for (_, b) in arms.iter_mut() {
                out.push(b);
            }
            if let Some(d) = default {
                out.push(d);
            }
        }
        Stmt::For { body, .. } => out.push(body),
        _ => {}
    }
}

/// Apply `f` to the `k`-th statement block of the design (pre-order);
/// returns false when there is no such block.
fn with_block(design: &mut Design, k: usize, f: &mut dyn FnMut(&mut Vec<Stmt>)) -> bool {
    fn rec(b: &mut Vec<Stmt>, n: &mut usize, k: usize, f: &mut dyn FnMut(&mut Vec<Stmt>)) -> bool {
        if *n == k {
            f(b);
            return true;
        }
        *n += 1;
        for s in b.iter_mut() {
            let mut subs = vec![];
            blocks_of_stmt(s, &mut subs);
            for sb in subs {
                if rec(sb, n, k, f) {
                    return true;
                }
            }
        }
        false
    }
    let mut n = 0;
    for m in design.modules.iter_mut() {
        for fun in m.funcs.iter_mut() {
            if rec(&mut fun.body, &mut n, k, f) {
                return true;
            }
        }
        for it in m.items.iter_mut() {
            match it {
                Item::AlwaysComb(b) => {
                    if rec(b, &mut n, k, f) {
                        return true;
                    }
                }
                Item::AlwaysFf { reset, body, .. } => {
                    if rec(reset, &mut n, k, f) || rec(body, &mut n, k, f) {
                        return true;
                    }
                }
                _ => {}
            }
        }
    }
    false
}

fn children_mut(e: &mut Expr) -> Vec<&mut Expr> {
    fn items<'a>(items: &'a mut [RangeItem], out: &mut Vec<&'a mut Expr>) {
        for it in items.iter_mut() {
            match it {
                RangeItem::Val(v) => out.push(v),
                RangeItem::Excl(a, b) | RangeItem::Incl(a, b) => {
                    out.push(a);
                    out.push(b);
                }
            }
        }
    }
    let mut out: Vec<&mut Expr> = vec![];
    match e {
        Expr::Lit(_) | Expr::EnumVal(..) | Expr::Bits(_) => {}
        Expr::Ref(r) => {
            if let Some(i) = &mut r.idx {
                out.push(i);
            }
            match &mut r.sel {
                Sel::BitD(x) | Sel::PlusC(x, _) | Sel::MinusC(x, _) | Sel::Step(x, _) => out.push(x),
                _ => {}
            }
        }
        Expr::Un(_, a) | Expr::Cast(a, _) | Expr::Signed(a) | Expr::Unsigned(a) | Expr::Clog2(a) => out.push(a),
        Expr::Bin(_, a, b) => {
            out.push(a);
            out.push(b);
        }
        Expr::If(c, a, b) => {
            out.push(c);
            out.push(a);
            out.push(b);
        }
        Expr::Case(s, arms, dflt) => {
            out.push(s);
            for (its, a) in arms.iter_mut() {
                items(its, &mut out);
                out.push(a);
            }
            out.push(dflt);
        }
        Expr::Switch(arms, dflt) => {
            for (cs, a) in arms.iter_mut() {
                for c in cs.iter_mut() {
                    out.push(c);
                }
                out.push(a);
            }
            out.push(dflt);
        }
        Expr::Concat(ps) => {
            for (p, _) in ps.iter_mut() {
                out.push(p);
            }
        }
        Expr::Inside(x, its, _) => {
            out.push(x);
            items(its, &mut out);
        }
        Expr::Call(_, args) => {
            for a in args.iter_mut() {
                out.push(a);
            }
        }
    }
    out
}

fn stmt_exprs<'a>(s: &'a mut Stmt, out: &mut Vec<&'a mut Expr>) {
    match s {
        Stmt::Assign { rhs, .. } | Stmt::AssignConcat { rhs, .. } => out.push(rhs),
        Stmt::If { cond, then, els } => {
            out.push(cond);
            for x in then.iter_mut().chain(els.iter_mut()) {
                stmt_exprs(x, out);
            }
        }
        Stmt::Case { sel, arms, default } => {
            out.push(sel);
            for (_, b) in arms.iter_mut() {
                for x in b.iter_mut() {
                    stmt_exprs(x, out);
                }
            }
            if let Some(d) = default {
                for x in d.iter_mut() {
                    stmt_exprs(x, out);
                }
            }
        }
        Stmt::Switch { arms, default } => {
            for (cs, b) in arms.iter_mut() {
                for c in cs.iter_mut() {
                    out.push(c);
                }
                for x in b.iter_mut() {
                    stmt_exprs(x, out);
                }
            }
            if let Some(d) = default {
                for x in d.iter_mut() {
                    stmt_exprs(x, out);
                }
            }
        }
        Stmt::For { body, break_if, .. } => {
            if let Some(b) = break_if {
                out.push(b);
            }
            for x in body.iter_mut() {
                stmt_exprs(x, out);
            }
        }
        Stmt::Display { args, .. } => {
            for a in args.iter_mut() {
                out.push(a);
            }
        }
        Stmt::Return(e) => out.push(e),
    }
}

/// Apply `f` to the `k`-th expression node of module `mi` (pre-order over all
/// expression roots and their sub-expressions).
fn with_expr(design: &mut Design, mi: usize, k: usize, f: &mut dyn FnMut(&mut Expr)) -> bool {
    fn rec(e: &mut Expr, n: &mut usize, k: usize, f: &mut dyn FnMut(&mut Expr)) -> bool {
        if *n == k {
            f(e);
            return true;
        }
        *n += 1;
        for c in children_mut(e) {
            if rec(c, n, k, f) {
                return true;
            }
        }
        false
    }
    let m = &mut design.modules[mi];
    let mut roots: Vec<&mut Expr> = vec![];
    for d in m.decls.iter_mut() {
        if d.kind == DeclKind::Const {
            continue; // the value is cached in the decl: leave constants alone
        }
    }
    for fun in m.funcs.iter_mut() {
        for s in fun.body.iter_mut() {
            stmt_exprs(s, &mut roots);
        }
    }
    for it in m.items.iter_mut() {
        match it {
            Item::Assign { rhs, .. } | Item::Let { rhs, .. } => roots.push(rhs),
            Item::AlwaysComb(b) => {
                for s in b.iter_mut() {
                    stmt_exprs(s, &mut roots);
                }
            }
            Item::AlwaysFf { reset, body, .. } => {
                for s in reset.iter_mut().chain(body.iter_mut()) {
                    stmt_exprs(s, &mut roots);
                }
            }
            Item::Inst { conns, .. } => {
                for (_, c) in conns.iter_mut() {
                    if let Conn::In(e) = c {
                        roots.push(e);
                    }
                }
            }
        }
    }
    let mut n = 0;
    for r in roots {
        if rec(r, &mut n, k, f) {
            return true;
        }
    }
    false
}

/// Minimise `(design, stim)` under `still_fails`; at most `budget` calls.
pub fn minimize(design: &Design, stim: &Stimulus, still_fails: &mut dyn FnMut(&Design, &Stimulus) -> bool, budget: usize) -> (Design, Stimulus) {
    let mut cur = design.clone();
    let mut cs = stim.clone();
    let mut left = budget;
    macro_rules! attempt {
        ($cand:expr, $st:expr) => {{
            if left == 0 {
                return (cur, cs);
            }
            left -= 1;
            still_fails(&$cand, &$st)
        }};
    }
    // stimulus: drop trailing steps, then single steps
    while cs.steps.len() > 1 {
        let mut t = cs.clone();
        t.steps.pop();
        if attempt!(cur, t) {
            cs = t;
        } else {
            break;
        }
    }
    let mut i = 0;
    while i < cs.steps.len() && cs.steps.len() > 1 {
        let mut t = cs.clone();
        t.steps.remove(i);
        if attempt!(cur, t) {
            cs = t;
        } else {
            i += 1;
        }
    }
    loop {
        let mut progress = false;
        // items
        for mi in 0..cur.modules.len() {
            let mut ii = cur.modules[mi].items.len();
            while ii > 0 {
                ii -= 1;
                let mut c = cur.clone();
                c.modules[mi].items.remove(ii);
                c.modules[mi].print_order.clear();
                if attempt!(c, cs) {
                    cur = c;
                    progress = true;
                }
            }
        }
        // statements
        let mut k = 0;
        loop {
            let mut len = None;
            let mut probe = cur.clone();
            if !with_block(&mut probe, k, &mut |b| len = Some(b.len())) {
                break;
            }
            let mut j = len.unwrap_or(0);
            while j > 0 {
                j -= 1;
                let mut c = cur.clone();
                let mut ok = false;
                with_block(&mut c, k, &mut |b| {
                    if j < b.len() {
                        // an `if` may be replaced by one of its branches
                        b.remove(j);
                        ok = true;
                    }
                });
                if ok && attempt!(c, cs) {
                    cur = c;
                    progress = true;
                    continue;
                }
                // hoist the branches of an if
                for which in 0..2 {
                    let mut c = cur.clone();
                    let mut ok = false;
                    with_block(&mut c, k, &mut |b| {
                        if j < b.len() {
                            if let Stmt::If { then, els, .. } = &b[j] {
                                let repl = if which == 0 { then.clone() } else { els.clone() };
                                b.splice(j..=j, repl);
                                ok = true;
                            }
                        }
                    });
                    if ok && attempt!(c, cs) {
                        cur = c;
                        progress = true;
                        break;
                    }
                }
            }
            k += 1;
        }
        // expressions: literal zero, then hoisting a child
        for mi in 0..cur.modules.len() {
            let mut k = 0;
            loop {
                let mut info: Option<(Ty, usize, bool)> = None;
                let mut probe = cur.clone();
                let mref = cur.modules[mi].clone();
                if !with_expr(&mut probe, mi, k, &mut |e| {
                    let t = ty_of(&mref, e);
                    let nch = children_mut(e).len();
                    info = Some((t, nch, matches!(e, Expr::Lit(_))));
                }) {
                    break;
                }
                let (t, nch, is_lit) = info.unwrap();
                let mut replaced = false;
                if !is_lit {
                    let mut c = cur.clone();
                    with_expr(&mut c, mi, k, &mut |e| *e = Expr::lit(t, BigUint::zero()));
                    if attempt!(c, cs) {
                        cur = c;
                        progress = true;
                        replaced = true;
                    }
                }
                if !replaced {
                    for ch in 0..nch {
                        let mut c = cur.clone();
                        with_expr(&mut c, mi, k, &mut |e| {
                            let child = {
                                let mut cs2 = children_mut(e);
                                cs2.get_mut(ch).map(|x| (**x).clone())
                            };
                            if let Some(child) = child {
                                *e = child;
                            }
                        });
                        if attempt!(c, cs) {
                            cur = c;
                            progress = true;
                            break;
                        }
                    }
                }
                k += 1;
            }
        }
        if !progress {
            break;
        }
    }
    (cur, cs)
}
