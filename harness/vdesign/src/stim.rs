//! Stimulus generation and the reference trace.

use crate::eval::{EvalStats, RefSim, Val};
use crate::dgen::gen_value;
use crate::ir::*;
use crate::sim::{PortSpec, StimStep, Stimulus};
use num_bigint::BigUint;
use vcore::Draw;

/// Port lists of the top module in the driver's form.
pub fn port_specs(design: &Design) -> (Vec<(DeclId, PortSpec)>, Vec<(DeclId, PortSpec)>) {
    let m = design.top();
    let spec = |i: DeclId| {
        (
            i,
            PortSpec {
                name: m.decls[i].name.clone(),
                width: m.decls[i].ty.w as usize,
            },
        )
    };
    (m.inputs().into_iter().map(spec).collect(), m.outputs().into_iter().map(spec).collect())
}

/// Reset window (1–2 steps, when the design has a reset) followed by
/// `cycles` steps with corner-biased input vectors; an input keeps its
/// previous value now and then, and a design with a reset sees another
/// reset step in mid-run at a low rate.
pub fn gen_stimulus(d: &mut Draw, design: &Design, cycles: usize) -> Stimulus {
    let m = design.top();
    let (ins, outs) = port_specs(design);
    let mut st = Stimulus {
        clock: m.clock().map(|c| m.decls[c].name.clone()),
        reset: m.reset().map(|c| m.decls[c].name.clone()),
        inputs: ins.iter().map(|x| x.1.clone()).collect(),
        outputs: outs.iter().map(|x| x.1.clone()).collect(),
        steps: vec![],
    };
    let mut cur: Vec<BigUint> = ins.iter().map(|(_, p)| gen_value(d, p.width as u32)).collect();
    if st.reset.is_some() {
        let n = 1 + d.below(2);
        for _ in 0..n {
            st.steps.push(StimStep {
                reset: true,
                values: cur.clone(),
            });
        }
    }
    for _ in 0..cycles {
        for (i, (_, p)) in ins.iter().enumerate() {
            if !d.chance(1, 5) {
                cur[i] = gen_value(d, p.width as u32);
            }
        }
        let reset = st.reset.is_some() && d.chance(1, 20);
        st.steps.push(StimStep {
            reset,
            values: cur.clone(),
        });
    }
    st
}

/// What the reference says.
#[derive(Clone, Debug, Default)]
pub struct RefTrace {
    /// `steps[i][j]`: output `j` after step `i` (may be unknown)
    pub steps: Vec<Vec<Val>>,
    pub display: String,
    pub stats: EvalStats,
}

/// Run the reference evaluator over `stim`.
pub fn reference_trace(design: &Design, stim: &Stimulus) -> RefTrace {
    let (ins, outs) = port_specs(design);
    let mut sim = RefSim::new(design);
    let mut tr = RefTrace::default();
    for st in &stim.steps {
        for ((id, _), v) in ins.iter().zip(&st.values) {
            sim.set_input(*id, v);
        }
        if stim.clock.is_some() {
            sim.step(st.reset);
        } else {
            sim.settle();
        }
        tr.steps.push(outs.iter().map(|(id, _)| sim.output(*id).clone()).collect());
    }
    tr.display = std::mem::take(&mut sim.display);
    tr.stats = sim.stats.clone();
    tr
}

/// One observable variable of the elaborated design, for localising a
/// disagreement: hierarchical path, defining item, reference values.
#[derive(Clone, Debug)]
pub struct DeepVar {
    /// `v3`, `un7.v2`
    pub path: String,
    /// module index and item index (into `Module::items`) that drives it;
    /// `None` for inputs
    pub module: usize,
    pub item: Option<usize>,
    pub decl: DeclId,
    /// driven by an `always_ff`
    pub is_ff: bool,
}

fn item_targets(m: &Module, it: &Item) -> Vec<DeclId> {
    fn stmts(ss: &[Stmt], out: &mut Vec<DeclId>) {
        for s in ss {
            match s {
                Stmt::Assign { lhs, .. } => out.push(lhs.decl),
                Stmt::AssignConcat { lhs, .. } => out.extend(lhs.iter().map(|r| r.decl)),
                Stmt::If { then, els, .. } => {
                    stmts(then, out);
                    stmts(els, out);
                }
                Stmt::Case { arms, default, .. } => {
                    for (_, b) in arms {
                        stmts(b, out);
                    }
                    if let Some(d) = default {
                        stmts(d, out);
                    }
                }
                Stmt::Switch { arms, default } => {
                    for (_, b) in arms {
                        stmts(b, out);
                    }
                    if let Some(d) = default {
                        stmts(d, out);
                    }
                }
                Stmt::For { body, .. } => stmts(body, out),
                Stmt::Display { .. } | Stmt::Return(_) => {}
            }
        }
    }
    let mut out = vec![];
    match it {
        Item::Assign { lhs, .. } => out.push(lhs.decl),
        Item::Let { decl, .. } => out.push(*decl),
        Item::AlwaysComb(b) => stmts(b, &mut out),
        Item::AlwaysFf { reset, body, .. } => {
            stmts(reset, &mut out);
            stmts(body, &mut out);
        }
        Item::Inst { conns, .. } => {
            for (_, c) in conns {
                if let Conn::Out(d) = c {
                    out.push(*d);
                }
            }
        }
    }
    out.sort();
    out.dedup();
    out.retain(|d| !matches!(m.decls[*d].kind, DeclKind::LoopVar));
    out
}

fn deep_vars_of(design: &Design, module: usize, prefix: &str, ffs: &mut Vec<DeepVar>, comb: &mut Vec<DeepVar>) {
    let m = &design.modules[module];
    for (ii, it) in m.items.iter().enumerate() {
        let is_ff = matches!(it, Item::AlwaysFf { .. });
        if let Item::Inst { name, module: cm, .. } = it {
            deep_vars_of(design, *cm, &format!("{prefix}{name}."), ffs, comb);
        }
        for d in item_targets(m, it) {
            let v = DeepVar {
                path: format!("{prefix}{}", m.decls[d].name),
                module,
                item: Some(ii),
                decl: d,
                is_ff,
            };
            if is_ff { ffs.push(v) } else { comb.push(v) }
        }
    }
}

/// Every driven variable of the design: flip-flops first, then
/// combinational variables in dependency order.
pub fn deep_vars(design: &Design) -> Vec<DeepVar> {
    let mut ffs = vec![];
    let mut comb = vec![];
    deep_vars_of(design, design.top, "", &mut ffs, &mut comb);
    ffs.extend(comb);
    ffs
}

/// Reference values (element 0) of `vars` after every step of `stim`.
pub fn reference_deep(design: &Design, stim: &Stimulus, vars: &[DeepVar]) -> Vec<Vec<Val>> {
    let (ins, _) = port_specs(design);
    let mut sim = RefSim::new(design);
    let mut out = vec![];
    for st in &stim.steps {
        for ((id, _), v) in ins.iter().zip(&st.values) {
            sim.set_input(*id, v);
        }
        if stim.clock.is_some() {
            sim.step(st.reset);
        } else {
            sim.settle();
        }
        let row = vars
            .iter()
            .map(|dv| {
                // walk the instance tree along the path
                let mut inst = &sim.root;
                let segs: Vec<&str> = dv.path.split('.').collect();
                for seg in &segs[..segs.len() - 1] {
                    let m = &design.modules[inst.module];
                    let mut k = 0;
                    let mut found = None;
                    for it in &m.items {
                        if let Item::Inst { name, .. } = it {
                            if name == seg {
                                found = Some(k);
                                break;
                            }
                            k += 1;
                        }
                    }
                    match found {
                        Some(k) => inst = &inst.children[k],
                        None => return Val::unknown(1),
                    }
                }
                inst.vals[dv.decl][0].clone()
            })
            .collect();
        out.push(row);
    }
    out
}
