//! Stimulus generation and the reference trace.

use crate::eval::{EvalStats, RefSim, Val};
use crate::dgen::gen_value;
use crate::ir::*;
use crate::sim::{PortSpec, StimStep, Stimulus};
use num_bigint::BigUint;
use vcore::Draw;

/// Port lists of the top module in the driver's form.
pub fn port_specs(design: &Design) -> (Vec<(DeclId, PortSpec)>, Vec<(DeclId, PortSpec)>) {
    let m = design.top();
    let spec = |i: DeclId| {
        (
            i,
            PortSpec {
                name: m.decls[i].name.clone(),
                width: m.decls[i].ty.w as usize,
            },
        )
    };
    (m.inputs().into_iter().map(spec).collect(), m.outputs().into_iter().map(spec).collect())
}

/// Reset window (1–2 steps, when the design has a reset) followed by
/// `cycles` steps with corner-biased input vectors; an input keeps its
/// previous value now and then, and a design with a reset sees another
/// reset step in mid-run at a low rate.
pub fn gen_stimulus(d: &mut Draw, design: &Design, cycles: usize) -> Stimulus {
    let m = design.top();
    let (ins, outs) = port_specs(design);
    let mut st = Stimulus {
        clock: m.clock().map(|c| m.decls[c].name.clone()),
        reset: m.reset().map(|c| m.decls[c].name.clone()),
        inputs: ins.iter().map(|x| x.1.clone()).collect(),
        outputs: outs.iter().map(|x| x.1.clone()).collect(),
        steps: vec![],
    };
    let mut cur: Vec<BigUint> = ins.iter().map(|(_, p)| gen_value(d, p.width as u32)).collect();
    if st.reset.is_some() {
        let n = 1 + d.below(2);
        for _ in 0..n {
            st.steps.push(StimStep {
                reset: true,
                values: cur.clone(),
            });
        }
    }
    for _ in 0..cycles {
        for (i, (_, p)) in ins.iter().enumerate() {
            if !d.chance(1, 5) {
                cur[i] = gen_value(d, p.width as u32);
            }
        }
        let reset = st.reset.is_some() && d.chance(1, 20);
        st.steps.push(StimStep {
            reset,
            values: cur.clone(),
        });
    }
    st
}

/// What the reference says.
#[derive(Clone, Debug, Default)]
pub struct RefTrace {
    /// `steps[i][j]`: output `j` after step `i` (may be unknown)
    pub steps: Vec<Vec<Val>>,
    pub display: String,
    pub stats: EvalStats,
}

/// Run the reference evaluator over `stim`.
pub fn reference_trace(design: &Design, stim: &Stimulus) -> RefTrace {
    let (ins, outs) = port_specs(design);
    let mut sim = RefSim::new(design);
    let mut tr = RefTrace::default();
    for st in &stim.steps {
        for ((id, _), v) in ins.iter().zip(&st.values) {
            sim.set_input(*id, v);
        }
        if stim.clock.is_some() {
            sim.step(st.reset);
        } else {
            sim.settle();
        }
        tr.steps.push(outs.iter().map(|(id, _)| sim.output(*id).clone()).collect());
    }
    tr.display = std::mem::take(&mut sim.display);
    tr.stats = sim.stats.clone();
    tr
}
