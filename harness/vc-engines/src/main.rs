mod c02;
mod c03;
mod c18;
mod c33;
mod c34;
mod c35;

fn main() {
    let args: Vec<String> = std::env::args().skip(1).collect();
    let id = args.first().cloned().unwrap_or_default();
    vcore::quiet_panics();
    let ctx = vcore::Ctx::new(&id, &args[1.min(args.len())..]);
    match id.as_str() {
        "C02" => c02::run(&ctx),
        "C03" => c03::run(&ctx),
        "C18" => c18::run(&ctx),
        "C33" => c33::run(&ctx),
        "C34" => c34::run(&ctx),
        "C35" => c35::run(&ctx),
        _ => {
            eprintln!("unknown property id {id:?}");
            std::process::exit(2);
        }
    }
}
