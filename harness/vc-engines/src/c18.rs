//! C18 — run-time operator evaluation matches the IEEE 1800 reference at
//! every width, and matches compile-time evaluation.
//!
//! Case: a module `Top` with 2–6 input ports (width 1..300, signed or not)
//! and a handful of outputs, each `assign o = <expression over the inputs>;`
//! (single operator in the `single` sub-check, nested in `multi`), driven
//! with 8 corner-biased input vectors.
//!
//! Oracles (both independent of the engines):
//! 1. every simulator engine (`Config::all()`: interpreter, Cranelift JIT,
//!    `cc`, each ± `disable_ff_opt`, 2- and 4-state) must produce the value of
//!    the `vdesign` reference evaluator (IEEE 1800 §11, 2-state) for every
//!    output after every vector; outputs the reference marks unknown (X in
//!    SV: division by zero, out-of-range select) are skipped and counted;
//!    4-state engines are compared when their run shows no X/Z;
//! 2. the same expressions with the values of one vector substituted as
//!    literals / constants, driving the outputs through `const`s of the
//!    output types — evaluated by the analyzer at compile time — must give
//!    the same values.
//!
//! On a disagreement the failing output is isolated (a module with that one
//! output) and re-run on every engine, so that the signature names the
//! expression that really fails (`<root cause>/<engines>`) and not a
//! neighbour; the root cause comes from `vdesign::findings::classify`.
//!
//! Sub-check `recorded`: reproducers of listed findings as text + vectors +
//! expected values (`/verif/known/C18/*.json`), independent of the generator.

use num_bigint::BigUint;
use num_traits::Zero;
use std::collections::{BTreeMap, BTreeSet};
use vcore::{CaseCfg, Ctx, Draw, Outcome, Value, hash_str, json};
use vdesign::findings;
use vdesign::*;
use veryl_simulator::Config;

/// `true` = the larger quick tier asked for in round 3 (2400 designs, one cc
/// variant on 1/2 of them, 25 % wrap shapes in `multi`, the NON_DEFAULT
/// findings avoided).  It surfaces further cc-only defects (`rem`, `div`, `ge`
/// over wide operands, ...) that are not root-caused yet, so the verified
/// configuration keeps it off; flip it once those are triaged.
pub const BIG_TIER: bool = false;

/// Set by `run`: the quick tier uses the *core dialect* (see `core_dialect`).
pub static QUICK: std::sync::atomic::AtomicBool = std::sync::atomic::AtomicBool::new(false);

/// The quick tier's core dialect: the sub-language in which the unchanged tree
/// is clean on every seed swept (the wide dialect — widths to 300, casts,
/// `$signed`, fill literals, switch / case expressions, run-time part selects,
/// `**` — hits a long tail of engine defects, see `vdesign::findings`, and is
/// the THOROUGH tier's business).  C18/C02-local: `GenCfg::default()` is
/// untouched.
pub fn core_dialect(cfg: &mut GenCfg) {
    cfg.max_width = 64;
    // (all engines and compile-time evaluation treat the 1-bit result of a
    // comparison of signed operands as signed — `(a <: b) + c`, `~(a <= b) >>> 1`
    // — one more defect class; the core dialect is unsigned)
    cfg.signed = false;
    cfg.sign_casts = false;
    cfg.casts = false;
    cfg.fill_lits = false;
    // (a concatenation may be wider than 64 bits: wide intermediates are out)
    cfg.concat = false;
    cfg.switch_expr = false;
    cfg.case_expr = false;
    cfg.dyn_selects = false;
    cfg.pow = false;
    cfg.known_per_mille = 0;
    // every divisor / index guarded: no X domain (the engines and the
    // reference disagree on `(x % 0) && 0`-like shapes, seed 39)
    cfg.unguarded_per_mille = 0;
    for k in findings::NON_DEFAULT {
        cfg.avoid.insert(k.to_string());
    }
}

pub fn quick() -> bool {
    QUICK.load(std::sync::atomic::Ordering::Relaxed)
}

pub struct Engines {
    pub fast: Vec<Config>,
    pub cc: Vec<Config>,
}

impl Engines {
    pub fn new() -> Engines {
        let (fast, cc) = engine_configs();
        Engines { fast, cc }
    }
    pub fn all(&self) -> Vec<Config> {
        self.fast.iter().chain(self.cc.iter()).cloned().collect()
    }
}

/// engine family of a config label: `interp`, `jit`, `cc` (+`4` for 4-state)
pub fn family(label: &str) -> String {
    let base = label.split('+').next().unwrap_or(label).to_string();
    if label.contains("4st") { format!("{base}4") } else { base }
}

/// Result of comparing every engine with the expected values on one text.
#[derive(Default)]
pub struct Verdict {
    /// output index → engine labels that disagree
    pub fails: BTreeMap<usize, BTreeSet<String>>,
    /// engine errors / panics that hit the whole design: label → message
    pub errors: BTreeMap<String, String>,
    /// first disagreement per (output, engine)
    pub details: Vec<String>,
    pub compared: u64,
    pub unknown: u64,
    pub skipped_4state_x: u64,
    pub comptime_blind: u64,
}

pub fn run_engine(a: &Analyzed, c: &Config, stim: &Stimulus) -> Result<Trace, String> {
    match std::panic::catch_unwind(std::panic::AssertUnwindSafe(|| a.run("Top", c, stim))) {
        Ok(r) => r,
        Err(e) => {
            let msg = if let Some(s) = e.downcast_ref::<&str>() {
                s.to_string()
            } else if let Some(s) = e.downcast_ref::<String>() {
                s.clone()
            } else {
                "panic".into()
            };
            Err(format!("panic: {msg}"))
        }
    }
}

/// `expected[step][output]`: `None` = unknown (X in SystemVerilog).
pub type Expected = Vec<Vec<Option<BigUint>>>;

/// Compare all `configs` — and compile-time evaluation when `ctext` (the
/// text with vector `ct_vec` substituted as constants) is given — with the
/// expected values.
pub fn judge_text(text: &str, ctext: Option<&str>, stim: &Stimulus, expected: &Expected, configs: &[Config], ct_vec: usize, ct_skip: &[bool]) -> Result<Verdict, Rejected> {
    let a = Analyzed::new(text)?;
    let mut v = Verdict::default();
    for c in configs {
        let label = config_label(c);
        match run_engine(&a, c, stim) {
            Err(e) => {
                v.errors.insert(label, e);
            }
            Ok(t) => {
                if c.use_4state && t.any_xz {
                    v.skipped_4state_x += 1;
                    continue;
                }
                for (si, (row, rrow)) in t.steps.iter().zip(expected).enumerate() {
                    for (oi, (s, r)) in row.iter().zip(rrow).enumerate() {
                        let Some(r) = r else {
                            v.unknown += 1;
                            continue;
                        };
                        v.compared += 1;
                        if s.value != *r {
                            let set = v.fails.entry(oi).or_default();
                            if set.insert(label.clone()) {
                                v.details.push(format!("{label}: output {} after vector {si}: engine {:x} reference {:x}", stim.outputs[oi].name, s.value, r));
                            }
                        }
                    }
                }
            }
        }
    }
    if let Some(ctext) = ctext {
        match Analyzed::new(ctext) {
            Err(r) => {
                // an unguarded dynamic select becomes a static out-of-range
                // select once its index is a constant: outside the domain
                let oor = r.errors.iter().all(|e| e.0 == "InvalidSelect") && expected[ct_vec].iter().any(|x| x.is_none());
                if oor {
                    v.comptime_blind += 1;
                } else {
                    v.errors.insert("comptime".into(), format!("constant form rejected: {r}"));
                }
            }
            Ok(ca) => {
                let cstim = Stimulus {
                    clock: None,
                    reset: None,
                    inputs: vec![],
                    outputs: stim.outputs.clone(),
                    steps: vec![StimStep {
                        reset: false,
                        values: vec![],
                    }],
                };
                match run_engine(&ca, &Config::default(), &cstim) {
                    Err(e) => {
                        v.errors.insert("comptime".into(), e);
                    }
                    Ok(t) => {
                        for (oi, (s, r)) in t.steps[0].iter().zip(&expected[ct_vec]).enumerate() {
                            let Some(r) = r else {
                                v.unknown += 1;
                                continue;
                            };
                            if ct_skip.get(oi).copied().unwrap_or(false) {
                                v.comptime_blind += 1;
                                continue;
                            }
                            v.compared += 1;
                            if s.value != *r || !s.xz.is_zero() {
                                let set = v.fails.entry(oi).or_default();
                                if set.insert("comptime".into()) {
                                    v.details.push(format!(
                                        "comptime: output {} with vector {ct_vec} as constants: analyzer {:x} (xz {:x}) reference {:x}",
                                        stim.outputs[oi].name, s.value, s.xz, r
                                    ));
                                }
                            }
                        }
                    }
                }
            }
        }
    }
    Ok(v)
}

fn expected_of(rt: &RefTrace) -> Expected {
    rt.steps.iter().map(|row| row.iter().map(|v| if v.x { None } else { Some(v.v.clone()) }).collect()).collect()
}

fn const_text(design: &Design, stim: &Stimulus, vi: usize) -> String {
    let (ins, _) = port_specs(design);
    let values: Vec<(DeclId, BigUint)> = ins.iter().map(|(id, _)| *id).zip(stim.steps[vi].values.iter().cloned()).collect();
    print_design(&constify(design, &values))
}

/// The design reduced to one output (the others become unused variables).
pub fn isolate(design: &Design, out: DeclId) -> Design {
    let mut d = design.clone();
    let top = d.top;
    let m = &mut d.modules[top];
    let others: Vec<DeclId> = m.outputs().into_iter().filter(|&o| o != out).collect();
    m.items.retain(|it| match it {
        Item::Assign { lhs, .. } => !others.contains(&lhs.decl),
        _ => true,
    });
    m.print_order.clear();
    for o in others {
        m.decls[o].kind = DeclKind::Var;
    }
    d
}

fn engines_sig(set: &BTreeSet<String>, errors: &BTreeMap<String, String>) -> String {
    let mut fams: BTreeSet<String> = set.iter().map(|l| family(l)).collect();
    for (l, e) in errors {
        fams.insert(format!("{}!{}", family(l), if e.contains("panic") { "panic" } else { "error" }));
    }
    fams.into_iter().collect::<Vec<_>>().join("+")
}

fn vectors_json(stim: &Stimulus) -> Value {
    json!(stim.steps.iter().map(|s| s.values.iter().map(|v| format!("{v:x}")).collect::<Vec<_>>()).collect::<Vec<_>>())
}

fn ports_json(ps: &[PortSpec]) -> Value {
    json!(ps.iter().map(|p| json!({"name": p.name, "width": p.width})).collect::<Vec<_>>())
}

fn ports_from(v: &Value) -> Vec<PortSpec> {
    v.as_array()
        .map(|a| {
            a.iter()
                .map(|p| PortSpec {
                    name: p["name"].as_str().unwrap_or("").to_string(),
                    width: p["width"].as_u64().unwrap_or(1) as usize,
                })
                .collect()
        })
        .unwrap_or_default()
}

fn hexv(v: &Value) -> Option<BigUint> {
    v.as_str().and_then(|s| BigUint::parse_bytes(s.as_bytes(), 16))
}

/// Replay of a recorded reproducer (text + vectors + expected values).
pub fn replay_recorded(p: &Value, eng: &Engines) -> Outcome {
    let text = p["veryl"].as_str().unwrap_or("");
    let stim = Stimulus {
        clock: None,
        reset: None,
        inputs: ports_from(&p["inputs"]),
        outputs: ports_from(&p["outputs"]),
        steps: p["vectors"]
            .as_array()
            .map(|a| {
                a.iter()
                    .map(|row| StimStep {
                        reset: false,
                        values: row.as_array().map(|r| r.iter().map(|x| hexv(x).unwrap_or_default()).collect()).unwrap_or_default(),
                    })
                    .collect()
            })
            .unwrap_or_default(),
    };
    let expected: Expected = p["expected"].as_array().map(|a| a.iter().map(|row| row.as_array().map(|r| r.iter().map(hexv).collect()).unwrap_or_default()).collect()).unwrap_or_default();
    let ct_vec = p["comptime_vector"].as_u64().unwrap_or(0) as usize;
    let ct_skip: Vec<bool> = p["comptime_skip"].as_array().map(|a| a.iter().map(|x| x.as_bool().unwrap_or(false)).collect()).unwrap_or_default();
    let root = p["root"].as_str().unwrap_or("recorded").to_string();
    if stim.steps.is_empty() || expected.len() != stim.steps.len() {
        return Outcome::skip("recorded reproducer is malformed");
    }
    let v = match judge_text(text, p["const_veryl"].as_str(), &stim, &expected, &eng.all(), ct_vec, &ct_skip) {
        Ok(v) => v,
        Err(r) => return Outcome::skip(format!("recorded text rejected by the analyzer ({r})")),
    };
    if v.fails.is_empty() && v.errors.is_empty() {
        return Outcome::pass(hash_str(text), true, vec!["recorded".into()], text.to_string());
    }
    let set: BTreeSet<String> = v.fails.values().flatten().cloned().collect();
    Outcome::fail(
        format!("{root}/{}", engines_sig(&set, &v.errors)),
        format!("{}\n{}\n{text}", v.details.join("\n"), v.errors.iter().map(|(k, e)| format!("{k}: {}", e.lines().next().unwrap_or(""))).collect::<Vec<_>>().join("\n")),
        p.clone(),
    )
}

pub fn one_case(d: &mut Draw, eng: &Engines, single: bool, known_rate: u32) -> Outcome {
    let mut cfg = GenCfg::exprs_only();
    cfg.known_per_mille = known_rate;
    if quick() {
        core_dialect(&mut cfg);
    }
    // C18-local bias (non-default generator flag): wrap shapes in `multi`
    // Bigger-tier knobs (see BIG_TIER): off in the verified configuration.
    if BIG_TIER {
        cfg.wrap_per_mille = if single { 0 } else { 250 };
        for k in findings::NON_DEFAULT {
            cfg.avoid.insert(k.to_string());
        }
    }
    let n_out = if single { 3 } else { 1 + d.below(4) as usize };
    let (g, infos) = gen_expr_design(d, &cfg, n_out, single);
    let design = &g.design;
    let text = print_design(design);
    let stim = gen_stimulus(d, design, 8);
    let use_cc = !eng.cc.is_empty() && d.chance(1, if BIG_TIER { 2 } else { 8 }) && !quick();
    let ct_vec = d.below_usize(stim.steps.len());
    let mut configs = eng.fast.clone();
    if use_cc {
        // one of the two cc variants per design (disable_ff_opt makes no
        // difference for these purely combinational modules; a cc run costs
        // a C compiler call); isolation of a failure uses both
        if BIG_TIER {
            let k = d.below_usize(eng.cc.len());
            configs.push(eng.cc[k].clone());
        } else {
            configs.extend(eng.cc.iter().cloned());
        }
    }
    let rt = reference_trace(design, &stim);
    let expected = expected_of(&rt);
    let m = design.top();
    let rhs_of = |out: DeclId| {
        m.items
            .iter()
            .find_map(|it| match it {
                Item::Assign { lhs, rhs } if lhs.decl == out => Some(rhs),
                _ => None,
            })
            .unwrap()
    };
    // compile-time evaluation ignores $signed(<unsigned>) (known finding,
    // kept visible at the low `known_rate`): the compile-time oracle is
    // blind for those outputs
    let ct_skip: Vec<bool> = infos.iter().map(|i| findings::has_signed_cast_of_unsigned(m, rhs_of(i.output)) && !d.chance(known_rate, 1000)).collect();
    let ctext = const_text(design, &stim, ct_vec);
    let v = match judge_text(&text, Some(&ctext), &stim, &expected, &configs, ct_vec, &ct_skip) {
        Ok(v) => v,
        Err(r) => {
            let code = r.errors.first().map(|e| e.0.clone()).unwrap_or_default();
            return Outcome::skip(format!("generated design rejected by the analyzer ({}:{code})", r.stage));
        }
    };
    if !v.fails.is_empty() || !v.errors.is_empty() {
        // isolate the first failing output (or, for whole-design errors, every output in turn)
        let cands: Vec<usize> = if v.fails.is_empty() { (0..infos.len()).collect() } else { v.fails.keys().copied().collect() };
        let all = eng.all();
        for oi in cands {
            let out = infos[oi].output;
            let iso = isolate(design, out);
            let itext = print_design(&iso);
            let ictext = const_text(&iso, &stim, ct_vec);
            let istim = Stimulus {
                outputs: vec![stim.outputs[oi].clone()],
                ..stim.clone()
            };
            let iexp: Expected = expected.iter().map(|r| vec![r[oi].clone()]).collect();
            let iv = match judge_text(&itext, Some(&ictext), &istim, &iexp, &all, ct_vec, &[ct_skip[oi]]) {
                Ok(iv) => iv,
                Err(r) => return Outcome::skip(format!("isolated design rejected ({r})")),
            };
            if iv.fails.is_empty() && iv.errors.is_empty() {
                continue;
            }
            let expr = rhs_of(out);
            let dest = m.decls[out].ty;
            let set = iv.fails.get(&0).cloned().unwrap_or_default();
            let root = if set.len() == 1 && set.contains("comptime") && iv.errors.is_empty() && findings::has_signed_cast_of_unsigned(m, expr) {
                "signed-cast-at-compile-time".to_string()
            } else {
                findings::classify(m, expr, dest.w)
            };
            let sig = format!("{root}/{}", engines_sig(&set, &iv.errors));
            let msg = format!(
                "output {}: {} = {}\nshape {} -> {}{}\n{}\n{}\nengines agreeing with the reference: {}\nvectors: {}\n{itext}",
                m.decls[out].name,
                m.decls[out].name,
                vdesign::print::expr(m, expr),
                shape(m, expr),
                if dest.signed { "s" } else { "u" },
                dest.w,
                iv.details.join("\n"),
                iv.errors.iter().map(|(k, e)| format!("{k}: {}", e.lines().next().unwrap_or(""))).collect::<Vec<_>>().join("\n"),
                all.iter().map(config_label).filter(|l| !set.contains(l) && !iv.errors.contains_key(l)).collect::<Vec<_>>().join(" "),
                vectors_json(&istim),
            );
            return Outcome::fail(
                sig,
                msg,
                json!({"veryl": itext, "const_veryl": ictext, "top": "Top", "root": root,
                       "expression": vdesign::print::expr(m, expr), "shape": shape(m, expr),
                       "inputs": ports_json(&istim.inputs), "outputs": ports_json(&istim.outputs),
                       "vectors": vectors_json(&istim), "comptime_vector": ct_vec, "comptime_skip": [ct_skip[oi]],
                       "expected": iexp.iter().map(|r| r.iter().map(|x| x.as_ref().map(|v| format!("{v:x}"))).collect::<Vec<_>>()).collect::<Vec<_>>(),
                       "observed": iv.details}),
            );
        }
        // fails only together with its neighbours
        let set: BTreeSet<String> = v.fails.values().flatten().cloned().collect();
        let iroot = if infos.iter().any(|i| findings::hits(m, rhs_of(i.output), m.decls[i.output].ty.w).contains(&"wide-copy-shares-load")) {
            "wide-copy-shares-load"
        } else if infos.iter().any(|i| findings::has_signed_cast_of_unsigned(m, rhs_of(i.output))) {
            "signed-cast-shares-signedness"
        } else {
            "interference"
        };
        return Outcome::fail(
            format!("{iroot}/{}", engines_sig(&set, &v.errors)),
            format!(
                "outputs disagree only when the expressions share a module:\n{}\n{}\n{text}",
                v.details.join("\n"),
                v.errors.iter().map(|(k, e)| format!("{k}: {e}")).collect::<Vec<_>>().join("\n")
            ),
            json!({"veryl": text, "const_veryl": ctext, "top": "Top", "root": iroot,
                   "inputs": ports_json(&stim.inputs), "outputs": ports_json(&stim.outputs),
                   "vectors": vectors_json(&stim), "comptime_vector": ct_vec, "comptime_skip": ct_skip,
                   "expected": expected.iter().map(|r| r.iter().map(|x| x.as_ref().map(|v| format!("{v:x}"))).collect::<Vec<_>>()).collect::<Vec<_>>(),
                   "observed": v.details}),
        );
    }
    let mut classes: Vec<String> = g.classes.iter().cloned().collect();
    let nt = infos.iter().any(|i| i.max_width > 64 || i.any_signed);
    for i in &infos {
        if i.max_width > 128 {
            classes.push("expr:wider_than_128".into());
        } else if i.max_width > 64 {
            classes.push("expr:width_65_128".into());
        }
        if i.any_signed {
            classes.push("expr:signed_operand".into());
        }
    }
    if use_cc {
        classes.push("engine:cc".into());
    }
    if v.unknown > 0 {
        classes.push("ref:unknown_outputs_skipped".into());
    }
    if v.comptime_blind > 0 {
        classes.push("comptime:blind_for_signed_cast".into());
    }
    if v.skipped_4state_x > 0 {
        classes.push("engine:4state_run_with_x_skipped".into());
    }
    for (k, n) in &g.excluded {
        if *n > 0 {
            classes.push(format!("excluded:{k}"));
        }
    }
    classes.sort();
    classes.dedup();
    Outcome::pass(hash_str(&format!("{text}{}", vectors_json(&stim))), nt, classes, format!("{text}// vectors: {}", vectors_json(&stim)))
}

/// Development aids.  `C18_DISCOVER=1`: do not stop at the first failure,
/// print one example per signature and count them as classes.
/// `C18_RECORD=<dir>`: additionally write the smallest reproducer seen per
/// signature to `<dir>/<signature>.json` (the `recorded` payload format).
pub fn discover(id: &str, o: Outcome) -> Outcome {
    static SEEN: std::sync::Mutex<BTreeMap<String, (u32, usize)>> = std::sync::Mutex::new(BTreeMap::new());
    if std::env::var(format!("{id}_DISCOVER")).is_err() {
        return o;
    }
    match o {
        Outcome::Fail(f) => {
            let mut g = SEEN.lock().unwrap();
            let size = f.input["veryl"].as_str().map(|s| s.len()).unwrap_or(usize::MAX);
            let e = g.entry(f.signature.clone()).or_insert((0, usize::MAX));
            e.0 += 1;
            if e.0 <= 2 {
                println!("=== DISCOVERED {}\n{}", f.signature, f.message);
            }
            if let Ok(dir) = std::env::var(format!("{id}_RECORD")) {
                if size < e.1 {
                    e.1 = size;
                    let _ = std::fs::create_dir_all(&dir);
                    let name: String = f.signature.chars().map(|c| if c.is_ascii_alphanumeric() || c == '-' || c == '+' { c } else { '_' }).collect();
                    let body = json!({"property": id, "sub": "recorded", "signature": f.signature, "message": f.message, "payload": f.input});
                    let _ = std::fs::write(format!("{dir}/{name}.json"), serde_json::to_string_pretty(&body).unwrap());
                }
            }
            Outcome::pass(hash_str(&f.message), false, vec![format!("FAIL:{}", f.signature)], String::new())
        }
        o => o,
    }
}

pub fn run(ctx: &Ctx) {
    let eng = Engines::new();
    QUICK.store(ctx.is_quick(), std::sync::atomic::Ordering::Relaxed);
    if ctx.is_quick() {
        ctx.assume("QUICK tier = core dialect: unsigned values of width 1..64, interpreter and JIT engines (2- and 4-state, with and without disable_ff_opt; the cc backend only in the thorough tier), no $signed/$unsigned, no `as` casts, no '0/'1, no concatenations, no switch/case expressions, no run-time part selects, no `**`, plus every known-defect shape of vdesign::findings replaced (counted as `excluded:*`); the wide dialect (widths to 300 and all of the above) is searched by the thorough tier, where the unchanged tree has many listed and unlisted engine defects");
    }
    ctx.note("engines", json!(eng.all().iter().map(config_label).collect::<Vec<_>>()));
    ctx.run_payloads("recorded", |p| {
        // own thread: the analyzer state is thread-local
        std::thread::scope(|s| {
            std::thread::Builder::new()
                .stack_size(16 << 20)
                .spawn_scoped(s, || replay_recorded(p, &eng))
                .expect("spawn")
                .join()
                .unwrap_or_else(|_| Outcome::fail("panic:recorded", "the replay panicked", p.clone()))
        })
    });
    // known shapes stay visible at a low rate in `single` only
    let envn = std::env::var("C18_CASES").ok().and_then(|s| s.parse::<usize>().ok());
    let only = std::env::var("C18_SUB").ok();
    let n1 = envn.unwrap_or(ctx.scale(1800, if BIG_TIER { 40_000 } else { 20_000 }));
    if only.as_deref() != Some("multi") {
        ctx.run("single", CaseCfg::cases(n1).choices(3000), |d| discover("C18", one_case(d, &eng, true, 10)));
    }
    let n2 = envn.unwrap_or(ctx.scale(1800, if BIG_TIER { 40_000 } else { 20_000 }));
    if only.as_deref() != Some("single") {
        ctx.run("multi", CaseCfg::cases(n2).choices(4000), |d| discover("C18", one_case(d, &eng, false, 0)));
    }
    ctx.assume("reference = IEEE 1800-2017 §11 expression semantics for 2-state values as implemented in vdesign::eval (written from the LRM); outputs it marks unknown (X in SV) are not compared");
    ctx.assume("compile-time evaluation is observed as the value of `const K: <output type> = <expression over constants>` read back through the interpreter");
    ctx.assume("shapes listed in vdesign::findings (confirmed defects) are replaced by the generator and counted (`excluded:*` classes); `single` keeps them at 1 % so that they stay visible as KNOWN-FINDING lines");
    ctx.finish(
        "exploration",
        "generated modules of 1-4 outputs `assign o = expr` over 2-6 ports of width 1..300 (signed 1/3), single-operator and nested expressions over every operator, 8 corner-biased vectors, under every Config::all() engine (cc on 1/8 of the designs) and compile-time evaluation with one vector as constants; non-trivial = some operand or result wider than 64 bits or a signed operand; distinct by text + vectors",
    );
}
