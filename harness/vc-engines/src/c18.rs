//! C18 — run-time operator evaluation matches the IEEE 1800 reference at
//! every width, and matches compile-time evaluation.
//!
//! Case: a module `Top` with 2–6 input ports (width 1..300, signed or not)
//! and a handful of outputs, each `assign o = <expression over the inputs>;`
//! (single operator in the `single` sub-check, nested in `multi`), driven
//! with 8 corner-biased input vectors.
//!
//! Oracles (both independent of the engines):
//! 1. every simulator engine (`Config::all()`: interpreter, Cranelift JIT,
//!    `cc`, each ± `disable_ff_opt`, 2- and 4-state) must produce the value of
//!    the `vdesign` reference evaluator (IEEE 1800 §11, 2-state) for every
//!    output after every vector; outputs the reference marks unknown (X in
//!    SV: division by zero, out-of-range select) are skipped and counted;
//!    4-state engines are compared when their run shows no X/Z;
//! 2. the same expressions with the values of one vector substituted as
//!    literals / constants, driving the outputs through `const`s of the
//!    output types — evaluated by the analyzer at compile time — must give
//!    the same values.
//!
//! On a disagreement the failing output is isolated (a module with that one
//! output) and re-run on every engine, so that the signature names the
//! expression that really fails (`<root cause>/<engines>`) and not a
//! neighbour; the root cause comes from `vdesign::findings::classify`.

use std::collections::{BTreeMap, BTreeSet};
use vcore::{CaseCfg, Ctx, Draw, Outcome, hash_str, json};
use vdesign::findings;
use vdesign::*;
use veryl_simulator::Config;

pub struct Engines {
    pub fast: Vec<Config>,
    pub cc: Vec<Config>,
}

impl Engines {
    pub fn new() -> Engines {
        let (fast, cc) = engine_configs();
        Engines { fast, cc }
    }
}

/// engine family of a config label: `interp`, `jit`, `cc` (+`4st`)
fn family(label: &str) -> String {
    let base = label.split('+').next().unwrap_or(label).to_string();
    if label.contains("4st") { format!("{base}4") } else { base }
}

/// Result of comparing every engine with the reference on one design.
#[derive(Default)]
pub struct Verdict {
    /// output index → engine labels that disagree with the reference (or `!`-suffixed when the engine failed to run)
    pub fails: BTreeMap<usize, BTreeSet<String>>,
    /// engine errors / panics that hit the whole design: label → message
    pub errors: BTreeMap<String, String>,
    /// first disagreement per (output, engine): description
    pub details: Vec<String>,
    pub compared: u64,
    pub unknown: u64,
    pub skipped_4state_x: u64,
    pub comptime_blind: u64,
    pub jit_compiled: bool,
}

fn hex(v: &num_bigint::BigUint) -> String {
    format!("{v:x}")
}

fn run_engine(a: &Analyzed, c: &Config, stim: &Stimulus) -> Result<Trace, String> {
    match std::panic::catch_unwind(std::panic::AssertUnwindSafe(|| a.run("Top", c, stim))) {
        Ok(r) => r,
        Err(e) => {
            let msg = if let Some(s) = e.downcast_ref::<&str>() {
                s.to_string()
            } else if let Some(s) = e.downcast_ref::<String>() {
                s.clone()
            } else {
                "panic".into()
            };
            Err(format!("panic: {msg}"))
        }
    }
}

/// Compare all `configs` and the compile-time evaluation (vector `ct_vec`)
/// with the reference.
pub fn judge(design: &Design, text: &str, stim: &Stimulus, rt: &RefTrace, configs: &[Config], ct_vec: Option<usize>, ct_skip: &[bool]) -> Result<Verdict, Rejected> {
    let a = Analyzed::new(text)?;
    let mut v = Verdict::default();
    for c in configs {
        let label = config_label(c);
        match run_engine(&a, c, stim) {
            Err(e) => {
                v.errors.insert(label, e);
            }
            Ok(t) => {
                if c.use_jit && t.jit_stats.0 > 0 {
                    v.jit_compiled = true;
                }
                if c.use_4state && t.any_xz {
                    v.skipped_4state_x += 1;
                    continue;
                }
                for (si, (row, rrow)) in t.steps.iter().zip(&rt.steps).enumerate() {
                    for (oi, (s, r)) in row.iter().zip(rrow).enumerate() {
                        if r.x {
                            v.unknown += 1;
                            continue;
                        }
                        v.compared += 1;
                        if s.value != r.v {
                            let set = v.fails.entry(oi).or_default();
                            if set.insert(label.clone()) {
                                v.details.push(format!(
                                    "{label}: output {} after vector {si}: engine {} reference {}",
                                    stim.outputs[oi].name,
                                    hex(&s.value),
                                    hex(&r.v)
                                ));
                            }
                        }
                    }
                }
            }
        }
    }
    if let Some(vi) = ct_vec {
        // compile-time evaluation of the same expressions
        let (ins, outs) = port_specs(design);
        let values: Vec<(DeclId, num_bigint::BigUint)> = ins.iter().map(|(id, _)| *id).zip(stim.steps[vi].values.iter().cloned()).collect();
        let cd = constify(design, &values);
        let ctext = print_design(&cd);
        match Analyzed::new(&ctext) {
            Err(r) => {
                // an unguarded dynamic select becomes a static out-of-range
                // select once its index is a constant: outside the domain
                let oor = r.errors.iter().all(|e| e.0 == "InvalidSelect") && rt.steps[vi].iter().any(|x| x.x);
                if oor {
                    v.comptime_blind += 1;
                } else {
                    v.errors.insert("comptime".into(), format!("constant form rejected: {r}\n{ctext}"));
                }
            }
            Ok(ca) => {
                let cstim = Stimulus {
                    clock: None,
                    reset: None,
                    inputs: vec![],
                    outputs: outs.iter().map(|x| x.1.clone()).collect(),
                    steps: vec![StimStep {
                        reset: false,
                        values: vec![],
                    }],
                };
                let interp = Config::default();
                match run_engine(&ca, &interp, &cstim) {
                    Err(e) => {
                        v.errors.insert("comptime".into(), e);
                    }
                    Ok(t) => {
                        for (oi, (s, r)) in t.steps[0].iter().zip(&rt.steps[vi]).enumerate() {
                            if r.x {
                                v.unknown += 1;
                                continue;
                            }
                            if ct_skip.get(oi).copied().unwrap_or(false) {
                                v.comptime_blind += 1;
                                continue;
                            }
                            v.compared += 1;
                            if s.value != r.v || !num_traits::Zero::is_zero(&s.xz) {
                                let set = v.fails.entry(oi).or_default();
                                if set.insert("comptime".into()) {
                                    v.details.push(format!(
                                        "comptime: output {} with vector {vi} as constants: analyzer {} (xz {}) reference {}",
                                        stim.outputs[oi].name,
                                        hex(&s.value),
                                        hex(&s.xz),
                                        hex(&r.v)
                                    ));
                                }
                            }
                        }
                    }
                }
            }
        }
    }
    Ok(v)
}

/// The design reduced to one output (the others become unused variables).
pub fn isolate(design: &Design, out: DeclId) -> Design {
    let mut d = design.clone();
    let top = d.top;
    let m = &mut d.modules[top];
    let others: Vec<DeclId> = m.outputs().into_iter().filter(|&o| o != out).collect();
    m.items.retain(|it| match it {
        Item::Assign { lhs, .. } => !others.contains(&lhs.decl),
        _ => true,
    });
    m.print_order.clear();
    for o in others {
        m.decls[o].kind = DeclKind::Var;
    }
    d
}

fn engines_sig(set: &BTreeSet<String>, errors: &BTreeMap<String, String>) -> String {
    let mut fams: BTreeSet<String> = set.iter().map(|l| family(l)).collect();
    for (l, e) in errors {
        fams.insert(format!("{}!{}", family(l), if e.contains("panic") { "panic" } else { "error" }));
    }
    fams.into_iter().collect::<Vec<_>>().join("+")
}

fn input_vectors(stim: &Stimulus) -> serde_json::Value {
    json!(
        stim.steps
            .iter()
            .map(|s| stim.inputs.iter().zip(&s.values).map(|(p, v)| format!("{}={}'h{:x}", p.name, p.width, v)).collect::<Vec<_>>())
            .collect::<Vec<_>>()
    )
}

pub fn one_case(d: &mut Draw, eng: &Engines, single: bool, known_rate: u32) -> Outcome {
    let mut cfg = GenCfg::exprs_only();
    cfg.known_per_mille = known_rate;
    let n_out = if single { 3 } else { 1 + d.below(4) as usize };
    let (g, infos) = gen_expr_design(d, &cfg, n_out, single);
    let design = &g.design;
    let text = print_design(design);
    let stim = gen_stimulus(d, design, 8);
    let use_cc = !eng.cc.is_empty() && d.chance(1, 8);
    let ct_vec = d.below_usize(stim.steps.len());
    let mut configs = eng.fast.clone();
    if use_cc {
        configs.extend(eng.cc.iter().cloned());
    }
    let rt = reference_trace(design, &stim);
    let m = design.top();
    let rhs_of = |out: DeclId| {
        m.items
            .iter()
            .find_map(|it| match it {
                Item::Assign { lhs, rhs } if lhs.decl == out => Some(rhs),
                _ => None,
            })
            .unwrap()
    };
    // compile-time evaluation ignores $signed(<unsigned>) (known finding,
    // kept visible at the low `known_rate`): the compile-time oracle is
    // blind for those outputs
    let ct_skip: Vec<bool> = infos.iter().map(|i| findings::has_signed_cast_of_unsigned(m, rhs_of(i.output)) && !d.chance(known_rate, 1000)).collect();
    let v = match judge(design, &text, &stim, &rt, &configs, Some(ct_vec), &ct_skip) {
        Ok(v) => v,
        Err(r) => {
            let code = r.errors.first().map(|e| e.0.clone()).unwrap_or_default();
            return Outcome::skip(format!("generated design rejected by the analyzer ({}:{code})", r.stage));
        }
    };
    if !v.fails.is_empty() || !v.errors.is_empty() {
        // isolate the first failing output (or, for whole-design errors, every output in turn)
        let cands: Vec<usize> = if v.fails.is_empty() { (0..infos.len()).collect() } else { v.fails.keys().copied().collect() };
        for oi in cands {
            let out = infos[oi].output;
            let iso = isolate(design, out);
            let itext = print_design(&iso);
            let istim = Stimulus {
                outputs: vec![stim.outputs[oi].clone()],
                ..stim.clone()
            };
            let irt = RefTrace {
                steps: rt.steps.iter().map(|r| vec![r[oi].clone()]).collect(),
                ..Default::default()
            };
            let mut all = eng.fast.clone();
            all.extend(eng.cc.iter().cloned());
            let iv = match judge(&iso, &itext, &istim, &irt, &all, Some(ct_vec), &[ct_skip[oi]]) {
                Ok(iv) => iv,
                Err(r) => return Outcome::skip(format!("isolated design rejected ({r})")),
            };
            if iv.fails.is_empty() && iv.errors.is_empty() {
                continue;
            }
            let expr = rhs_of(out);
            let dest = m.decls[out].ty;
            let set = iv.fails.get(&0).cloned().unwrap_or_default();
            let root = if set.len() == 1 && set.contains("comptime") && iv.errors.is_empty() && findings::has_signed_cast_of_unsigned(m, expr) {
                "signed-cast-at-compile-time".to_string()
            } else {
                findings::classify(m, expr, dest.w)
            };
            let sig = format!("{root}/{}", engines_sig(&set, &iv.errors));
            let vectors = input_vectors(&istim);
            let msg = format!(
                "output {}: {} = {}\nshape {} -> {}{}\n{}\n{}\nengines agreeing with the reference: {}\nvectors: {vectors}\n{itext}",
                m.decls[out].name,
                m.decls[out].name,
                vdesign::print::expr(m, expr),
                shape(m, expr),
                if dest.signed { "s" } else { "u" },
                dest.w,
                iv.details.join("\n"),
                iv.errors.iter().map(|(k, e)| format!("{k}: {}", e.lines().next().unwrap_or(""))).collect::<Vec<_>>().join("\n"),
                all.iter().map(config_label).filter(|l| !set.contains(l) && !iv.errors.contains_key(l)).collect::<Vec<_>>().join(" "),
            );
            return Outcome::fail(
                sig,
                msg,
                json!({"veryl": itext, "top": "Top", "vectors": input_vectors(&istim), "comptime_vector": ct_vec,
                       "expected": irt.steps.iter().map(|r| if r[0].x { "unknown".to_string() } else { format!("{:x}", r[0].v) }).collect::<Vec<_>>(),
                       "details": iv.details}),
            );
        }
        // fails only together with its neighbours
        let set: BTreeSet<String> = v.fails.values().flatten().cloned().collect();
        return Outcome::fail(
            format!("interference/{}", engines_sig(&set, &v.errors)),
            format!("outputs disagree only when the expressions share a module:\n{}\n{}\n{text}", v.details.join("\n"), v.errors.iter().map(|(k, e)| format!("{k}: {e}")).collect::<Vec<_>>().join("\n")),
            json!({"veryl": text, "top": "Top", "vectors": input_vectors(&stim), "details": v.details}),
        );
    }
    let mut classes: Vec<String> = g.classes.iter().cloned().collect();
    let nt = infos.iter().any(|i| i.max_width > 64 || i.any_signed);
    for i in &infos {
        if i.max_width > 128 {
            classes.push("expr:wider_than_128".into());
        } else if i.max_width > 64 {
            classes.push("expr:width_65_128".into());
        }
        if i.any_signed {
            classes.push("expr:signed_operand".into());
        }
    }
    if use_cc {
        classes.push("engine:cc".into());
    }
    if v.unknown > 0 {
        classes.push("ref:unknown_outputs_skipped".into());
    }
    if v.comptime_blind > 0 {
        classes.push("comptime:blind_for_signed_cast".into());
    }
    if v.skipped_4state_x > 0 {
        classes.push("engine:4state_run_with_x_skipped".into());
    }
    for (k, n) in &g.excluded {
        if *n > 0 {
            classes.push(format!("excluded:{k}"));
        }
    }
    classes.sort();
    classes.dedup();
    Outcome::pass(hash_str(&format!("{text}{:?}", input_vectors(&stim))), nt, classes, format!("{text}// vectors: {}", input_vectors(&stim)))
}

/// Development aid (`C18_DISCOVER=1`): do not stop at the first failure;
/// print one example per signature and count them as classes.
fn discover(o: Outcome) -> Outcome {
    static SEEN: std::sync::Mutex<BTreeMap<String, u32>> = std::sync::Mutex::new(BTreeMap::new());
    if std::env::var("C18_DISCOVER").is_err() {
        return o;
    }
    match o {
        Outcome::Fail(f) => {
            let mut g = SEEN.lock().unwrap();
            let n = g.entry(f.signature.clone()).or_insert(0);
            *n += 1;
            if *n <= 2 {
                println!("=== DISCOVERED {}\n{}", f.signature, f.message);
            }
            Outcome::pass(hash_str(&f.message), false, vec![format!("FAIL:{}", f.signature)], String::new())
        }
        o => o,
    }
}

pub fn run(ctx: &Ctx) {
    let eng = Engines::new();
    ctx.note("engines", json!(eng.fast.iter().chain(eng.cc.iter()).map(config_label).collect::<Vec<_>>()));
    // known shapes stay visible at a low rate in `single` only
    let envn = std::env::var("C18_CASES").ok().and_then(|s| s.parse::<usize>().ok());
    let n1 = envn.unwrap_or(ctx.scale(700, 20_000));
    let only = std::env::var("C18_SUB").ok();
    if only.as_deref() != Some("multi") {
    ctx.run("single", CaseCfg::cases(n1).choices(3000), |d| discover(one_case(d, &eng, true, 15)));
    }
    let n2 = envn.unwrap_or(ctx.scale(700, 20_000));
    if only.as_deref() != Some("single") {
    ctx.run("multi", CaseCfg::cases(n2).choices(4000), |d| discover(one_case(d, &eng, false, 0)));
    }
    ctx.assume("reference = IEEE 1800-2017 §11 expression semantics for 2-state values as implemented in vdesign::eval (written from the LRM); outputs it marks unknown (X in SV) are not compared");
    ctx.assume("compile-time evaluation is observed as the value of `const K: <output type> = <expression over constants>` read back through the interpreter");
    ctx.finish(
        "exploration",
        "generated modules of 1-4 outputs `assign o = expr` over 2-6 ports of width 1..300 (signed 1/3), single-operator and nested expressions over every operator, 8 corner-biased vectors, under every Config::all() engine (cc on 1/8 of the designs) and compile-time evaluation with one vector as constants; non-trivial = some operand or result wider than 64 bits or a signed operand; distinct by text + vectors",
    );
}
