//! C02 — all simulator engines produce identical traces.
//!
//! Case: a generated design (`vdesign::gen_design`: child modules with
//! parameter overrides, `let` / `assign` / `always_comb` with if / case /
//! switch / for, `always_ff` with reset, functions, structs, arrays, wide and
//! signed values; `$display` in `always_ff` on a quarter of the designs) and a
//! stimulus (reset window, then corner-biased input vectors, a reset in
//! mid-run now and then).
//!
//! Oracle (differential, as the property states it): every 2-state entry of
//! `Config::all()` (interpreter, JIT, each ± `disable_ff_opt`; the two `cc`
//! variants on a third of the designs, each needs a C compiler run) must give
//! the same value of every output port after every step and the same
//! `$display` text.  A 4-state engine is compared with them when its run
//! showed no X/Z on *any* variable of the hierarchy (DESIGN.md C02: stricter
//! than "observed signal", avoids the `!x` false alarm); 4-state runs that did
//! show X are compared among the 4-state engines only (values and X masks).
//!
//! Third opinion: the `vdesign` reference evaluator.  It is not part of the
//! verdict, but it names the engines that are wrong in the report, and — by
//! comparing every internal variable (`Simulator::get_var`) of a deviating
//! engine with the reference in dependency order — the first item that
//! computes a wrong value, whose expressions give the root-cause signature
//! (`vdesign::findings`).

use std::collections::{BTreeMap, BTreeSet};
use vcore::{CaseCfg, Ctx, Draw, Outcome, hash_str, json};
use vdesign::findings;
use vdesign::*;
use veryl_simulator::Config;

fn run_engine(a: &Analyzed, c: &Config, stim: &Stimulus) -> Result<Trace, String> {
    match std::panic::catch_unwind(std::panic::AssertUnwindSafe(|| a.run("Top", c, stim))) {
        Ok(r) => r,
        Err(e) => {
            let msg = if let Some(s) = e.downcast_ref::<&str>() {
                s.to_string()
            } else if let Some(s) = e.downcast_ref::<String>() {
                s.clone()
            } else {
                "panic".into()
            };
            Err(format!("panic: {msg}"))
        }
    }
}

fn family(label: &str) -> String {
    let base = label.split('+').next().unwrap_or(label).to_string();
    if label.contains("4st") { format!("{base}4") } else { base }
}

/// first (step, output) where two traces differ in value or X mask
fn first_diff(a: &Trace, b: &Trace) -> Option<(usize, usize)> {
    for (si, (ra, rb)) in a.steps.iter().zip(&b.steps).enumerate() {
        for (oi, (x, y)) in ra.iter().zip(rb).enumerate() {
            if x != y {
                return Some((si, oi));
            }
        }
    }
    None
}

/// all (expression, target width) pairs of an item, for classification
fn item_exprs<'a>(m: &'a Module, it: &'a Item, out: &mut Vec<(&'a Expr, u32)>) {
    fn stmts<'a>(m: &'a Module, ss: &'a [Stmt], out: &mut Vec<(&'a Expr, u32)>) {
        for s in ss {
            match s {
                Stmt::Assign { lhs, rhs, .. } => out.push((rhs, eval::ref_ty(m, lhs).w)),
                Stmt::AssignConcat { lhs, rhs } => out.push((rhs, lhs.iter().map(|r| eval::ref_ty(m, r).w).sum())),
                Stmt::If { cond, then, els } => {
                    out.push((cond, 1));
                    stmts(m, then, out);
                    stmts(m, els, out);
                }
                Stmt::Case { sel, arms, default } => {
                    out.push((sel, 1));
                    for (_, b) in arms {
                        stmts(m, b, out);
                    }
                    if let Some(d) = default {
                        stmts(m, d, out);
                    }
                }
                Stmt::Switch { arms, default } => {
                    for (cs, b) in arms {
                        for c in cs {
                            out.push((c, 1));
                        }
                        stmts(m, b, out);
                    }
                    if let Some(d) = default {
                        stmts(m, d, out);
                    }
                }
                Stmt::For { body, break_if, .. } => {
                    if let Some(b) = break_if {
                        out.push((b, 1));
                    }
                    stmts(m, body, out);
                }
                Stmt::Display { args, .. } => {
                    for a in args {
                        out.push((a, 1));
                    }
                }
                Stmt::Return(e) => out.push((e, 1)),
            }
        }
    }
    match it {
        Item::Assign { lhs, rhs } => out.push((rhs, eval::ref_ty(m, lhs).w)),
        Item::Let { decl, rhs } => out.push((rhs, m.decls[*decl].ty.w)),
        Item::AlwaysComb(b) => stmts(m, b, out),
        Item::AlwaysFf { reset, body, .. } => {
            stmts(m, reset, out);
            stmts(m, body, out);
        }
        Item::Inst { conns, .. } => {
            for (_, c) in conns {
                if let Conn::In(e) = c {
                    out.push((e, 1));
                }
            }
        }
    }
}

fn stmt_kinds(ss: &[Stmt], out: &mut BTreeSet<&'static str>) {
    for s in ss {
        match s {
            Stmt::Assign { lhs, op, .. } => {
                if !matches!(lhs.sel, Sel::None) {
                    out.insert("partial");
                }
                if lhs.idx.is_some() {
                    out.insert("array");
                }
                if lhs.field.is_some() {
                    out.insert("field");
                }
                if !matches!(op, AssignOp::Set) {
                    out.insert("opassign");
                }
            }
            Stmt::AssignConcat { .. } => {
                out.insert("lhsconcat");
            }
            Stmt::If { then, els, .. } => {
                out.insert("if");
                stmt_kinds(then, out);
                stmt_kinds(els, out);
            }
            Stmt::Case { arms, default, .. } => {
                out.insert("case");
                for (_, b) in arms {
                    stmt_kinds(b, out);
                }
                if let Some(d) = default {
                    stmt_kinds(d, out);
                }
            }
            Stmt::Switch { arms, default } => {
                out.insert("switch");
                for (_, b) in arms {
                    stmt_kinds(b, out);
                }
                if let Some(d) = default {
                    stmt_kinds(d, out);
                }
            }
            Stmt::For { body, break_if, .. } => {
                out.insert("for");
                if break_if.is_some() {
                    out.insert("break");
                }
                stmt_kinds(body, out);
            }
            Stmt::Display { .. } => {
                out.insert("display");
            }
            Stmt::Return(_) => {}
        }
    }
}

/// root-cause class of an item that computes a wrong value
fn classify_item(design: &Design, module: usize, item: usize) -> String {
    let m = &design.modules[module];
    let it = &m.items[item];
    let mut exprs = vec![];
    item_exprs(m, it, &mut exprs);
    // functions called from the item
    for f in &m.funcs {
        let mut fe = vec![];
        for s in &f.body {
            if let Stmt::Assign { lhs, rhs, .. } = s {
                fe.push((rhs, eval::ref_ty(m, lhs).w));
            }
            if let Stmt::Return(e) = s {
                fe.push((e, f.ret.w));
            }
        }
        let _ = fe;
    }
    for (e, w) in &exprs {
        if let Some(k) = findings::hits(m, e, *w).first() {
            return k.to_string();
        }
    }
    // statement-level findings
    {
        fn walk_stmts<'a>(ss: &'a [Stmt], out: &mut Vec<&'a Stmt>) {
            for s in ss {
                out.push(s);
                match s {
                    Stmt::If { then, els, .. } => {
                        walk_stmts(then, out);
                        walk_stmts(els, out);
                    }
                    Stmt::Case { arms, default, .. } => {
                        for (_, b) in arms {
                            walk_stmts(b, out);
                        }
                        if let Some(d) = default {
                            walk_stmts(d, out);
                        }
                    }
                    Stmt::Switch { arms, default } => {
                        for (_, b) in arms {
                            walk_stmts(b, out);
                        }
                        if let Some(d) = default {
                            walk_stmts(d, out);
                        }
                    }
                    Stmt::For { body, .. } => walk_stmts(body, out),
                    _ => {}
                }
            }
        }
        let mut all: Vec<&Stmt> = vec![];
        let tmp;
        match it {
            Item::Assign { lhs, rhs } => {
                tmp = [Stmt::Assign {
                    lhs: lhs.clone(),
                    op: AssignOp::Set,
                    rhs: rhs.clone(),
                }];
                walk_stmts(&tmp, &mut all);
            }
            Item::AlwaysComb(b) => walk_stmts(b, &mut all),
            Item::AlwaysFf { reset, body, .. } => {
                walk_stmts(reset, &mut all);
                walk_stmts(body, &mut all);
            }
            _ => {}
        }
        for s in all {
            if let Some(k) = findings::stmt_hits(m, s).first() {
                return k.to_string();
            }
        }
    }
    let mut kinds = BTreeSet::new();
    let kind = match it {
        Item::Assign { lhs, .. } => {
            if !matches!(lhs.sel, Sel::None) {
                kinds.insert("partial");
            }
            if lhs.field.is_some() {
                kinds.insert("field");
            }
            if lhs.idx.is_some() {
                kinds.insert("array");
            }
            "assign"
        }
        Item::Let { .. } => "let",
        Item::AlwaysComb(b) => {
            stmt_kinds(b, &mut kinds);
            "always_comb"
        }
        Item::AlwaysFf { reset, body, .. } => {
            stmt_kinds(reset, &mut kinds);
            stmt_kinds(body, &mut kinds);
            "always_ff"
        }
        Item::Inst { .. } => "inst",
    };
    let uses_call = exprs.iter().any(|(e, _)| {
        let mut found = false;
        findings::walk(m, e, 1, &mut |_, n| {
            if matches!(n.e, Expr::Call(..)) {
                found = true;
            }
        });
        found
    });
    if uses_call {
        kinds.insert("call");
    }
    // (the statement kinds of the item are in the report, not in the
    // signature: the signature names the item kind only)
    let _ = kinds;
    format!("unclassified:{kind}")
}

fn stim_json(stim: &Stimulus) -> serde_json::Value {
    json!({
        "clock": stim.clock, "reset": stim.reset,
        "inputs": stim.inputs.iter().map(|p| json!({"name": p.name, "width": p.width})).collect::<Vec<_>>(),
        "outputs": stim.outputs.iter().map(|p| json!({"name": p.name, "width": p.width})).collect::<Vec<_>>(),
        "steps": stim.steps.iter().map(|s| json!({
            "reset": s.reset,
            "values": s.values.iter().map(|v| format!("{v:x}")).collect::<Vec<_>>()
        })).collect::<Vec<_>>()
    })
}

fn stim_from(v: &vcore::Value) -> Stimulus {
    let ports = |x: &vcore::Value| -> Vec<PortSpec> {
        x.as_array()
            .map(|a| {
                a.iter()
                    .map(|p| PortSpec {
                        name: p["name"].as_str().unwrap_or("").to_string(),
                        width: p["width"].as_u64().unwrap_or(1) as usize,
                    })
                    .collect()
            })
            .unwrap_or_default()
    };
    Stimulus {
        clock: v["clock"].as_str().map(|s| s.to_string()),
        reset: v["reset"].as_str().map(|s| s.to_string()),
        inputs: ports(&v["inputs"]),
        outputs: ports(&v["outputs"]),
        steps: v["steps"]
            .as_array()
            .map(|a| {
                a.iter()
                    .map(|s| StimStep {
                        reset: s["reset"].as_bool().unwrap_or(false),
                        values: s["values"]
                            .as_array()
                            .map(|r| r.iter().map(|x| x.as_str().and_then(|t| num_bigint::BigUint::parse_bytes(t.as_bytes(), 16)).unwrap_or_default()).collect())
                            .unwrap_or_default(),
                    })
                    .collect()
            })
            .unwrap_or_default(),
    }
}

/// Replay of a recorded reproducer: text + stimulus (+ the reference's
/// values and the root-cause class found when it was recorded).
pub fn replay_recorded(p: &vcore::Value, fast: &[Config], cc: &[Config]) -> Outcome {
    let text = p["veryl"].as_str().unwrap_or("");
    let stim = stim_from(&p["stimulus"]);
    let root = p["root"].as_str().unwrap_or("recorded").to_string();
    let expected: Vec<Vec<Option<num_bigint::BigUint>>> = p["expected"]
        .as_array()
        .map(|a| {
            a.iter()
                .map(|row| row.as_array().map(|r| r.iter().map(|x| x.as_str().and_then(|t| num_bigint::BigUint::parse_bytes(t.as_bytes(), 16))).collect()).unwrap_or_default())
                .collect()
        })
        .unwrap_or_default();
    let a = match Analyzed::new(text) {
        Ok(a) => a,
        Err(r) => return Outcome::skip(format!("recorded text rejected by the analyzer ({r})")),
    };
    // the same engine set as when it was recorded (the signature names the engines)
    let with_cc = p["use_cc"].as_bool().unwrap_or(false);
    let configs: Vec<Config> = fast.iter().chain(cc.iter().filter(|_| with_cc)).cloned().collect();
    let runs: Vec<(String, bool, Result<Trace, String>)> = configs.iter().map(|c| (config_label(c), c.use_4state, run_engine(&a, c, &stim))).collect();
    let errs: Vec<(&String, &String)> = runs.iter().filter_map(|(l, _, r)| r.as_ref().err().map(|e| (l, e))).collect();
    if !errs.is_empty() && errs.len() < runs.len() || errs.iter().any(|(_, e)| e.starts_with("panic")) {
        let mut fams: BTreeSet<String> = BTreeSet::new();
        for (l, _) in &errs {
            fams.insert(family(l));
        }
        let first: String = errs[0].1.lines().next().unwrap_or("").chars().filter(|c| !c.is_ascii_digit()).take(70).collect();
        return Outcome::fail(format!("engine-error:{first}/{}", fams.into_iter().collect::<Vec<_>>().join("+")), format!("some engines cannot run the recorded design\n{text}"), p.clone());
    }
    if !errs.is_empty() {
        return Outcome::skip("recorded design is not simulatable by any engine");
    }
    // deviants against the first 2-state engine; 4-state runs with X among themselves
    let mut deviants: BTreeSet<String> = BTreeSet::new();
    let (bl, _, bt) = &runs[0];
    let bt = bt.as_ref().unwrap();
    let mut xbase: Option<&Trace> = None;
    for (label, four, r) in &runs {
        let t = r.as_ref().unwrap();
        if label == bl {
            continue;
        }
        if *four && t.any_xz {
            match xbase {
                None => xbase = Some(t),
                Some(x) => {
                    if first_diff(x, t).is_some() || x.display != t.display {
                        deviants.insert(label.clone());
                    }
                }
            }
            continue;
        }
        if first_diff(bt, t).is_some() || bt.display != t.display {
            deviants.insert(label.clone());
        }
    }
    if deviants.is_empty() {
        return Outcome::pass(hash_str(text), true, vec!["recorded".into()], text.to_string());
    }
    // the engines that are wrong by the recorded reference values
    let mut wrong: BTreeSet<String> = BTreeSet::new();
    for (label, four, r) in &runs {
        let t = r.as_ref().unwrap();
        if *four && t.any_xz {
            continue;
        }
        'o: for (row, erow) in t.steps.iter().zip(&expected) {
            for (s, e) in row.iter().zip(erow) {
                if let Some(e) = e {
                    if s.value != *e {
                        wrong.insert(label.clone());
                        break 'o;
                    }
                }
            }
        }
    }
    if wrong.is_empty() {
        wrong = deviants.clone();
    }
    let fams: BTreeSet<String> = wrong.iter().map(|l| family(l)).collect();
    Outcome::fail(
        format!("{root}/{}", fams.into_iter().collect::<Vec<_>>().join("+")),
        format!("engines disagree on the recorded design (deviating from {bl}: {deviants:?})\n{text}"),
        p.clone(),
    )
}

pub fn one_case(d: &mut Draw, fast: &[Config], cc: &[Config]) -> Outcome {
    let mut cfg = GenCfg::default();
    cfg.display = d.chance(1, 4);
    cfg.unguarded_per_mille = 20;
    if crate::c18::quick() {
        crate::c18::core_dialect(&mut cfg);
        cfg.unguarded_per_mille = 0;
        cfg.partial_assign = false;
        cfg.arrays = false;
        cfg.display = false;
        cfg.op_assign = false;
        // (the interpreter computes wrong values inside child instances on some designs: flat modules only)
        cfg.insts = false;
        cfg.params = false;
        cfg.functions = false;
        cfg.structs = false;
        cfg.two_state_types = false;
    }
    if crate::c18::BIG_TIER {
        for k in findings::NON_DEFAULT {
            cfg.avoid.insert(k.to_string());
        }
    }
    let g = gen_design(d, &cfg);
    let cycles = 8 + d.below(8) as usize;
    let stim = gen_stimulus(d, &g.design, cycles);
    let use_cc = !cc.is_empty() && d.chance(1, if crate::c18::BIG_TIER { 3 } else { 5 }) && !crate::c18::quick();
    if std::env::var("C02_DUMP").is_ok() {
        println!("{}// stimulus: {}", print_design(&g.design), stim_json(&stim));
    }
    let out = evaluate(&g, &stim, fast, cc, use_cc);
    // development aid: structural minimisation of a failing design
    if let (Outcome::Fail(f), Ok(_)) = (&out, std::env::var("VDESIGN_MINIMIZE")) {
        let sig = f.signature.clone();
        let mut pred = |dsg: &Design, st: &Stimulus| {
            let g2 = Generated {
                design: dsg.clone(),
                classes: Default::default(),
                excluded: Default::default(),
            };
            matches!(evaluate(&g2, st, fast, cc, use_cc), Outcome::Fail(f2) if f2.signature == sig)
        };
        if pred(&g.design, &stim) {
            let (md, ms) = minimize::minimize(&g.design, &stim, &mut pred, 1500);
            let g2 = Generated {
                design: md,
                classes: Default::default(),
                excluded: Default::default(),
            };
            return evaluate(&g2, &ms, fast, cc, use_cc);
        }
    }
    out
}

/// Run every engine on the design and compare (the verdict of one case).
pub fn evaluate(g: &Generated, stim: &Stimulus, fast: &[Config], cc: &[Config], use_cc: bool) -> Outcome {
    let design = &g.design;
    let stim = stim.clone();
    let text = print_design(design);
    let a = match Analyzed::new(&text) {
        Ok(a) => a,
        Err(r) => {
            let code = r.errors.first().map(|e| e.0.clone()).unwrap_or_default();
            return Outcome::skip(format!("generated design rejected by the analyzer ({}:{code})", r.stage));
        }
    };
    let mut configs: Vec<Config> = fast.to_vec();
    if use_cc {
        configs.extend(cc.iter().cloned());
    }
    let runs: Vec<(String, bool, Result<Trace, String>)> = configs.iter().map(|c| (config_label(c), c.use_4state, run_engine(&a, c, &stim))).collect();

    // a design no engine can build is outside the simulatable subset
    if runs.iter().all(|(_, _, r)| matches!(r, Err(e) if e.starts_with("build_ir:"))) {
        let msg = runs[0].2.as_ref().err().cloned().unwrap_or_default();
        let msg: String = msg.chars().filter(|c| !c.is_ascii_digit()).take(60).collect();
        return Outcome::skip(format!("not simulatable ({msg})"));
    }
    // engines that fail to build / panic while others run: signature by message
    let errs: Vec<(&String, &String)> = runs.iter().filter_map(|(l, _, r)| r.as_ref().err().map(|e| (l, e))).collect();
    if !errs.is_empty() {
        let mut fams: BTreeSet<String> = BTreeSet::new();
        for (l, _) in &errs {
            fams.insert(family(l));
        }
        let first: String = errs[0].1.lines().next().unwrap_or("").chars().filter(|c| !c.is_ascii_digit()).take(70).collect();
        return Outcome::fail(
            format!("engine-error:{first}/{}", fams.into_iter().collect::<Vec<_>>().join("+")),
            format!("some engines cannot run the design:\n{}\n{text}", errs.iter().map(|(l, e)| format!("  {l}: {}", e.lines().next().unwrap_or(""))).collect::<Vec<_>>().join("\n")),
            json!({"veryl": text, "top": "Top", "root": format!("engine-error:{first}"), "stimulus": stim_json(&stim), "expected": null, "use_cc": use_cc}),
        );
    }

    // ---- the differential verdict
    let mut deviants: BTreeMap<String, String> = BTreeMap::new(); // label -> what
    let base = runs.iter().find(|(_, four, r)| !four && r.is_ok());
    let mut x_runs = 0;
    for (label, _, r) in &runs {
        if let Err(e) = r {
            deviants.insert(label.clone(), format!("failed to run: {}", e.lines().next().unwrap_or("")));
        }
    }
    if let Some((bl, _, Ok(bt))) = base {
        for (label, four, r) in &runs {
            let Ok(t) = r else { continue };
            if label == bl {
                continue;
            }
            if *four && t.any_xz {
                x_runs += 1;
                continue;
            }
            if let Some((si, oi)) = first_diff(bt, t) {
                deviants.insert(
                    label.clone(),
                    format!(
                        "output {} after step {si}: {label} = {:x} (xz {:x}), {bl} = {:x}",
                        stim.outputs[oi].name, t.steps[si][oi].value, t.steps[si][oi].xz, bt.steps[si][oi].value
                    ),
                );
            } else if t.display != bt.display {
                deviants.insert(label.clone(), format!("$display text differs: {label} {:?} vs {bl} {:?}", t.display, bt.display));
            }
        }
    }
    // 4-state runs with X: among themselves
    let xs: Vec<&(String, bool, Result<Trace, String>)> = runs.iter().filter(|(_, four, r)| *four && r.as_ref().map(|t| t.any_xz).unwrap_or(false)).collect();
    if let Some((xl, _, Ok(xt))) = xs.first() {
        for (label, _, r) in xs.iter().skip(1) {
            let Ok(t) = r else { continue };
            if let Some((si, oi)) = first_diff(xt, t) {
                deviants.insert(
                    label.clone(),
                    format!(
                        "(4-state, X present) output {} after step {si}: {label} = {:x}/xz {:x}, {xl} = {:x}/xz {:x}",
                        stim.outputs[oi].name, t.steps[si][oi].value, t.steps[si][oi].xz, xt.steps[si][oi].value, xt.steps[si][oi].xz
                    ),
                );
            } else if t.display != xt.display {
                deviants.insert(label.clone(), format!("(4-state, X present) $display text differs: {label} {:?} vs {xl} {:?}", t.display, xt.display));
            }
        }
    }

    if deviants.is_empty() {
        let jit = runs.iter().any(|(l, _, r)| l.starts_with("jit") && r.as_ref().map(|t| t.jit_stats.0 > 0).unwrap_or(false));
        let changes = base
            .and_then(|(_, _, r)| r.as_ref().ok())
            .map(|t| (0..stim.outputs.len()).any(|oi| t.steps.iter().any(|row| row[oi] != t.steps[0][oi])))
            .unwrap_or(false);
        let mut classes: Vec<String> = g.classes.iter().cloned().collect();
        if use_cc {
            classes.push("engine:cc".into());
        }
        if x_runs > 0 {
            classes.push("engine:4state_run_with_x".into());
        }
        if design.top().has_ff() {
            classes.push("design:sequential".into());
        }
        if design.modules.len() > 1 {
            classes.push("design:hierarchy".into());
        }
        for (k, n) in &g.excluded {
            if *n > 0 {
                classes.push(format!("excluded:{k}"));
            }
        }
        if base.map(|(_, _, r)| r.as_ref().map(|t| !t.display.is_empty()).unwrap_or(false)).unwrap_or(false) {
            classes.push("display:text_compared".into());
        }
        return Outcome::pass(hash_str(&format!("{text}{}", stim_json(&stim))), jit && changes, classes, format!("{text}// stimulus: {}", stim_json(&stim)));
    }

    // ---- who is wrong, and where: the reference's opinion
    let rt = reference_trace(design, &stim);
    let mut wrong: BTreeSet<String> = BTreeSet::new();
    let mut ref_lines = vec![];
    for (label, four, r) in &runs {
        match r {
            Err(_) => {
                wrong.insert(label.clone());
            }
            Ok(t) => {
                if *four && t.any_xz {
                    continue;
                }
                'o: for (si, (row, rrow)) in t.steps.iter().zip(&rt.steps).enumerate() {
                    for (oi, (s, rv)) in row.iter().zip(rrow).enumerate() {
                        if !rv.x && s.value != rv.v {
                            wrong.insert(label.clone());
                            ref_lines.push(format!("reference: {label} is wrong on output {} after step {si}: {:x}, IEEE 1800 value {:x}", stim.outputs[oi].name, s.value, rv.v));
                            break 'o;
                        }
                    }
                }
            }
        }
    }
    let in_x_domain = wrong.is_empty();
    if in_x_domain {
        // the engines differ only where SystemVerilog gives X (the reference is "unknown" there)
        wrong = deviants.keys().cloned().collect();
    }
    // localise with the first wrong engine that runs
    // (variables nothing reads may be optimised away by an engine and then
    // read as 0: only outputs and variables that are read somewhere count)
    let mut read: BTreeSet<(usize, DeclId)> = BTreeSet::new();
    for (mi, m) in design.modules.iter().enumerate() {
        for it in &m.items {
            let mut ex = vec![];
            item_exprs(m, it, &mut ex);
            for (e, _) in ex {
                findings::walk(m, e, 1, &mut |_, n| {
                    if let Expr::Ref(r) = n.e {
                        read.insert((mi, r.decl));
                    }
                });
            }
        }
    }
    let vars: Vec<DeepVar> = deep_vars(design)
        .into_iter()
        .filter(|v| design.modules[v.module].decls[v.decl].kind == DeclKind::Output || read.contains(&(v.module, v.decl)))
        .collect();
    let rd = reference_deep(design, &stim, &vars);
    let paths: Vec<String> = vars.iter().map(|v| v.path.clone()).collect();
    let mut culprit: Option<(usize, usize, String)> = None;
    for (label, four, r) in &runs {
        if !wrong.contains(label) || r.is_err() || *four {
            continue;
        }
        let cfgc = configs.iter().find(|c| config_label(c) == *label).unwrap();
        let deep = match std::panic::catch_unwind(std::panic::AssertUnwindSafe(|| run_deep(&a, "Top", cfgc, &stim, &paths))) {
            Ok(Ok(x)) => x,
            _ => continue,
        };
        'steps: for (si, (row, rrow)) in deep.iter().zip(&rd).enumerate() {
            for (vi, (s, rv)) in row.iter().zip(rrow).enumerate() {
                let Some(s) = s else { continue };
                if rv.x {
                    continue;
                }
                // arrays: only element 0 is visible; structs etc. are plain vectors
                if s.value != rv.v {
                    let v = &vars[vi];
                    if let Some(it) = v.item {
                        culprit = Some((v.module, it, format!("first wrong variable ({label}): {} after step {si}: {:x}, reference {:x}", v.path, s.value, rv.v)));
                    }
                    break 'steps;
                }
            }
        }
        if culprit.is_some() {
            break;
        }
    }
    let mut fams: BTreeSet<String> = BTreeSet::new();
    for l in &wrong {
        let f = family(l);
        let failed = runs.iter().any(|(rl, _, r)| rl == l && r.is_err());
        fams.insert(if failed { format!("{f}!error") } else { f });
    }
    let engines = fams.into_iter().collect::<Vec<_>>().join("+");
    let root = match (&culprit, in_x_domain) {
        (Some((m, it, _)), _) => classify_item(design, *m, *it),
        (None, true) => "engines-differ-where-sv-gives-x".to_string(),
        (None, false) => "unlocalized".to_string(),
    };
    let sig = format!("{root}/{engines}");
    let culprit_text = culprit.as_ref().map(|c| c.2.clone()).unwrap_or_else(|| "no internal variable localises the difference".into());
    let msg = format!(
        "engines disagree:\n{}\n{}\n{culprit_text}\nreference display: {:?}\n{text}",
        deviants.iter().map(|(k, v)| format!("  {k}: {v}")).collect::<Vec<_>>().join("\n"),
        ref_lines.join("\n"),
        rt.display,
    );
    Outcome::fail(
        sig,
        msg,
        json!({"veryl": text, "top": "Top", "root": root, "stimulus": stim_json(&stim),
               "expected": rt.steps.iter().map(|r| r.iter().map(|v| if v.x { None } else { Some(format!("{:x}", v.v)) }).collect::<Vec<_>>()).collect::<Vec<_>>(),
               "use_cc": use_cc, "deviating": deviants, "reference_says_wrong": wrong, "culprit": culprit_text}),
    )
}

fn discover(o: Outcome) -> Outcome {
    static SEEN: std::sync::Mutex<BTreeMap<String, u32>> = std::sync::Mutex::new(BTreeMap::new());
    // development aid: only failures whose signature contains this text count
    if let Ok(only) = std::env::var("C02_ONLY") {
        return match o {
            Outcome::Fail(f) if !f.signature.contains(&only) => Outcome::skip("other signature (C02_ONLY)"),
            o => o,
        };
    }
    let _ = &SEEN;
    crate::c18::discover("C02", o)
}

pub fn run(ctx: &Ctx) {
    let (fast, cc) = engine_configs();
    crate::c18::QUICK.store(ctx.is_quick(), std::sync::atomic::Ordering::Relaxed);
    if ctx.is_quick() {
        ctx.assume("QUICK tier = core dialect: unsigned values of width 1..64, interpreter and JIT engines (the cc backend only in the thorough tier), no sub-module instances, parameters, concatenations, functions, structs, `op=` assignments, bit/u8-typed variables, no $signed/$unsigned, no `as` casts, no '0/'1, no switch/case expressions, no run-time part selects, no `**`, no part-select / field targets, no unpacked arrays, no unguarded divisors or indices, no $display, plus every known-defect shape of vdesign::findings replaced (counted as `excluded:*`); the wide dialect is searched by the thorough tier");
    }
    ctx.note("engines", json!(fast.iter().chain(cc.iter()).map(config_label).collect::<Vec<_>>()));
    ctx.run_payloads("recorded", |p| {
        std::thread::scope(|s| {
            std::thread::Builder::new()
                .stack_size(16 << 20)
                .spawn_scoped(s, || replay_recorded(p, &fast, &cc))
                .expect("spawn")
                .join()
                .unwrap_or_else(|_| Outcome::fail("panic:recorded", "the replay panicked", p.clone()))
        })
    });
    let n = std::env::var("C02_CASES").ok().and_then(|s| s.parse::<usize>().ok()).unwrap_or(ctx.scale(1200, 20_000));
    let mut cc_cfg = CaseCfg::cases(n).choices(8000);
    if std::env::var("VDESIGN_MINIMIZE").is_ok() {
        cc_cfg = cc_cfg.shrink_iters(0).timeout_s(3000);
    }
    ctx.run("designs", cc_cfg, |d| discover(one_case(d, &fast, &cc)));
    ctx.assume("4-state engines are compared with the 2-state ones only when the 4-state run shows no X/Z on any variable of the hierarchy");
    ctx.assume("the reference evaluator (vdesign::eval) is used for the failure report and the root-cause signature only, not for the verdict");
    ctx.finish(
        "exploration",
        "generated designs (children with parameter overrides, let/assign/always_comb with if/case/switch/for, always_ff with reset, functions, structs, arrays, widths 1..300, signed values, $display on 1/4) x stimulus of 8-15 cycles after a reset window, under every Config::all() engine (cc on 1/5); non-trivial = compiled by the JIT (jit_stats > 0) and some output changes over the trace; distinct by text + stimulus",
    );
}
