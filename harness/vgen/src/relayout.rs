//! E1(b) corpus re-layout: tokenise a parseable Veryl text and re-join the
//! tokens with generated separators and injected comments.  The token
//! sequence (and therefore the meaning) is unchanged; the layout is
//! arbitrarily bad.

use std::path::Path;
use vcore::Draw;
use veryl_parser::Parser;
use veryl_parser::resource_table;
use veryl_parser::token_collector::TokenCollector;
use veryl_parser::veryl_token::TokenSource;
use veryl_parser::veryl_walker::VerylWalker;

#[derive(Clone, Debug, PartialEq, Eq)]
pub enum PieceKind {
    Token,
    LineComment,
    BlockComment,
    /// text that must be reproduced byte for byte (inside `{{{ … }}}`)
    Verbatim,
}

#[derive(Clone, Debug)]
pub struct Piece {
    pub text: String,
    pub kind: PieceKind,
}

/// Split `gap` (text between two tokens) into comments and stray tokens.
fn lex_gap(gap: &str, out: &mut Vec<Piece>) {
    let b = gap.as_bytes();
    let mut i = 0;
    while i < b.len() {
        let c = b[i];
        if c.is_ascii_whitespace() {
            i += 1;
        } else if c == b'/' && i + 1 < b.len() && b[i + 1] == b'/' {
            let mut j = i;
            while j < b.len() && b[j] != b'\n' && b[j] != b'\r' {
                j += 1;
            }
            out.push(Piece {
                text: gap[i..j].trim_end().to_string(),
                kind: PieceKind::LineComment,
            });
            i = j;
        } else if c == b'/' && i + 1 < b.len() && b[i + 1] == b'*' {
            let end = gap[i + 2..].find("*/").map(|k| i + 2 + k + 2).unwrap_or(b.len());
            out.push(Piece {
                text: gap[i..end].to_string(),
                kind: PieceKind::BlockComment,
            });
            i = end;
        } else {
            // a token the default walker does not visit (e.g. the `;` of `mixin …;`)
            let mut j = i;
            while j < b.len() && !b[j].is_ascii_whitespace() {
                if b[j] == b'/' && j + 1 < b.len() && (b[j + 1] == b'/' || b[j + 1] == b'*') {
                    break;
                }
                j += 1;
            }
            if j == i {
                j = i + 1;
            }
            while !gap.is_char_boundary(j) {
                j += 1;
            }
            out.push(Piece {
                text: gap[i..j].to_string(),
                kind: PieceKind::Token,
            });
            i = j;
        }
    }
}

/// Tokenise `src` with the real parser (must run on a thread whose parser
/// tables may be polluted).  `None` if the text does not parse.
pub fn pieces(src: &str) -> Option<Vec<Piece>> {
    let parser = Parser::parse(src, &Path::new("relayout.veryl")).ok()?;
    let mut col = TokenCollector::new(false);
    col.veryl(&parser.veryl);
    let mut toks: Vec<(usize, usize)> = col
        .tokens
        .iter()
        .filter(|t| matches!(t.source, TokenSource::File { .. }) && t.length > 0)
        .map(|t| (t.pos as usize, t.length as usize))
        .collect();
    toks.sort();
    toks.dedup();
    let mut out = Vec::new();
    let mut prev_end = 0usize;
    let mut in_embed = false;
    let mut embed_start = 0usize;
    for (pos, len) in toks {
        if pos < prev_end || pos + len > src.len() + 1 {
            return None; // overlapping token positions: cannot re-lay safely
        }
        let end = (pos + len).min(src.len());
        let text = &src[pos..end];
        if in_embed {
            if text == "}}}" {
                out.push(Piece {
                    text: src[embed_start..pos].to_string(),
                    kind: PieceKind::Verbatim,
                });
                out.push(Piece {
                    text: text.to_string(),
                    kind: PieceKind::Token,
                });
                in_embed = false;
            }
            prev_end = end;
            continue;
        }
        lex_gap(&src[prev_end..pos], &mut out);
        out.push(Piece {
            text: text.to_string(),
            kind: PieceKind::Token,
        });
        if text == "{{{" {
            in_embed = true;
            embed_start = end;
        }
        prev_end = end;
    }
    if in_embed {
        return None;
    }
    lex_gap(&src[prev_end.min(src.len())..], &mut out);
    let _ = resource_table::get_str_value; // keep the import used on all cfgs
    Some(out)
}

#[derive(Clone, Debug)]
pub struct LayoutOpts {
    /// probability (per 1000 token gaps) of injecting a comment
    pub inject_per_mille: u32,
    /// allow multi-byte UTF-8 in injected comments
    pub multibyte: bool,
    /// newline flavour: 0 = \n, 1 = \r\n, 2 = mixed
    pub newline: u8,
    /// keep the comments of the original
    pub keep_comments: bool,
    /// allow gluing tokens without any separator where that is lexically safe
    pub glue: bool,
    /// bias towards one-token-per-line (0), everything on few lines (2), mixed (1)
    pub density: u8,
    /// put a comment before the first token
    pub leading_comment: bool,
}

impl LayoutOpts {
    pub fn draw(d: &mut Draw) -> LayoutOpts {
        LayoutOpts {
            inject_per_mille: *d.pick(&[0, 10, 40, 150]),
            multibyte: d.chance(1, 2),
            newline: d.weighted(&[4, 1, 1]) as u8,
            keep_comments: d.chance(3, 4),
            glue: d.chance(1, 2),
            density: d.below(3) as u8,
            leading_comment: d.chance(1, 4),
        }
    }
}

const WORDS: &[&str] = &[
    "todo", "x", "fix me", "a b c", "0", "see below", "==>", "{", "}", "/*", "//", "\"", "'", "*",
    "end", "module", "if", "\\", "#[fmt(skip)]", "",
];
const MB: &[&str] = &["日本語", "é", "🦀", "→", "ß", "Ω≈ç", "コメント", "𝔘𝔫𝔦", "¡", "ｘ"];

pub fn gen_comment(d: &mut Draw, multibyte: bool) -> Piece {
    let mut body = String::new();
    let n = d.below(4);
    for k in 0..n {
        if k > 0 {
            body.push(' ');
        }
        if multibyte && d.chance(1, 2) {
            body.push_str(*d.pick(MB));
        } else {
            body.push_str(*d.pick(WORDS));
        }
    }
    match d.weighted(&[5, 1, 4, 2]) {
        0 => Piece {
            text: format!("// {body}").trim_end().to_string(),
            kind: PieceKind::LineComment,
        },
        1 => Piece {
            text: format!("/// {body}").trim_end().to_string(),
            kind: PieceKind::LineComment,
        },
        2 => {
            let body = body.replace("*/", "* /");
            Piece {
                text: format!("/* {body} */"),
                kind: PieceKind::BlockComment,
            }
        }
        _ => {
            let body = body.replace("*/", "* /");
            Piece {
                text: format!("/* {body}\n   second line {} */", if multibyte { "…" } else { "." }),
                kind: PieceKind::BlockComment,
            }
        }
    }
}

fn glue_safe(a: &str, b: &str) -> bool {
    // no separator needed when one side is a bracket/comma/semicolon that
    // cannot fuse with its neighbour into a different token
    let safe = |s: &str| matches!(s, "(" | ")" | "," | ";" | "[" | "]");
    // `[` directly after `#` would become the attribute opener; `(`/`)` are harmless
    if a == "#" || b == "#" {
        return false;
    }
    safe(a) || safe(b)
}

/// Re-join `pieces` with generated separators.
pub fn relayout(d: &mut Draw, pieces: &[Piece], o: &LayoutOpts) -> String {
    let mut out = String::new();
    let nl = |d: &mut Draw, out: &mut String| match o.newline {
        0 => out.push('\n'),
        1 => out.push_str("\r\n"),
        _ => {
            if d.bool() {
                out.push_str("\r\n")
            } else {
                out.push('\n')
            }
        }
    };
    let mut seq: Vec<Piece> = Vec::new();
    if o.leading_comment {
        seq.push(gen_comment(d, o.multibyte));
    }
    for p in pieces {
        match p.kind {
            PieceKind::LineComment | PieceKind::BlockComment if !o.keep_comments => continue,
            _ => {}
        }
        seq.push(p.clone());
        if p.kind != PieceKind::Verbatim
            && o.inject_per_mille > 0
            && d.below(1000) < o.inject_per_mille
        {
            // do not inject between `{{{` and its verbatim body
            if p.text != "{{{" {
                seq.push(gen_comment(d, o.multibyte));
                if d.chance(1, 5) {
                    seq.push(gen_comment(d, o.multibyte));
                }
            }
        }
    }
    let mut prev: Option<&Piece> = None;
    for p in &seq {
        if let Some(q) = prev {
            let verbatim_edge = q.kind == PieceKind::Verbatim
                || p.kind == PieceKind::Verbatim
                || (q.kind == PieceKind::Token && q.text == "{{{");
            if verbatim_edge {
                // nothing: the embed body is reproduced byte for byte
            } else if q.kind == PieceKind::LineComment {
                nl(d, &mut out);
                let k = d.weighted(&[6, 2, 1]);
                for _ in 0..k {
                    if d.chance(1, 3) {
                        nl(d, &mut out);
                    } else {
                        out.push(' ');
                    }
                }
            } else {
                let can_glue = o.glue
                    && q.kind == PieceKind::Token
                    && p.kind == PieceKind::Token
                    && glue_safe(&q.text, &p.text);
                let w = match o.density {
                    0 => [1u32, 2, 6, 2, 1, 1],
                    1 => [2, 6, 3, 1, 1, 1],
                    _ => [3, 12, 1, 0, 1, 1],
                };
                let mut k = d.weighted(&w);
                if k == 0 && !can_glue {
                    k = 1;
                }
                match k {
                    0 => {}
                    1 => out.push(' '),
                    2 => nl(d, &mut out),
                    3 => {
                        nl(d, &mut out);
                        nl(d, &mut out);
                        if d.chance(1, 4) {
                            nl(d, &mut out);
                        }
                    }
                    4 => {
                        let n = d.usize_in(2, 12);
                        for _ in 0..n {
                            out.push(' ');
                        }
                    }
                    _ => {
                        out.push('\t');
                        if d.bool() {
                            nl(d, &mut out);
                            out.push_str("  ");
                        }
                    }
                }
            }
        } else if d.chance(1, 6) {
            // leading whitespace before the first piece
            if d.bool() {
                nl(d, &mut out);
            } else {
                out.push_str("  ");
            }
        }
        // Excluded by construction (known finding C12 "line-lost"): a `/` token
        // directly after a newline that follows a comment makes the lexer lose a
        // line.  Keep one blank between the newline and such a token.
        if p.kind == PieceKind::Token && p.text.starts_with('/') && out.ends_with('\n') {
            out.push(' ');
        }
        out.push_str(&p.text);
        prev = Some(p);
    }
    nl(d, &mut out);
    out
}

/// The comment texts (trim_end) of a piece list, in order.
pub fn comment_texts(pieces: &[Piece]) -> Vec<String> {
    pieces
        .iter()
        .filter(|p| matches!(p.kind, PieceKind::LineComment | PieceKind::BlockComment))
        .map(|p| p.text.trim_end().to_string())
        .collect()
}
