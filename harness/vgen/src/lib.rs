//! Generators shared by the checks.
//!  * `relayout` — E1(b): re-lay a parseable Veryl text with generated
//!    separators and injected comments (parseable by construction).
pub mod relayout;
