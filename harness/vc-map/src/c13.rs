//! C13 — source maps point at matching text on both sides.
//!
//! Inputs: corpus files that build (alone, or as one member of the whole
//! `testcases/veryl` project / the std library), pristine and re-laid with
//! generated separators and injected comments (multi-byte, multi-line, CRLF),
//! × generated `[format]` / `[build]` options that change layout.
//! The real emitter runs with source-map generation exactly as
//! `cmd_build.rs` does; the `.sv.map` bytes are decoded twice (the
//! `sourcemap` crate, and an own VLQ decoder that keeps the file order).
//!
//! Oracle (the property text, nothing more):
//!  1. every entry: the emitted SV, at (dst_line, dst_col), starts with the
//!     entry's name;
//!  2. every entry: (src_line, src_col) is the start of a token or of a
//!     comment of the Veryl source — start positions are recomputed from the
//!     raw text (byte offsets → line / character column), not taken from the
//!     lexer's line/column fields;
//!  3. entries are in non-decreasing (dst_line, dst_col) order in the file;
//!  4. every output line containing a mapped identifier has ≥ 1 entry, where
//!     "mapped identifier" = an identifier word of the output, outside comments
//!     and string literals, whose text is an `Identifier` token of the source
//!     file *and* the name of at least one entry of this map (an identifier the
//!     map maps).  Words the emitter writes itself are outside the clause and
//!     counted: keywords, mangled names, compiler-directive lines (the
//!     `` `ifdef NAME `` guards of expanded default modports) and lines that
//!     hold nothing but a data type (`logic [W-1:0]`, the inferred type of a
//!     `let`/`var` without annotation).
//!
//! Entries with an empty name (the zero-width start-of-file token, a trailing
//! separator the emitter drops) have no text: clause 1 is vacuous for them
//! (counted); their source position must still be a token start (the start of
//! the file for the start token).
//!
//! Conventions derived from the code: the map is 0-based in lines and
//! columns; lines are separated by `\n` (a `\r` before it belongs to the
//! line); columns count characters (Unicode scalar values) on both sides —
//! parol's token columns and the renderer's `col` both do.

use crate::pipe::{self, BuildResult, FmtOpts, SrcFile};
use std::collections::BTreeSet;
use std::path::{Path, PathBuf};
use vcore::{CaseCfg, Ctx, Draw, Outcome, hash_str, json};
use vgen::relayout::{self, LayoutOpts};
use veryl_parser::Parser;
use veryl_parser::token_collector::TokenCollector;
use veryl_parser::veryl_token::TokenSource;
use veryl_parser::veryl_walker::VerylWalker;

// ---------------------------------------------------------------------------
// independent position tables
// ---------------------------------------------------------------------------

/// byte offset → (0-based line, 0-based character column); lines end at `\n`.
pub struct LineTable<'a> {
    text: &'a str,
    starts: Vec<usize>,
}

impl<'a> LineTable<'a> {
    pub fn new(text: &'a str) -> Self {
        let mut starts = vec![0usize];
        for (i, b) in text.bytes().enumerate() {
            if b == b'\n' {
                starts.push(i + 1);
            }
        }
        LineTable { text, starts }
    }
    pub fn locate(&self, pos: usize) -> (u32, u32) {
        let li = match self.starts.binary_search(&pos) {
            Ok(i) => i,
            Err(i) => i - 1,
        };
        (li as u32, self.text[self.starts[li]..pos].chars().count() as u32)
    }
    pub fn lines(&self) -> usize {
        self.starts.len()
    }
    /// the text of line `li` without its `\n`
    pub fn line(&self, li: usize) -> Option<&'a str> {
        let s = *self.starts.get(li)?;
        let e = self.starts.get(li + 1).map(|e| e - 1).unwrap_or(self.text.len());
        Some(&self.text[s..e])
    }
    /// byte offset of character column `col` of line `li`; `None` beyond the end of the line
    pub fn offset(&self, li: usize, col: usize) -> Option<usize> {
        let s = *self.starts.get(li)?;
        let l = self.line(li)?;
        if col == 0 {
            return Some(s);
        }
        let mut n = 0;
        for (i, _) in l.char_indices() {
            if n == col {
                return Some(s + i);
            }
            n += 1;
        }
        if n == col { Some(s + l.len()) } else { None }
    }
}

pub struct SrcStarts {
    pub token_starts: BTreeSet<(u32, u32)>,
    pub comment_starts: BTreeSet<(u32, u32)>,
    /// positions of zero-length tokens (the grammar's start-of-file token)
    pub empty_token_starts: BTreeSet<(u32, u32)>,
    /// texts of the identifier-shaped tokens of the source
    pub ident_words: BTreeSet<String>,
    pub tokens: usize,
    pub comments: usize,
}

fn is_ident_word(s: &str) -> bool {
    let b = s.as_bytes();
    !b.is_empty()
        && (b[0].is_ascii_alphabetic() || b[0] == b'_')
        && b.iter().all(|c| c.is_ascii_alphanumeric() || *c == b'_')
}

/// Texts of the `Identifier` tokens of a syntax tree (keywords excluded).
#[derive(Default)]
struct IdentCollector {
    words: BTreeSet<String>,
}

impl VerylWalker for IdentCollector {
    fn identifier(&mut self, arg: &veryl_parser::veryl_grammar_trait::Identifier) {
        let t = arg.identifier_token.token.to_string();
        // raw identifiers `r#x` are emitted without the prefix
        let t = t.strip_prefix("r#").unwrap_or(&t).to_string();
        if is_ident_word(&t) {
            self.words.insert(t);
        }
    }
}

/// Comment starts in a gap between two tokens (own lexer: `//…` to end of
/// line, `/* … */`).
fn gap_comments(src: &str, from: usize, to: usize, out: &mut Vec<usize>) {
    let b = src.as_bytes();
    let mut i = from;
    while i < to {
        if b[i] == b'/' && i + 1 < to && b[i + 1] == b'/' {
            out.push(i);
            while i < to && b[i] != b'\n' {
                i += 1;
            }
        } else if b[i] == b'/' && i + 1 < to && b[i + 1] == b'*' {
            out.push(i);
            i += 2;
            while i + 1 < to && !(b[i] == b'*' && b[i + 1] == b'/') {
                i += 1;
            }
            i = (i + 2).min(to);
        } else {
            i += 1;
        }
    }
}

/// Start positions of all tokens and comments of `src`.  Token byte ranges
/// come from the parser (and are verified against the text), everything else
/// is recomputed here.  `Err` = the text is outside the domain (does not
/// parse, or the lexer's byte offsets are inconsistent = C12's business).
pub fn src_starts(src: &str) -> Result<SrcStarts, String> {
    let parser = Parser::parse(src, &Path::new("c13-oracle.veryl")).map_err(|_| "source does not parse".to_string())?;
    let mut col = TokenCollector::new(false);
    col.veryl(&parser.veryl);
    let mut toks: Vec<(usize, usize, String)> = col
        .tokens
        .iter()
        .filter(|t| matches!(t.source, TokenSource::File { .. }))
        .map(|t| (t.pos as usize, t.length as usize, t.to_string()))
        .collect();
    toks.sort();
    toks.dedup();
    let mut ic = IdentCollector::default();
    ic.veryl(&parser.veryl);
    let lt = LineTable::new(src);
    let mut r = SrcStarts {
        token_starts: BTreeSet::new(),
        comment_starts: BTreeSet::new(),
        // the grammar's zero-width start-of-file token (synthesised at 1:1)
        empty_token_starts: BTreeSet::from([(0, 0)]),
        ident_words: ic.words,
        tokens: 0,
        comments: 0,
    };
    let mut prev_end = 0usize;
    let mut in_embed = false;
    let mut cs = Vec::new();
    for (pos, len, text) in &toks {
        let (pos, len) = (*pos, *len);
        if pos < prev_end {
            return Err("lexer byte offsets overlap (C12)".into());
        }
        // the parser works on a newline-terminated copy
        let end = (pos + len).min(src.len());
        if src.get(pos..end).map(|s| text.starts_with(s) && text.len() - s.len() <= 1) != Some(true) {
            return Err("lexer byte offsets do not match the text (C12)".into());
        }
        if len == 0 {
            // zero-length grammar tokens (the start-of-file token)
            if pos <= src.len() {
                r.empty_token_starts.insert(lt.locate(pos));
            }
            continue;
        }
        if !in_embed {
            gap_comments(src, prev_end, pos, &mut cs);
        }
        r.token_starts.insert(lt.locate(pos));
        r.tokens += 1;
        if text == "{{{" {
            in_embed = true;
        } else if text == "}}}" {
            in_embed = false;
        }
        prev_end = end;
    }
    gap_comments(src, prev_end.min(src.len()), src.len(), &mut cs);
    for c in cs {
        r.comment_starts.insert(lt.locate(c));
        r.comments += 1;
    }
    Ok(r)
}

// ---------------------------------------------------------------------------
// decoding
// ---------------------------------------------------------------------------

#[derive(Clone, Debug, PartialEq, Eq, PartialOrd, Ord)]
pub struct Entry {
    pub dl: u32,
    pub dc: u32,
    pub sl: u32,
    pub sc: u32,
    pub name: Option<String>,
}

fn b64(c: u8) -> Option<i64> {
    Some(match c {
        b'A'..=b'Z' => c - b'A',
        b'a'..=b'z' => c - b'a' + 26,
        b'0'..=b'9' => c - b'0' + 52,
        b'+' => 62,
        b'/' => 63,
        _ => return None,
    } as i64)
}

/// Source Map v3 "mappings" decoder that keeps the order of the file.
pub fn decode_raw(map: &[u8]) -> Result<Vec<Entry>, String> {
    let v: serde_json::Value = serde_json::from_slice(map).map_err(|e| format!("map is not JSON: {e}"))?;
    let mappings = v.get("mappings").and_then(|m| m.as_str()).ok_or("no mappings")?;
    let names: Vec<String> = v
        .get("names")
        .and_then(|n| n.as_array())
        .map(|a| a.iter().map(|x| x.as_str().unwrap_or("").to_string()).collect())
        .unwrap_or_default();
    let mut out = Vec::new();
    let (mut sl, mut sc, mut ni) = (0i64, 0i64, 0i64);
    for (dl, line) in mappings.split(';').enumerate() {
        let mut dc = 0i64;
        for seg in line.split(',') {
            if seg.is_empty() {
                continue;
            }
            let mut vals = Vec::new();
            let (mut cur, mut shift) = (0i64, 0u32);
            for c in seg.bytes() {
                let d = b64(c).ok_or("bad base64 digit")?;
                cur |= (d & 31) << shift;
                if d & 32 != 0 {
                    shift += 5;
                } else {
                    let neg = cur & 1 != 0;
                    let x = cur >> 1;
                    vals.push(if neg { -x } else { x });
                    cur = 0;
                    shift = 0;
                }
            }
            if vals.is_empty() {
                return Err("empty segment".into());
            }
            dc += vals[0];
            let mut name = None;
            if vals.len() >= 4 {
                sl += vals[2];
                sc += vals[3];
                if vals.len() >= 5 {
                    ni += vals[4];
                    name = Some(names.get(ni as usize).cloned().ok_or("name index out of range")?);
                }
            } else {
                return Err("segment without a source position".into());
            }
            if dc < 0 || sl < 0 || sc < 0 {
                return Err(format!("negative position in the map (dst col {dc}, src {sl}:{sc})"));
            }
            out.push(Entry {
                dl: dl as u32,
                dc: dc as u32,
                sl: sl as u32,
                sc: sc as u32,
                name,
            });
        }
    }
    Ok(out)
}

pub fn decode_crate(map: &[u8]) -> Result<Vec<Entry>, String> {
    let sm = sourcemap::SourceMap::from_slice(map).map_err(|e| format!("sourcemap crate rejects the map: {e}"))?;
    Ok(sm
        .tokens()
        .map(|t| Entry {
            dl: t.get_dst_line(),
            dc: t.get_dst_col(),
            sl: t.get_src_line(),
            sc: t.get_src_col(),
            name: t.get_name().map(|s| s.to_string()),
        })
        .collect())
}

// ---------------------------------------------------------------------------
// the oracle
// ---------------------------------------------------------------------------

#[derive(Default, Debug)]
pub struct MapReport {
    pub entries: usize,
    pub comment_entries: usize,
    pub multiline_names: usize,
    pub ident_lines: usize,
    pub lines_outside_clause4: usize,
    pub multibyte_before_dst: usize,
    pub multibyte_before_src: usize,
    pub empty_names: usize,
    pub mapped_idents: usize,
    pub directive_lines_without_entry: usize,
    pub type_only_lines_without_entry: usize,
    pub empty_names_beyond_line_end: usize,
}

/// Identifier words of one SV line outside comments and strings.
/// `in_block` = the line starts inside a block comment.
fn sv_line_words(line: &str, in_block: &mut bool, out: &mut Vec<String>) {
    let b = line.as_bytes();
    let mut i = 0;
    while i < b.len() {
        if *in_block {
            if b[i] == b'*' && i + 1 < b.len() && b[i + 1] == b'/' {
                *in_block = false;
                i += 2;
            } else {
                i += 1;
            }
            continue;
        }
        let c = b[i];
        if c == b'/' && i + 1 < b.len() && b[i + 1] == b'/' {
            return;
        } else if c == b'/' && i + 1 < b.len() && b[i + 1] == b'*' {
            *in_block = true;
            i += 2;
        } else if c == b'"' {
            i += 1;
            while i < b.len() && b[i] != b'"' {
                if b[i] == b'\\' {
                    i += 1;
                }
                i += 1;
            }
            i += 1;
        } else if c.is_ascii_alphabetic() || c == b'_' {
            let s = i;
            while i < b.len() && (b[i].is_ascii_alphanumeric() || b[i] == b'_' || b[i] == b'$') {
                i += 1;
            }
            // not part of a number (`8'hff`, `1_000`), of a `$system` name or of a `` `macro ``
            let prev = if s > 0 { b[s - 1] } else { b' ' };
            if !(prev.is_ascii_digit() || prev == b'\'' || prev == b'$' || prev == b'`') {
                out.push(line[s..i].to_string());
            }
        } else if c.is_ascii_digit() || c == b'\'' {
            // numbers incl. based literals
            i += 1;
            while i < b.len() && (b[i].is_ascii_alphanumeric() || b[i] == b'_' || b[i] == b'\'') {
                i += 1;
            }
        } else {
            i += 1;
        }
    }
}

pub type Fail = (String, String);

/// A line that holds nothing but an SV data type: `logic [W-1:0]`, `bit signed [3:0][1:0]`.
fn is_type_only_line(l: &str) -> bool {
    let mut rest = l.trim();
    let Some(r) = rest.strip_prefix("logic").or_else(|| rest.strip_prefix("bit")) else {
        return false;
    };
    rest = r.trim_start();
    for m in ["signed", "unsigned"] {
        if let Some(r) = rest.strip_prefix(m) {
            rest = r.trim_start();
        }
    }
    // only bracket groups may follow
    let mut depth = 0i32;
    for c in rest.chars() {
        match c {
            '[' => depth += 1,
            ']' => depth -= 1,
            c if c.is_whitespace() => {}
            _ if depth > 0 => {}
            _ => return false,
        }
        if depth < 0 {
            return false;
        }
    }
    depth == 0
}

fn kind_of(name: &str) -> &'static str {
    if name.starts_with("//") || name.starts_with("/*") {
        "comment"
    } else {
        "token"
    }
}

fn clip(s: &str, n: usize) -> String {
    let mut e = n.min(s.len());
    while !s.is_char_boundary(e) {
        e -= 1;
    }
    s[..e].to_string()
}

const KNOWN_ML: &str = "column-restarts-after-multiline-block-comment";

/// Root-cause class of a clause-1 failure, from the output text alone.
fn dst_context(sv: &LineTable, full: &str, e: &Entry, name: &str) -> &'static str {
    if let Some(l) = sv.line(e.dl as usize) {
        // A block comment opened on an earlier line ends on this line, and the
        // name is found exactly "length of that comment tail" characters to
        // the right of the recorded column: the renderer restarted its column
        // count at 0 at the end of a multi-line block comment.
        if let Some(p) = l.find("*/")
            && !l[..p].contains("/*")
        {
            let tail = l[..p + 2].chars().count();
            if let Some(off) = sv.offset(e.dl as usize, e.dc as usize + tail)
                && full[off..].starts_with(name)
            {
                return KNOWN_ML;
            }
            return "line-has-multiline-block-comment-end";
        }
        if !l.is_ascii() {
            return "multibyte-on-line";
        }
    }
    "other"
}

pub fn check_map(src: &str, sv: &str, map: &[u8]) -> Result<MapReport, Fail> {
    let starts = match src_starts(src) {
        Ok(s) => s,
        Err(e) => return Err(("skip".into(), e)),
    };
    let raw = decode_raw(map).map_err(|e| ("map-undecodable".to_string(), e))?;
    let viacrate = decode_crate(map).map_err(|e| ("map-undecodable".to_string(), e))?;
    {
        // the two decoders must agree on the set of entries
        let mut a = raw.clone();
        let mut b = viacrate.clone();
        a.sort();
        b.sort();
        if a != b {
            return Err((
                "harness:decoders-disagree".into(),
                format!("own VLQ decoder: {} entries, sourcemap crate: {} entries", a.len(), b.len()),
            ));
        }
    }
    let svt = LineTable::new(sv);
    let srct = LineTable::new(src);
    let mut rep = MapReport {
        entries: raw.len(),
        ..Default::default()
    };
    let mut lines_with_entry: BTreeSet<u32> = BTreeSet::new();
    let mut prev: Option<(u32, u32)> = None;
    let mut known: Option<Fail> = None;
    for (i, e) in raw.iter().enumerate() {
        let Some(name) = e.name.as_deref() else {
            return Err(("entry-without-name".into(), format!("entry #{i} at output {}:{} has no name", e.dl, e.dc)));
        };
        let kind = kind_of(name);
        if kind == "comment" {
            rep.comment_entries += 1;
        }
        if name.contains('\n') {
            rep.multiline_names += 1;
        }
        // clause 1.  An entry with an empty name (the start-of-file token, a
        // separator the emitter drops) has no text that could start anywhere:
        // vacuous, counted.
        let ok = svt
            .offset(e.dl as usize, e.dc as usize)
            .map(|off| sv[off..].starts_with(name))
            .unwrap_or(false);
        if name.is_empty() {
            rep.empty_names += 1;
            if !ok {
                rep.empty_names_beyond_line_end += 1;
            }
        } else if !ok && known.is_none() && dst_context(&svt, sv, e, name) == KNOWN_ML {
            // listed finding: remember it, keep checking the other entries so
            // that it cannot mask a different violation
            known = Some((
                format!("dst-not-at-name:{KNOWN_ML}"),
                format!(
                    "entry #{i} name {:?} -> output line {} col {} (0-based), but the name starts {} characters further right, after the end of a block comment that began on an earlier line; output line: {:?}",
                    clip(name, 40),
                    e.dl,
                    e.dc,
                    svt.line(e.dl as usize)
                        .and_then(|l| l.find("*/").map(|p| l[..p + 2].chars().count()))
                        .unwrap_or(0),
                    svt.line(e.dl as usize).map(|l| clip(l, 160))
                ),
            ));
        } else if !ok && known.is_some() && dst_context(&svt, sv, e, name) == KNOWN_ML {
            // further entries displaced by the same root cause
        } else if !ok {
            let there = svt
                .offset(e.dl as usize, e.dc as usize)
                .map(|off| clip(&sv[off..], 40))
                .unwrap_or_else(|| "<beyond the end of the line>".into());
            return Err((
                format!("dst-not-at-name:{}", dst_context(&svt, sv, e, name)),
                format!(
                    "entry #{i} name {:?} -> output line {} col {} (0-based), but the output has {:?} there; output line: {:?}",
                    clip(name, 40),
                    e.dl,
                    e.dc,
                    there,
                    svt.line(e.dl as usize).map(|l| clip(l, 160))
                ),
            ));
        }
        if let Some(l) = svt.line(e.dl as usize)
            && let Some(off) = svt.offset(e.dl as usize, e.dc as usize)
        {
            let _ = l;
            let line_start = sv[..off].rfind('\n').map(|p| p + 1).unwrap_or(0);
            if !sv[line_start..off].is_ascii() {
                rep.multibyte_before_dst += 1;
            }
        }
        // clause 2
        let p = (e.sl, e.sc);
        let hit = starts.comment_starts.contains(&p)
            || starts.token_starts.contains(&p)
            || (name.is_empty() && starts.empty_token_starts.contains(&p));
        if !hit {
            let there = srct
                .offset(e.sl as usize, e.sc as usize)
                .map(|off| clip(&src[off..], 30))
                .unwrap_or_else(|| "<beyond the end of the line>".into());
            let ctx = match srct.line(e.sl as usize) {
                Some(l) if !l.is_ascii() => "multibyte-on-line",
                Some(_) => "ascii-line",
                None => "no-such-line",
            };
            let sig = format!("src-not-a-start:{kind}:{ctx}");
            return Err((
                sig,
                format!(
                    "entry #{i} name {:?} (output {}:{}) -> source line {} col {} (0-based), which is not the start of a token or comment; the source has {:?} there; source line: {:?}",
                    clip(name, 40),
                    e.dl,
                    e.dc,
                    e.sl,
                    e.sc,
                    there,
                    srct.line(e.sl as usize).map(|l| clip(l, 160))
                ),
            ));
        }
        if let Some(l) = srct.line(e.sl as usize)
            && let Some(off) = srct.offset(e.sl as usize, e.sc as usize)
        {
            let line_start = src[..off].rfind('\n').map(|p| p + 1).unwrap_or(0);
            let _ = l;
            if !src[line_start..off].is_ascii() {
                rep.multibyte_before_src += 1;
            }
        }
        // clause 3
        if let Some(pv) = prev
            && (e.dl, e.dc) < pv
        {
            return Err((
                "entries-out-of-order".into(),
                format!("entry #{i} at output {}:{} follows an entry at {}:{}", e.dl, e.dc, pv.0, pv.1),
            ));
        }
        prev = Some((e.dl, e.dc));
        // a multi-line name (block comment, embedded code) covers its continuation lines too
        for k in 0..=name.matches('\n').count() as u32 {
            lines_with_entry.insert(e.dl + k);
        }
    }
    // clause 4: mapped identifiers = identifier tokens of the source that the
    // map maps somewhere (they are the name of an entry)
    let mapped_idents: BTreeSet<&str> = raw
        .iter()
        .filter_map(|e| e.name.as_deref())
        .filter(|n| starts.ident_words.contains(*n))
        .collect();
    rep.mapped_idents = mapped_idents.len();
    let mut in_block = false;
    let mut words = Vec::new();
    let nlines = svt.lines();
    for li in 0..nlines {
        let Some(l) = svt.line(li) else { break };
        words.clear();
        let started_in_block = in_block;
        sv_line_words(l, &mut in_block, &mut words);
        let _ = started_in_block;
        let Some(w) = words.iter().find(|w| mapped_idents.contains(w.as_str())) else {
            if !words.is_empty() {
                rep.lines_outside_clause4 += 1;
            }
            continue;
        };
        if l.trim_start().starts_with('`') {
            // compiler directive (`ifdef NAME …): NAME is a text-macro name, not
            // an identifier of the design; the emitter writes the guards of
            // expanded default modports itself
            if !lines_with_entry.contains(&(li as u32)) {
                rep.directive_lines_without_entry += 1;
            }
            continue;
        }
        if is_type_only_line(l) {
            // `logic [W-1:0]` alone on a line: the inferred type of a `let` /
            // `var` without annotation, written by the emitter itself
            if !lines_with_entry.contains(&(li as u32)) {
                rep.type_only_lines_without_entry += 1;
            }
            continue;
        }
        rep.ident_lines += 1;
        if !lines_with_entry.contains(&(li as u32)) && std::env::var("VERIF_C13_LIST4").is_ok() {
            eprintln!("CLAUSE4 {w:?} | {}", clip(l, 120));
            continue;
        }
        if !lines_with_entry.contains(&(li as u32)) {
            return Err((
                "line-with-mapped-identifier-has-no-entry".into(),
                format!(
                    "output line {li} (0-based) contains the identifier {w:?} (a source identifier that the map maps elsewhere) but no map entry points into this line: {:?}",
                    clip(l, 160)
                ),
            ));
        }
    }
    if let Some(k) = known {
        return Err(k);
    }
    Ok(rep)
}

// ---------------------------------------------------------------------------
// cases
// ---------------------------------------------------------------------------

#[derive(Clone, Debug)]
pub struct MapOpts {
    pub fmt: FmtOpts,
    pub strip_comments: bool,
    /// 0 = sourcemap_target "target" (map next to the .sv), 1 = "directory"
    pub map_target: u8,
}

impl MapOpts {
    pub fn draw(d: &mut Draw) -> MapOpts {
        MapOpts {
            fmt: FmtOpts::draw(d),
            strip_comments: d.chance(1, 4),
            map_target: d.weighted(&[3, 1]) as u8,
        }
    }
    pub fn describe(&self) -> String {
        format!(
            "{} strip_comments={} sourcemap_target={}",
            self.fmt.describe(),
            self.strip_comments,
            ["target", "directory"][self.map_target as usize]
        )
    }
    pub fn metadata(&self) -> veryl_metadata::Metadata {
        let mut md = pipe::metadata(&self.fmt);
        md.build.strip_comments = self.strip_comments;
        md.build.sourcemap_target = match self.map_target {
            0 => veryl_metadata::SourceMapTarget::Target,
            _ => veryl_metadata::SourceMapTarget::Directory { path: "map".into() },
        };
        md
    }
    pub fn paths(&self, src: &str) -> (PathBuf, PathBuf) {
        let stem = Path::new(src).file_stem().map(|s| s.to_string_lossy().into_owned()).unwrap_or("a".into());
        let dst = PathBuf::from(format!("/prj/target/{stem}.sv"));
        let map = match self.map_target {
            0 => PathBuf::from(format!("/prj/target/{stem}.sv.map")),
            _ => PathBuf::from(format!("/prj/map/src/{stem}.sv.map")),
        };
        (dst, map)
    }
}

/// How a corpus file builds.
#[derive(Clone, Debug, PartialEq, Eq)]
pub enum Mode {
    Alone,
    /// together with every other file of its group (index into `Corpus::groups`)
    Group(usize),
}

pub struct CorpusFile {
    pub path: String,
    pub text: String,
    pub prj: String,
    pub group: usize,
}

pub struct Corpus {
    pub files: Vec<CorpusFile>,
    /// indices of the files of each group (0 = testcases, 1 = std)
    pub groups: Vec<Vec<usize>>,
    /// (file index, mode) of every file that builds
    pub buildable: Vec<(usize, Mode)>,
}

fn try_build(c: &Corpus, idx: usize, mode: &Mode, text: Option<&str>, o: &MapOpts) -> BuildResult {
    let md = o.metadata();
    let f = &c.files[idx];
    let (dst, map) = o.paths(&f.path);
    let mk = |i: usize| SrcFile {
        path: c.files[i].path.clone(),
        text: if i == idx { text.unwrap_or(&c.files[i].text).to_string() } else { c.files[i].text.clone() },
        prj: c.files[i].prj.clone(),
    };
    match mode {
        Mode::Alone => pipe::build_one(&[mk(idx)], 0, &md, &dst, &map),
        Mode::Group(g) => {
            let members = &c.groups[*g];
            let files: Vec<SrcFile> = members.iter().map(|i| mk(*i)).collect();
            let at = members.iter().position(|i| *i == idx).unwrap();
            pipe::build_one(&files, at, &md, &dst, &map)
        }
    }
}

fn load() -> Corpus {
    let raw = pipe::load_corpus();
    let mut files = Vec::new();
    let mut groups = vec![Vec::new(), Vec::new()];
    for (path, text) in raw {
        let std = path.contains("/crates/std/");
        let g = if std { 1 } else { 0 };
        groups[g].push(files.len());
        files.push(CorpusFile {
            path,
            text,
            prj: if std { "$std".into() } else { "prj".into() },
            group: g,
        });
    }
    let mut c = Corpus {
        files,
        groups,
        buildable: Vec::new(),
    };
    // which files build alone?  (every probe on its own thread, 16 at a time)
    let o = MapOpts {
        fmt: FmtOpts::default(),
        strip_comments: false,
        map_target: 0,
    };
    let n = c.files.len();
    let alone: Vec<bool> = {
        let cref = &c;
        let oref = &o;
        let mut res = vec![false; n];
        for chunk in (0..n).collect::<Vec<_>>().chunks(16) {
            let r: Vec<(usize, bool)> = std::thread::scope(|s| {
                let hs: Vec<_> = chunk
                    .iter()
                    .map(|&i| {
                        let h = std::thread::Builder::new()
                            .stack_size(16 << 20)
                            .spawn_scoped(s, move || {
                                matches!(try_build(cref, i, &Mode::Alone, None, oref), BuildResult::Emitted(..))
                            })
                            .expect("spawn");
                        (i, h)
                    })
                    .collect();
                hs.into_iter().map(|(i, h)| (i, h.join().unwrap_or(false))).collect()
            });
            for (i, ok) in r {
                res[i] = ok;
            }
        }
        res
    };
    // do the groups build as a whole?
    let mut group_ok = vec![false; c.groups.len()];
    for g in 0..c.groups.len() {
        if c.groups[g].is_empty() {
            continue;
        }
        let first = c.groups[g][0];
        let cref = &c;
        let oref = &o;
        group_ok[g] = std::thread::scope(|s| {
            std::thread::Builder::new()
                .stack_size(16 << 20)
                .spawn_scoped(s, move || matches!(try_build(cref, first, &Mode::Group(g), None, oref), BuildResult::Emitted(..)))
                .expect("spawn")
                .join()
                .unwrap_or(false)
        });
    }
    for i in 0..n {
        if alone[i] {
            c.buildable.push((i, Mode::Alone));
        } else if group_ok[c.files[i].group] {
            c.buildable.push((i, Mode::Group(c.files[i].group)));
        }
    }
    c
}

fn run_case(c: &Corpus, idx: usize, mode: &Mode, text: Option<String>, o: &MapOpts, mut classes: Vec<String>) -> Outcome {
    let f = &c.files[idx];
    let src = text.as_deref().unwrap_or(&f.text).to_string();
    let input = |sv: Option<&str>| json!({"file": f.path, "options": o.describe(), "mode": format!("{mode:?}"), "veryl": src, "sv": sv});
    // A crash of the analyzer / emitter is C11's business; here it only means
    // "not a design that builds".
    let built = std::panic::catch_unwind(std::panic::AssertUnwindSafe(|| try_build(c, idx, mode, text.as_deref(), o)));
    let built = match built {
        Ok(b) => b,
        Err(e) => {
            let msg = e.downcast_ref::<&str>().map(|s| s.to_string()).or_else(|| e.downcast_ref::<String>().cloned()).unwrap_or_default();
            return Outcome::skip(format!("the build panics (left to C11): {}", clip(&msg, 60)));
        }
    };
    let (sv, map) = match built {
        BuildResult::Emitted(sv, map) => (sv, map),
        BuildResult::ParseError(e) => return Outcome::skip(format!("does not parse: {}", clip(&e, 60))),
        BuildResult::AnalysisError(_) => return Outcome::skip("does not analyse cleanly (not a design that builds)"),
    };
    match check_map(&src, &sv, &map) {
        Err((sig, msg)) if sig == "skip" => Outcome::skip(msg),
        Err((sig, msg)) => Outcome::fail(sig, format!("[{}] {}: {msg}", o.describe(), f.path), input(Some(&sv))),
        Ok(r) => {
            if r.empty_names > 0 {
                classes.push("empty_name_entry(clause1 vacuous)".into());
            }
            if r.empty_names_beyond_line_end > 0 {
                classes.push("empty_name_entry_beyond_line_end".into());
            }
            if r.type_only_lines_without_entry > 0 {
                classes.push("inferred_type_line_without_entry(outside clause4)".into());
            }
            if r.directive_lines_without_entry > 0 {
                classes.push("directive_line_without_entry(outside clause4)".into());
            }
            if r.comment_entries > 0 {
                classes.push("comment_entries".into());
            }
            if r.multiline_names > 0 {
                classes.push("multiline_comment_entry".into());
            }
            if r.multibyte_before_dst > 0 {
                classes.push("entry_after_multibyte_text_on_output_line".into());
            }
            if r.multibyte_before_src > 0 {
                classes.push("entry_after_multibyte_text_on_source_line".into());
            }
            if sv.contains("\r\n") {
                classes.push("crlf_output".into());
            }
            if o.strip_comments {
                classes.push("strip_comments".into());
            }
            if !o.fmt.vertical_align {
                classes.push("no_vertical_align".into());
            }
            if o.fmt.max_width <= 40 {
                classes.push("narrow_max_width".into());
            }
            if matches!(mode, Mode::Group(_)) {
                classes.push("built_within_project".into());
            }
            if o.map_target == 1 {
                classes.push("map_in_directory".into());
            }
            Outcome::pass(
                hash_str(&format!("{}|{}|{}", o.describe(), f.path, src)),
                r.entries >= 20 && r.comment_entries >= 1,
                classes,
                format!(
                    "// {} [{}] entries={} comment_entries={} ident_lines={}\n{}",
                    f.path,
                    o.describe(),
                    r.entries,
                    r.comment_entries,
                    r.ident_lines,
                    clip(&src, 1500)
                ),
            )
        }
    }
}

pub fn run(ctx: &Ctx) {
    let corpus = load();
    let alone = corpus.buildable.iter().filter(|(_, m)| *m == Mode::Alone).count();
    ctx.note("corpus_files", json!(corpus.files.len()));
    ctx.note("buildable_alone", json!(alone));
    ctx.note("buildable_within_project_only", json!(corpus.buildable.len() - alone));
    assert!(corpus.buildable.len() > 50, "too few corpus files build");
    let alone_set: Vec<(usize, Mode)> = corpus.buildable.iter().filter(|(_, m)| *m == Mode::Alone).cloned().collect();
    let group_set: Vec<(usize, Mode)> = corpus.buildable.iter().filter(|(_, m)| *m != Mode::Alone).cloned().collect();

    // sub 1: every buildable corpus file, pristine, default options and strip_comments
    if !ctx.replay_mode() {
        let mut jobs: Vec<(usize, Mode, bool)> = Vec::new();
        for (idx, mode) in &corpus.buildable {
            for strip in [false, true] {
                jobs.push((*idx, mode.clone(), strip));
            }
        }
        let cref = &corpus;
        for chunk in jobs.chunks(16) {
            let outs: Vec<Outcome> = std::thread::scope(|s| {
                let hs: Vec<_> = chunk
                    .iter()
                    .map(|(idx, mode, strip)| {
                        std::thread::Builder::new()
                            .stack_size(16 << 20)
                            .spawn_scoped(s, move || {
                                let o = MapOpts {
                                    fmt: FmtOpts::default(),
                                    strip_comments: *strip,
                                    map_target: 0,
                                };
                                run_case(cref, *idx, mode, None, &o, vec!["corpus_pristine".into()])
                            })
                            .expect("spawn")
                    })
                    .collect();
                hs.into_iter()
                    .map(|h| h.join().unwrap_or_else(|_| Outcome::fail("panic:pristine", "panic while building a pristine corpus file", json!(null))))
                    .collect()
            });
            for ((idx, _, strip), out) in chunk.iter().zip(outs) {
                ctx.record("pristine", out, json!({"file": corpus.files[*idx].path, "strip_comments": strip}));
            }
        }
    }

    // replay of a recorded pristine case
    if ctx.replay_mode() {
        ctx.run_payloads("pristine", |p| {
            let file = p.get("file").and_then(|t| t.as_str()).unwrap_or("");
            let strip = p.get("strip_comments").and_then(|t| t.as_bool()).unwrap_or(false);
            let Some((idx, mode)) = corpus.buildable.iter().find(|(i, _)| corpus.files[*i].path == file) else {
                return Outcome::skip("file of the recorded case is not in the corpus (any more)");
            };
            let o = MapOpts {
                fmt: FmtOpts::default(),
                strip_comments: strip,
                map_target: 0,
            };
            pipe::on_fresh_thread(|| run_case(&corpus, *idx, mode, None, &o, vec!["corpus_pristine".into()]))
        });
    }

    // sub: explicit texts built alone (reproducers of listed findings)
    ctx.run_payloads("text", |p| {
        let text = p.get("veryl").and_then(|t| t.as_str()).unwrap_or("").to_string();
        let u = |k: &str, dflt: u64| p.get(k).and_then(|v| v.as_u64()).unwrap_or(dflt);
        let b = |k: &str, dflt: bool| p.get(k).and_then(|v| v.as_bool()).unwrap_or(dflt);
        let o = MapOpts {
            fmt: FmtOpts {
                indent_width: u("indent_width", 4) as usize,
                max_width: u("max_width", 120) as usize,
                vertical_align: b("vertical_align", true),
                newline_style: u("newline_style", 0) as u8,
            },
            strip_comments: b("strip_comments", false),
            map_target: u("map_target", 0) as u8,
        };
        let one = Corpus {
            files: vec![CorpusFile {
                path: "/prj/src/explicit.veryl".into(),
                text,
                prj: "prj".into(),
                group: 0,
            }],
            groups: vec![vec![0]],
            buildable: vec![(0, Mode::Alone)],
        };
        pipe::on_fresh_thread(|| run_case(&one, 0, &Mode::Alone, None, &o, vec!["explicit".into()]))
    });

    let gen_case = |d: &mut Draw, set: &[(usize, Mode)]| -> Outcome {
        let (idx, mode) = &set[d.below_usize(set.len())];
        let o = MapOpts::draw(d);
        let f = &corpus.files[*idx];
        let mut classes = vec![];
        let text = if d.chance(1, 8) {
            classes.push("pristine_text".to_string());
            None
        } else {
            let Some(pieces) = relayout::pieces(&f.text) else {
                return Outcome::skip("corpus file does not tokenise");
            };
            let mut lo = LayoutOpts::draw(d);
            if lo.inject_per_mille == 0 && d.chance(3, 4) {
                lo.inject_per_mille = 40;
            }
            if d.chance(1, 2) {
                lo.multibyte = true;
            }
            // Comments are injected here rather than by relayout(): block
            // comments that span lines reach the listed finding
            // (column restarts after a multi-line block comment) whenever the
            // emitter puts anything after them on the line, so only one case in
            // six keeps them multi-line; the others get them on one line.
            let inject = std::mem::replace(&mut lo.inject_per_mille, 0);
            let leading = std::mem::replace(&mut lo.leading_comment, false);
            let multiline_ok = d.chance(1, 6);
            let mut flattened = 0usize;
            let mut mk = |d: &mut Draw| {
                let mut c = relayout::gen_comment(d, lo.multibyte);
                if !multiline_ok && c.text.contains('\n') {
                    c.text = c.text.replace('\n', " ");
                    flattened += 1;
                }
                c
            };
            let mut seq = Vec::with_capacity(pieces.len() + 16);
            if leading {
                seq.push(mk(d));
            }
            for p in &pieces {
                let is_comment = matches!(p.kind, relayout::PieceKind::LineComment | relayout::PieceKind::BlockComment);
                if is_comment && !lo.keep_comments {
                    continue;
                }
                seq.push(p.clone());
                if p.kind == relayout::PieceKind::Token && p.text != "{{{" && inject > 0 && d.below(1000) < inject {
                    seq.push(mk(d));
                    if d.chance(1, 5) {
                        seq.push(mk(d));
                    }
                }
            }
            lo.keep_comments = true;
            if multiline_ok {
                classes.push("multiline_block_comments_injected".into());
            }
            let t = relayout::relayout(d, &seq, &lo);
            if !t.is_ascii() {
                classes.push("multibyte_source".into());
            }
            if t.contains("\r\n") {
                classes.push("crlf_source".into());
            }
            Some(t)
        };
        // relayout::pieces parsed on this thread; the build needs a fresh one
        pipe::on_fresh_thread(|| run_case(&corpus, *idx, mode, text, &o, classes))
    };

    let n = ctx.scale(800, 40_000);
    ctx.run("relayout", CaseCfg::cases(n).choices(8000).stack_mb(16), |d| gen_case(d, &alone_set));
    if !group_set.is_empty() {
        let n = ctx.scale(60, 3_000);
        ctx.run("relayout-in-project", CaseCfg::cases(n).choices(8000).stack_mb(16), |d| gen_case(d, &group_set));
    }

    ctx.assume("map conventions: 0-based lines and columns, lines separated by \\n, columns counted in characters (Unicode scalar values) on both sides");
    ctx.assume("token byte ranges are the parser's (verified against the text); line/column of every start and all comment starts are recomputed from the raw text");
    ctx.assume("'mapped identifier' (clause 4) = identifier word of the output, outside comments/strings, whose text is an Identifier token of the source file and the name of at least one entry of the map; an entry with a multi-line name (block comment, embedded code) covers all the lines of its name");
    ctx.finish(
        "exploration",
        "corpus files that build (alone or as a member of their project) pristine and re-laid with generated separators and injected line/block/multi-line/multi-byte comments x generated indent_width/max_width/vertical_align/newline_style/strip_comments/sourcemap_target; non-trivial = map with >=20 entries and >=1 comment entry; distinct by (options, file, text) hash",
    );
}

/// Developer aid: build one file alone with default options and print every
/// output line followed by the entries pointing into it.
pub fn dump(path: &str) {
    let text = std::fs::read_to_string(path).expect("read");
    let o = MapOpts {
        fmt: FmtOpts::default(),
        strip_comments: false,
        map_target: 0,
    };
    let md = o.metadata();
    let (dst, map) = o.paths(path);
    let files = [SrcFile {
        path: path.to_string(),
        text: text.clone(),
        prj: "prj".into(),
    }];
    let r = pipe::on_fresh_thread(|| pipe::build_one(&files, 0, &md, &dst, &map));
    let BuildResult::Emitted(sv, mapb) = r else {
        match r {
            BuildResult::ParseError(e) | BuildResult::AnalysisError(e) => println!("does not build: {e}"),
            _ => {}
        }
        return;
    };
    let entries = decode_raw(&mapb).expect("decode");
    for (li, l) in sv.split('\n').enumerate() {
        println!("{li:4} | {l}");
        for e in entries.iter().filter(|e| e.dl as usize == li) {
            println!("       @{} <- {}:{} {:?}", e.dc, e.sl, e.sc, e.name.as_deref().map(|n| clip(n, 30)));
        }
    }
    println!("{:?}", pipe::on_fresh_thread(|| check_map(&text, &sv, &mapb)));
}
