//! The veryl pipelines used by C13 / C23, run in-process exactly like the
//! CLI commands (`cmd_build.rs`, `cmd_migrate.rs`).  Every function here must
//! be called on a thread that has not run another analysis (parser/analyzer
//! tables are thread-local); `on_fresh_thread` provides one.
#![allow(dead_code)]

use std::path::{Path, PathBuf};
use vcore::Draw;
use veryl_analyzer::ir::Ir;
use veryl_analyzer::{Analyzer, Context};
use veryl_emitter::Emitter;
use veryl_metadata::{Metadata, NewlineStyle};
use veryl_parser::Parser;

#[derive(Clone, Debug)]
pub struct FmtOpts {
    pub indent_width: usize,
    pub max_width: usize,
    pub vertical_align: bool,
    /// 0 auto, 1 unix, 2 windows
    pub newline_style: u8,
}

impl Default for FmtOpts {
    fn default() -> Self {
        FmtOpts {
            indent_width: 4,
            max_width: 120,
            vertical_align: true,
            newline_style: 0,
        }
    }
}

impl FmtOpts {
    pub fn draw(d: &mut Draw) -> FmtOpts {
        FmtOpts {
            indent_width: *d.pick(&[4usize, 2, 1, 3, 8]),
            max_width: *d.pick(&[120usize, 80, 40, 20, 1, 400]),
            vertical_align: !d.chance(1, 3),
            newline_style: d.weighted(&[4, 1, 1]) as u8,
        }
    }
    pub fn describe(&self) -> String {
        format!(
            "indent_width={} max_width={} vertical_align={} newline_style={}",
            self.indent_width,
            self.max_width,
            self.vertical_align,
            ["auto", "unix", "windows"][self.newline_style as usize]
        )
    }
    pub fn apply(&self, md: &mut Metadata) {
        md.format.indent_width = self.indent_width;
        md.format.max_width = self.max_width;
        md.format.vertical_align = self.vertical_align;
        md.format.newline_style = match self.newline_style {
            0 => NewlineStyle::Auto,
            1 => NewlineStyle::Unix,
            _ => NewlineStyle::Windows,
        };
    }
}

pub fn metadata(fmt: &FmtOpts) -> Metadata {
    let mut md = Metadata::create_default("prj").expect("default metadata");
    fmt.apply(&mut md);
    md
}

/// Run `f` on a fresh 16 MiB thread; a panic is re-raised on the caller.
pub fn on_fresh_thread<T: Send, F: FnOnce() -> T + Send>(f: F) -> T {
    let r = std::thread::scope(|s| {
        std::thread::Builder::new()
            .stack_size(16 << 20)
            .spawn_scoped(s, f)
            .expect("spawn")
            .join()
    });
    match r {
        Ok(x) => x,
        Err(p) => std::panic::resume_unwind(p),
    }
}

pub struct SrcFile {
    /// path given to the parser / emitter
    pub path: String,
    pub text: String,
    /// project the file belongs to (`$std` for the standard library)
    pub prj: String,
}

pub enum BuildResult {
    ParseError(String),
    AnalysisError(String),
    /// (SystemVerilog text, source-map bytes) of `files[emit_idx]`
    Emitted(String, Vec<u8>),
}

/// parse → pass1 → post_pass1 → pass2 → post_pass2 over all `files`, then emit
/// `files[emit_idx]` with its source map the way `cmd_build.rs` does
/// (`Emitter::new(md, prj, src, dst, map)`, `emit`, `set_source_content`,
/// `to_bytes`).
pub fn build_one(files: &[SrcFile], emit_idx: usize, md: &Metadata, dst: &Path, map: &Path) -> BuildResult {
    let mut parsed = Vec::new();
    for f in files {
        match Parser::parse(&f.text, &Path::new(&f.path)) {
            Ok(p) => parsed.push(p),
            Err(e) => return BuildResult::ParseError(format!("{}: {e}", f.path)),
        }
    }
    let analyzer = Analyzer::new(md);
    let mut first_err: Option<String> = None;
    let note = |e: &veryl_analyzer::AnalyzerError, first_err: &mut Option<String>| {
        if e.is_error() && first_err.is_none() {
            *first_err = Some(e.to_string());
        }
    };
    for (f, p) in files.iter().zip(&parsed) {
        for e in analyzer.analyze_pass1(&f.prj, &p.veryl) {
            note(&e, &mut first_err);
        }
    }
    for e in Analyzer::analyze_post_pass1() {
        note(&e, &mut first_err);
    }
    if first_err.is_none() {
        let mut context = Context::default();
        let mut ir = Ir::default();
        for p in &parsed {
            for e in analyzer.analyze_pass2(&p.veryl, &mut context, Some(&mut ir)) {
                note(&e, &mut first_err);
            }
        }
        for e in Analyzer::analyze_post_pass2(&ir) {
            note(&e, &mut first_err);
        }
    }
    if let Some(e) = first_err {
        analyzer.clear();
        return BuildResult::AnalysisError(e);
    }
    let f = &files[emit_idx];
    let src = PathBuf::from(&f.path);
    let mut emitter = Emitter::new(md, &f.prj, &src, dst, map);
    emitter.emit(&parsed[emit_idx].veryl, &f.text);
    let sv = emitter.as_str().to_string();
    let sm = emitter.source_map();
    sm.set_source_content(&f.text);
    let bytes = sm.to_bytes().unwrap_or_default();
    analyzer.clear();
    BuildResult::Emitted(sv, bytes)
}

pub fn load_corpus() -> Vec<(String, String)> {
    let v: Vec<(String, String)> = vcore::util::corpus_files()
        .into_iter()
        .filter_map(|p| {
            let s = std::fs::read_to_string(&p).ok()?;
            Some((p.to_string_lossy().into_owned(), s))
        })
        .collect();
    assert!(v.len() > 50, "corpus not found under the repository");
    v
}
