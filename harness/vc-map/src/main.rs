mod c13;
mod c23;
mod pipe;

fn main() {
    let args: Vec<String> = std::env::args().skip(1).collect();
    let id = args.first().cloned().unwrap_or_default();
    if id == "probe23" {
        // developer aid: vc-map probe23 FILE.veryl → what `veryl migrate` does with it
        c23::probe(&args[1]);
        return;
    }
    if id == "dump13" {
        // developer aid: vc-map dump13 FILE.veryl  → SV lines with their map entries
        c13::dump(&args[1]);
        return;
    }
    vcore::quiet_panics();
    let ctx = vcore::Ctx::new(&id, &args[1.min(args.len())..]);
    match id.as_str() {
        "C13" => c13::run(&ctx),
        "C23" => c23::run(&ctx),
        _ => {
            eprintln!("unknown property id {id:?}");
            std::process::exit(2);
        }
    }
}
