//! C23 — `veryl migrate` yields valid current-syntax code with the same meaning.
//!
//! Inputs: programs of the *previous* grammar (`crates/migrator/veryl.par`).
//! The only construct of it that the current grammar rejects and a migration
//! can reach is the mandatory index type of a `for` statement
//! (`for i: u32 in …`; the other differences are either relaxations — types of
//! let/var/const became optional — or additions of the current grammar).
//! A case is a corpus file rewritten into the old syntax: every `for`
//! statement gets a generated `: ScalarType` annotation, further `for`
//! statements are planted into statement blocks, comments (line, block,
//! multi-line, multi-byte) are injected — with emphasis inside and around the
//! annotation — and everything is re-laid with generated whitespace.
//! Precondition: the old parser accepts the text.
//!
//! The command is run in-process exactly as `cmd_migrate.rs` does (current
//! parser → `Migrator::migratable` → old parser → `Migrator::migrate` → current
//! parser → pass 1 → formatter → compare with the input / write).
//!
//! Oracle (the property text):
//!  1. the command succeeds and the current parser accepts what it writes;
//!  2. the token sequence of the result is the input's with exactly the
//!     `: ScalarType` of each `for` statement removed (a `,` directly before a
//!     closing bracket is the formatter's to add or drop — C09's convention);
//!  3. every comment of the input is in the result, in order (trailing
//!     blanks per line aside);
//!  4. a text the current parser accepts is left byte-identical.

use crate::pipe::{self, FmtOpts};
use std::path::Path;
use vcore::{CaseCfg, Ctx, Draw, Outcome, hash_str, json};
use vgen::relayout::{self, LayoutOpts, Piece, PieceKind};
use veryl_analyzer::Analyzer;
use veryl_formatter::Formatter;
use veryl_metadata::Metadata;
use veryl_migrator::Migrator;
use veryl_migrator::Parser as OldParser;
use veryl_parser::Parser;
use veryl_parser::token_collector::TokenCollector;
use veryl_parser::veryl_grammar_trait as g;
use veryl_parser::veryl_token::TokenSource;
use veryl_parser::veryl_walker::VerylWalker;

// ---------------------------------------------------------------------------
// the command
// ---------------------------------------------------------------------------

#[derive(Debug)]
pub enum Migrated {
    /// the current parser accepts the input and nothing asks for a migration:
    /// the file is not touched
    Untouched,
    /// the command stops with the old parser's error
    OldParserRejects(String),
    /// the command stops because the current parser rejects the migrator's text
    MigratedTextRejected { raw: String, error: String },
    /// pass 1 or the formatter panicked on the migrated text
    LaterStagePanics,
    /// what the command leaves in the file (== input when nothing is written)
    Written { raw: String, out: String },
}

/// `veryl migrate FILE` on one text, as `CmdMigrate::exec`.  Call on a fresh thread.
pub fn migrate_like_cli(input: &str, md: &Metadata) -> Migrated {
    let path = Path::new("a.veryl");
    let migrate = match Parser::parse(input, &path) {
        Ok(p) => Migrator::migratable(&p.veryl),
        Err(_) => true,
    };
    if !migrate {
        return Migrated::Untouched;
    }
    let old = match OldParser::parse(input, &path) {
        Ok(p) => p,
        Err(e) => return Migrated::OldParserRejects(e.to_string()),
    };
    let mut migrator = Migrator::new(md);
    migrator.migrate(&old.veryl, input);
    let raw = migrator.as_str().to_string();
    let parser = match Parser::parse(&raw, &path) {
        Ok(p) => p,
        Err(e) => {
            return Migrated::MigratedTextRejected {
                raw,
                error: e.to_string(),
            };
        }
    };
    // A crash of pass 1 or of the formatter on the (parseable) migrated text is
    // C11's business, not the migrator's.
    let later = std::panic::catch_unwind(std::panic::AssertUnwindSafe(|| {
        let analyzer = Analyzer::new(md);
        let _ = analyzer.analyze_pass1(&md.project.name, &parser.veryl);
        let mut formatter = Formatter::new(md);
        formatter.format(&parser.veryl, &raw);
        let out = formatter.as_str().to_string();
        analyzer.clear();
        out
    }));
    match later {
        // `pass = input == formatted`; otherwise the file is overwritten with it
        Ok(out) => Migrated::Written { raw, out },
        Err(_) => Migrated::LaterStagePanics,
    }
}

// ---------------------------------------------------------------------------
// rewriting a current-syntax text into the previous syntax
// ---------------------------------------------------------------------------

/// Where the `for` statements and the statement blocks of a text are
/// (byte offsets of the loop variable / of the opening brace).
#[derive(Default)]
struct Sites {
    for_idents: Vec<usize>,
    block_braces: Vec<usize>,
}

impl VerylWalker for Sites {
    fn for_statement(&mut self, arg: &g::ForStatement) {
        self.for_idents.push(arg.identifier.identifier_token.token.pos as usize);
        // default traversal of the children
        self.statement_block(&arg.statement_block);
    }
    fn statement_block(&mut self, arg: &g::StatementBlock) {
        self.block_braces.push(arg.l_brace.l_brace_token.token.pos as usize);
        for x in &arg.statement_block_list {
            self.statement_block_group(&x.statement_block_group);
        }
    }
}

fn lex_gap(gap: &str, out: &mut Vec<(Piece, Option<usize>)>) {
    let b = gap.as_bytes();
    let mut i = 0;
    while i < b.len() {
        let c = b[i];
        if c.is_ascii_whitespace() {
            i += 1;
        } else if c == b'/' && i + 1 < b.len() && b[i + 1] == b'/' {
            let mut j = i;
            while j < b.len() && b[j] != b'\n' && b[j] != b'\r' {
                j += 1;
            }
            out.push((
                Piece {
                    text: gap[i..j].trim_end().to_string(),
                    kind: PieceKind::LineComment,
                },
                None,
            ));
            i = j;
        } else if c == b'/' && i + 1 < b.len() && b[i + 1] == b'*' {
            let end = gap[i + 2..].find("*/").map(|k| i + 2 + k + 2).unwrap_or(b.len());
            out.push((
                Piece {
                    text: gap[i..end].to_string(),
                    kind: PieceKind::BlockComment,
                },
                None,
            ));
            i = end;
        } else {
            // a token the default walker does not visit
            let mut j = i;
            while j < b.len() && !b[j].is_ascii_whitespace() {
                if b[j] == b'/' && j + 1 < b.len() && (b[j + 1] == b'/' || b[j + 1] == b'*') {
                    break;
                }
                j += 1;
            }
            if j == i {
                j = i + 1;
            }
            while !gap.is_char_boundary(j) {
                j += 1;
            }
            out.push((
                Piece {
                    text: gap[i..j].to_string(),
                    kind: PieceKind::Token,
                },
                None,
            ));
            i = j;
        }
    }
}

/// `vgen::relayout::pieces` with the byte offset of every parser token kept,
/// plus the for-statement / statement-block sites of the text.
fn pieces_with_sites(src: &str) -> Option<(Vec<(Piece, Option<usize>)>, Sites)> {
    let parser = Parser::parse(src, &Path::new("c23-base.veryl")).ok()?;
    let mut col = TokenCollector::new(false);
    col.veryl(&parser.veryl);
    let mut sites = Sites::default();
    sites.veryl(&parser.veryl);
    let mut toks: Vec<(usize, usize)> = col
        .tokens
        .iter()
        .filter(|t| matches!(t.source, TokenSource::File { .. }) && t.length > 0)
        .map(|t| (t.pos as usize, t.length as usize))
        .collect();
    toks.sort();
    toks.dedup();
    let mut out = Vec::new();
    let mut prev_end = 0usize;
    let mut in_embed = false;
    let mut embed_start = 0usize;
    for (pos, len) in toks {
        if pos < prev_end || pos + len > src.len() + 1 {
            return None;
        }
        let end = (pos + len).min(src.len());
        let text = &src[pos..end];
        if in_embed {
            if text == "}}}" {
                out.push((
                    Piece {
                        text: src[embed_start..pos].to_string(),
                        kind: PieceKind::Verbatim,
                    },
                    None,
                ));
                out.push((
                    Piece {
                        text: text.to_string(),
                        kind: PieceKind::Token,
                    },
                    Some(pos),
                ));
                in_embed = false;
            }
            prev_end = end;
            continue;
        }
        lex_gap(&src[prev_end..pos], &mut out);
        out.push((
            Piece {
                text: text.to_string(),
                kind: PieceKind::Token,
            },
            Some(pos),
        ));
        if text == "{{{" {
            in_embed = true;
            embed_start = end;
        }
        prev_end = end;
    }
    if in_embed {
        return None;
    }
    lex_gap(&src[prev_end.min(src.len())..], &mut out);
    Some((out, sites))
}

fn tok(s: &str) -> Piece {
    Piece {
        text: s.to_string(),
        kind: PieceKind::Token,
    }
}

/// A generated `ScalarType` (token texts), simplest first.
fn gen_scalar_type(d: &mut Draw) -> Vec<&'static str> {
    const FIXED: &[&str] = &["u32", "i32", "u64", "i64", "u8", "u16", "i8", "i16", "f32", "f64", "bbool", "lbool", "p32", "string"];
    let mut v: Vec<&'static str> = Vec::new();
    match d.weighted(&[6, 3, 2, 2, 1]) {
        0 => v.push(*d.pick(FIXED)),
        1 => {
            // variable type with an optional width
            if d.chance(1, 3) {
                v.push(*d.pick(&["signed", "tri"]));
            }
            v.push(*d.pick(&["logic", "bit"]));
            if d.chance(2, 3) {
                v.extend(match d.below(4) {
                    0 => vec!["<", "8", ">"],
                    1 => vec!["<", "4", ",", "2", ">"],
                    2 => vec!["<", "W", "+", "1", ">"],
                    _ => vec!["<", "$clog2", "(", "N", ")", ">"],
                });
            }
        }
        2 => {
            // user defined type
            v.extend(match d.below(4) {
                0 => vec!["T"],
                1 => vec!["PkgA", "::", "T"],
                2 => vec!["T", "<", "2", ">"],
                _ => vec!["PkgA", "::<", "3", ">", "::", "T"],
            });
        }
        3 => {
            v.push("signed");
            v.push(*d.pick(&["u32", "i32"]));
        }
        _ => {
            v.push(*d.pick(&["clock", "reset", "clock_posedge", "reset_async_low"]));
        }
    }
    v
}

#[derive(Clone, Copy, PartialEq, Eq, Debug)]
enum Role {
    /// stays
    Keep,
    /// token of a `: ScalarType` annotation: must vanish
    Annotation,
    /// comment placed after the `:` / inside / after the type of an annotation
    InsideAnnotation,
}

#[derive(Clone)]
pub struct OldCase {
    pub text: String,
    pub expect_tokens: Vec<String>,
    /// (normalised comment, sits inside a removed annotation)
    pub expect_comments: Vec<(String, bool)>,
    pub annotations: usize,
    pub planted: usize,
    /// an annotated `for` shares a line with a comment or multi-byte text
    pub for_line_has_comment_or_multibyte: bool,
    pub risky_multibyte: bool,
    /// a string literal uses an escape only the previous grammar knows (`\\/`, `\\b`, `\\r`)
    pub old_escape: bool,
}

fn ascii_only(s: &str) -> String {
    s.chars().map(|c| if c.is_ascii() { c } else { 'x' }).collect()
}

/// Rewrite `base` (current syntax) into the previous syntax.
fn gen_old_case(d: &mut Draw, base: &str) -> Option<OldCase> {
    let (pieces, sites) = pieces_with_sites(base)?;
    let mut lo = LayoutOpts::draw(d);
    // comments are placed here (their order and place must be known), not by relayout()
    let inject = std::mem::replace(&mut lo.inject_per_mille, 0);
    let leading = std::mem::replace(&mut lo.leading_comment, false);
    let keep = std::mem::replace(&mut lo.keep_comments, true);
    if d.chance(1, 2) {
        lo.multibyte = true;
    }
    // Listed findings are kept reachable at a low rate and excluded by
    // construction otherwise:
    //  * multi-byte text followed by more tokens on its line (blanks are
    //    swallowed): unless `risky_multibyte`, multi-byte text only goes into
    //    line comments (nothing follows them on their line);
    //  * comments inside the removed annotation (dropped): only if `inside_ok`.
    let risky_multibyte = d.chance(1, 8);
    let inside_ok = d.chance(1, 8);
    let annotate = !d.chance(1, 10); // sometimes leave the text in the current syntax
    let plant_per_mille = [0u32, 300, 1000][d.weighted(&[1, 4, 3])];
    let around = *d.pick(&[(1u32, 3u32), (0, 1), (1, 1), (1, 8)]);
    // a file without a for statement gets at least one planted loop
    let forced_site: Option<usize> = if annotate && sites.for_idents.is_empty() && !sites.block_braces.is_empty() {
        Some(sites.block_braces[d.below_usize(sites.block_braces.len())])
    } else {
        None
    };
    // Listed finding kept at a low rate: a string escape that only the
    // previous grammar accepts, in a planted `$display("…");`
    let old_escape_site: Option<usize> = if annotate && !sites.block_braces.is_empty() && d.chance(1, 30) {
        Some(sites.block_braces[d.below_usize(sites.block_braces.len())])
    } else {
        None
    };
    let multibyte = lo.multibyte;
    let comment = |d: &mut Draw| -> Piece {
        let mut c = relayout::gen_comment(d, multibyte);
        if !risky_multibyte && c.kind == PieceKind::BlockComment {
            c.text = ascii_only(&c.text);
        }
        c
    };
    let maybe = |d: &mut Draw, num: u32, den: u32, role: Role, seq: &mut Vec<(Piece, Role)>| {
        if d.chance(num, den.max(1)) {
            let c = comment(d);
            seq.push((c, role));
        }
    };
    let mut seq: Vec<(Piece, Role)> = Vec::new();
    if leading {
        seq.push((comment(d), Role::Keep));
    }
    let mut annotations = 0;
    let mut planted = 0;
    let annotation = |d: &mut Draw, seq: &mut Vec<(Piece, Role)>| {
        // v [c] : [c] Type… [c] in — a comment after the loop variable belongs
        // to it; the ones after `:` and in / after the type sit inside the annotation
        maybe(d, around.0, around.1, Role::Keep, seq);
        seq.push((tok(":"), Role::Annotation));
        if inside_ok {
            maybe(d, around.0, around.1, Role::InsideAnnotation, seq);
        }
        let ty = gen_scalar_type(d);
        let n = ty.len();
        for (k, t) in ty.into_iter().enumerate() {
            seq.push((tok(t), Role::Annotation));
            if k + 1 < n && inside_ok {
                maybe(d, 1, 12, Role::InsideAnnotation, seq);
            }
        }
        if inside_ok {
            maybe(d, around.0, around.1, Role::InsideAnnotation, seq);
        }
    };
    for (p, pos) in &pieces {
        let is_comment = matches!(p.kind, PieceKind::LineComment | PieceKind::BlockComment);
        if is_comment && !keep {
            continue;
        }
        if is_comment && !risky_multibyte && p.kind == PieceKind::BlockComment && !p.text.is_ascii() {
            let mut q = p.clone();
            q.text = ascii_only(&q.text);
            seq.push((q, Role::Keep));
            continue;
        }
        seq.push((p.clone(), Role::Keep));
        if p.kind != PieceKind::Token {
            continue;
        }
        let Some(pos) = pos else { continue };
        if old_escape_site == Some(*pos) {
            let esc = *d.pick(&["\\/", "\\b", "\\r"]);
            for t in ["$display", "("] {
                seq.push((tok(t), Role::Keep));
            }
            seq.push((tok(&format!("\"a{esc}b\"")), Role::Keep));
            for t in [")", ";"] {
                seq.push((tok(t), Role::Keep));
            }
        }
        if annotate && sites.for_idents.contains(pos) {
            annotation(d, &mut seq);
            annotations += 1;
        } else if annotate
            && sites.block_braces.contains(pos)
            && (forced_site == Some(*pos) || (plant_per_mille > 0 && d.below(1000) < plant_per_mille))
        {
            // plant `for v: T in [rev] a..b [step += c] { }` at the head of a statement block
            seq.push((tok("for"), Role::Keep));
            maybe(d, 1, 8, Role::Keep, &mut seq);
            seq.push((tok(*d.pick(&["i", "idx", "_k", "loop_var"])), Role::Keep));
            annotation(d, &mut seq);
            seq.push((tok("in"), Role::Keep));
            if d.chance(1, 4) {
                seq.push((tok("rev"), Role::Keep));
            }
            seq.push((tok(*d.pick(&["0", "1", "N"])), Role::Keep));
            if !d.chance(1, 6) {
                seq.push((tok(*d.pick(&["..", "..="])), Role::Keep));
                seq.push((tok(*d.pick(&["4", "10", "N", "32'd8"])), Role::Keep));
            }
            if d.chance(1, 4) {
                seq.push((tok("step"), Role::Keep));
                seq.push((tok(*d.pick(&["+=", "*="])), Role::Keep));
                seq.push((tok("2"), Role::Keep));
            }
            seq.push((tok("{"), Role::Keep));
            maybe(d, 1, 6, Role::Keep, &mut seq);
            seq.push((tok("}"), Role::Keep));
            annotations += 1;
            planted += 1;
        } else if inject > 0 && d.below(1000) < inject && p.text != "{{{" {
            seq.push((comment(d), Role::Keep));
        }
    }
    let plain: Vec<Piece> = seq.iter().map(|(p, _)| p.clone()).collect();
    let text = relayout::relayout(d, &plain, &lo);
    let expect_tokens = seq
        .iter()
        .filter(|(p, r)| *r != Role::Annotation && matches!(p.kind, PieceKind::Token | PieceKind::Verbatim))
        .map(|(p, _)| p.text.clone())
        .collect();
    let expect_comments = seq
        .iter()
        .filter(|(p, _)| matches!(p.kind, PieceKind::LineComment | PieceKind::BlockComment))
        .map(|(p, r)| (norm_comment(&p.text), *r == Role::InsideAnnotation))
        .collect();
    // NT witness: a line holding the `for` keyword with a comment or multi-byte text
    let for_line = text.lines().any(|l| {
        let code = strip_comments(l);
        let has_for = code.split(|c: char| !(c.is_alphanumeric() || c == '_')).any(|w| w == "for");
        has_for && (l.contains("//") || l.contains("/*") || l.contains("*/") || !l.is_ascii())
    });
    Some(OldCase {
        text,
        expect_tokens,
        expect_comments,
        annotations,
        planted,
        for_line_has_comment_or_multibyte: for_line && annotations > 0,
        risky_multibyte,
        old_escape: old_escape_site.is_some(),
    })
}

// ---------------------------------------------------------------------------
// the oracle
// ---------------------------------------------------------------------------

fn norm_comment(s: &str) -> String {
    s.trim_end().lines().map(|l| l.trim_end()).collect::<Vec<_>>().join("\n")
}

/// drop a `,` directly before a closing bracket (optional trailing separator)
fn norm_tokens(toks: &[String]) -> Vec<String> {
    let mut out = Vec::with_capacity(toks.len());
    for (i, t) in toks.iter().enumerate() {
        if t == ","
            && let Some(n) = toks.get(i + 1)
            && matches!(n.as_str(), "}" | ")" | "]" | ">" | ">>" | ">>>")
        {
            continue;
        }
        out.push(t.clone());
    }
    out
}

fn first_mismatch(a: &[String], b: &[String]) -> String {
    for i in 0..a.len().max(b.len()) {
        if a.get(i) != b.get(i) {
            let lo = i.saturating_sub(3);
            return format!(
                "index {i}: expected {:?} vs result {:?}",
                &a[lo.min(a.len())..(i + 3).min(a.len())],
                &b[lo.min(b.len())..(i + 3).min(b.len())]
            );
        }
    }
    "equal".into()
}

fn clip(s: &str, n: usize) -> String {
    let mut e = n.min(s.len());
    while !s.is_char_boundary(e) {
        e -= 1;
    }
    s[..e].to_string()
}

fn strip_comments(s: &str) -> String {
    let b = s.as_bytes();
    let mut out = String::new();
    let mut i = 0;
    while i < b.len() {
        if b[i] == b'/' && i + 1 < b.len() && b[i + 1] == b'/' {
            while i < b.len() && b[i] != b'\n' {
                i += 1;
            }
        } else if b[i] == b'/' && i + 1 < b.len() && b[i + 1] == b'*' {
            i += 2;
            while i + 1 < b.len() && !(b[i] == b'*' && b[i + 1] == b'/') {
                i += 1;
            }
            i = (i + 2).min(b.len());
            out.push(' ');
        } else {
            let mut j = i + 1;
            while !s.is_char_boundary(j) {
                j += 1;
            }
            out.push_str(&s[i..j]);
            i = j;
        }
    }
    out
}

const K_INSIDE: &str = "comment-lost:inside-removed-annotation";
const K_EMBED: &str = "embed-content:blanks-inserted-after-multiline-chunk";
const K_MULTIBYTE: &str = "multibyte-text:blanks-swallowed-on-the-line";
const K_ESCAPE: &str = "string-escape-of-the-previous-grammar-kept";
const KNOWN: &[&str] = &[K_INSIDE, K_EMBED, K_MULTIBYTE, K_ESCAPE];

pub struct Issue {
    pub sig: String,
    pub msg: String,
}

/// What `veryl migrate` did with an old-syntax text that the current parser
/// rejects, against the expectation.  Empty = the property holds on the case.
/// The listed root causes are recognised exactly (not by resemblance) and do
/// not stop the evaluation of the other clauses.
fn evaluate(case: &OldCase, res: &Migrated) -> Vec<Issue> {
    let mut issues = Vec::new();
    let out = match res {
        Migrated::Untouched => {
            issues.push(Issue {
                sig: "harness:current-parser-verdict-changed".into(),
                msg: "the current parser rejected the text, then accepted it".into(),
            });
            return issues;
        }
        Migrated::OldParserRejects(e) => {
            issues.push(Issue {
                sig: "harness:old-parser-verdict-changed".into(),
                msg: clip(e, 200),
            });
            return issues;
        }
        Migrated::LaterStagePanics => {
            issues.push(Issue {
                sig: "harness:later-stage-panics-on-the-ascii-twin".into(),
                msg: "pass 1 / the formatter panics".into(),
            });
            return issues;
        }
        Migrated::MigratedTextRejected { error, .. } => {
            issues.push(Issue {
                sig: "migrated-text-does-not-parse".into(),
                msg: format!(
                    "the previous grammar accepts the text, but the current parser rejects what the migrator produces, so the command fails: {}",
                    clip(&error.replace('\n', " "), 300)
                ),
            });
            return issues;
        }
        Migrated::Written { out, .. } => out,
    };
    let Some(pf) = pipe::on_fresh_thread(|| relayout::pieces(out)) else {
        issues.push(Issue {
            sig: "written-text-does-not-parse".into(),
            msg: "the current parser rejects the text `veryl migrate` writes".into(),
        });
        return issues;
    };
    let got_tokens: Vec<String> = pf
        .iter()
        .filter(|p| matches!(p.kind, PieceKind::Token | PieceKind::Verbatim))
        .map(|p| p.text.clone())
        .collect();
    let got_comments: Vec<String> = pf
        .iter()
        .filter(|p| matches!(p.kind, PieceKind::LineComment | PieceKind::BlockComment))
        .map(|p| norm_comment(&p.text))
        .collect();
    let (mut et, mut gt) = (norm_tokens(&case.expect_tokens), norm_tokens(&got_tokens));
    if case.old_escape {
        // how a migration should spell `\/` in the current syntax is not ours to
        // say: string literals only have to stay string literals
        for t in et.iter_mut().chain(gt.iter_mut()) {
            if t.starts_with('"') {
                *t = "\"…\"".to_string();
            }
        }
    }
    if et != gt {
        // the same sequence except that blanks were inserted into embedded code?
        let squeeze = |s: &str| s.chars().filter(|c| *c != ' ').collect::<String>();
        let embed_only = et.len() == gt.len()
            && et.iter().zip(&gt).all(|(a, b)| a == b || (a.contains('\n') && squeeze(a) == squeeze(b) && b.len() > a.len()));
        if embed_only {
            issues.push(Issue {
                sig: K_EMBED.into(),
                msg: format!("the text of an embedded code block ({{{{{{ … }}}}}}) is changed (blanks inserted): {}", first_mismatch(&et, &gt)),
            });
        } else {
            let sig = if gt.len() > et.len() {
                "token-sequence:extra-tokens"
            } else if gt.len() < et.len() {
                "token-sequence:tokens-lost"
            } else {
                "token-sequence:tokens-changed"
            };
            issues.push(Issue {
                sig: sig.into(),
                msg: format!("result tokens are not the input's minus the for-loop annotations: {}", first_mismatch(&et, &gt)),
            });
        }
    }
    let all: Vec<String> = case.expect_comments.iter().map(|(c, _)| c.clone()).collect();
    if all != got_comments {
        let outside: Vec<String> = case.expect_comments.iter().filter(|(_, i)| !*i).map(|(c, _)| c.clone()).collect();
        if outside == got_comments {
            let lost: Vec<&String> = case.expect_comments.iter().filter(|(_, i)| *i).map(|(c, _)| c).collect();
            issues.push(Issue {
                sig: K_INSIDE.into(),
                msg: format!(
                    "the {} comment(s) between the `:` of a for-loop annotation and the following `in` are dropped (all others are kept): {:?}",
                    lost.len(),
                    lost.iter().take(3).collect::<Vec<_>>()
                ),
            });
        } else {
            let sig = if got_comments.len() < all.len() {
                "comment-lost:outside-the-annotation"
            } else if got_comments.len() > all.len() {
                "comment-duplicated"
            } else {
                "comment-changed"
            };
            issues.push(Issue {
                sig: sig.into(),
                msg: format!("comments are not kept in order: {}", first_mismatch(&all, &got_comments)),
            });
        }
    }
    issues
}

fn asciified(case: &OldCase) -> OldCase {
    let mut c = case.clone();
    c.text = ascii_only(&c.text);
    c.expect_tokens = c.expect_tokens.iter().map(|t| ascii_only(t)).collect();
    c.expect_comments = c.expect_comments.iter().map(|(t, i)| (ascii_only(t), *i)).collect();
    c
}

/// The case with the escapes `\/`, `\b`, `\r` (previous grammar only) replaced
/// by `\\` (both grammars, same length) in its string literals.
fn escapes_neutralised(case: &OldCase) -> OldCase {
    let mut c = case.clone();
    // only the planted literal "a\?b" carries such an escape
    for e in ["\\/", "\\b", "\\r"] {
        let lit = format!("\"a{e}b\"");
        let fixed = "\"a\\\\b\"".to_string();
        c.text = c.text.replace(&lit, &fixed);
        for t in c.expect_tokens.iter_mut() {
            if *t == lit {
                *t = fixed.clone();
            }
        }
    }
    c
}

/// Decide one old-syntax text against the tokens / comments its result must have.
pub fn decide(case: &OldCase, o: &FmtOpts, origin: &str, mut classes: Vec<String>) -> Outcome {
    let md = pipe::metadata(o);
    let x = &case.text;
    // precondition: the previous grammar accepts x (own thread: the old
    // parser shares the current parser's thread-local tables)
    let old_ok = pipe::on_fresh_thread(|| OldParser::parse(x, &Path::new("a.veryl")).is_ok());
    if !old_ok {
        return Outcome::skip("the previous grammar rejects the text (the file uses syntax added since)");
    }
    let new_ok = pipe::on_fresh_thread(|| Parser::parse(x, &Path::new("a.veryl")).is_ok());
    let res = pipe::on_fresh_thread(|| migrate_like_cli(x, &md));
    if matches!(res, Migrated::LaterStagePanics) {
        return Outcome::skip("pass 1 / the formatter panics on the migrated text (left to C11)");
    }
    let (raw, out) = match &res {
        Migrated::Written { raw, out } => (Some(raw.clone()), Some(out.clone())),
        Migrated::MigratedTextRejected { raw, .. } => (Some(raw.clone()), None),
        _ => (None, None),
    };
    let input = json!({"origin": origin, "format": o.describe(), "old_text": x, "migrator_text": raw, "written": out,
        "expect_tokens": case.expect_tokens,
        "expect_comments": case.expect_comments.iter().map(|(c, _)| c.clone()).collect::<Vec<_>>(),
        "inside_annotation": case.expect_comments.iter().map(|(_, i)| *i).collect::<Vec<_>>()});
    if new_ok {
        // clause 4
        classes.push("already_current_syntax".into());
        let sample = format!("// {origin} (already current syntax)\n{}", clip(x, 1200));
        return match res {
            Migrated::Untouched => Outcome::pass(hash_str(x), false, classes, sample),
            Migrated::Written { out, .. } if out == *x => Outcome::pass(hash_str(x), false, classes, sample),
            Migrated::Written { .. } => Outcome::fail(
                "current-syntax-text-changed",
                format!("[{}] from {origin}: the current parser accepts the text, but `veryl migrate` rewrites it", o.describe()),
                input,
            ),
            Migrated::LaterStagePanics => Outcome::skip("pass 1 / the formatter panics (left to C11)"),
            Migrated::OldParserRejects(e) | Migrated::MigratedTextRejected { error: e, .. } => Outcome::fail(
                "current-syntax-text-fails",
                format!("[{}] from {origin}: the current parser accepts the text, but `veryl migrate` fails: {}", o.describe(), clip(&e, 200)),
                input,
            ),
        };
    }
    let issues = evaluate(case, &res);
    let report = |i: &Issue| Outcome::fail(i.sig.clone(), format!("[{}] from {origin}: {}", o.describe(), i.msg), input.clone());
    let unknown = |v: &[Issue]| v.iter().position(|i| !KNOWN.contains(&i.sig.as_str()));
    if let Some(u) = unknown(&issues) {
        // Differential classification against the listed root causes: the
        // same case with (a) the previous-grammar-only string escapes replaced
        // by `\\\\`, (b) every non-ASCII character replaced by an ASCII one (same
        // character columns, other byte lengths).  If the property holds on
        // such a twin (listed findings aside), that difference is the cause.
        let run = |c: &OldCase| {
            let r = pipe::on_fresh_thread(|| migrate_like_cli(&c.text, &md));
            // a twin that is plain current syntax is left alone: nothing wrong there
            matches!(r, Migrated::Untouched) || unknown(&evaluate(c, &r)).is_none()
        };
        let esc = if case.old_escape { Some(escapes_neutralised(case)) } else { None };
        let asc = if !x.is_ascii() { Some(asciified(case)) } else { None };
        let why_esc = "the string literal uses an escape that only the previous grammar accepts and the migrator copies it unchanged";
        let why_mb = "the same text with its multi-byte characters replaced by ASCII ones migrates correctly: the migrator rebuilds the blanks from character columns while advancing its own column by bytes, so blanks after multi-byte text on a line are swallowed and tokens fuse";
        if let Some(c) = &esc
            && run(c)
        {
            return report(&Issue {
                sig: K_ESCAPE.into(),
                msg: format!("{} — {why_esc}", issues[u].msg),
            });
        }
        if let Some(c) = &asc
            && run(c)
        {
            return report(&Issue {
                sig: K_MULTIBYTE.into(),
                msg: format!("{} — and {why_mb}", issues[u].msg),
            });
        }
        if let (Some(c), Some(_)) = (&esc, &asc)
            && run(&asciified(c))
        {
            return report(&Issue {
                sig: K_MULTIBYTE.into(),
                msg: format!("{} — two listed root causes at once: {why_esc}; and {why_mb}", issues[u].msg),
            });
        }
        return report(&issues[u]);
    }
    if let Some(i) = issues.first() {
        return report(i);
    }
    if case.expect_comments.iter().any(|(_, i)| *i) {
        classes.push("comment_inside_annotation".into());
    }
    if case.planted > 0 {
        classes.push("planted_for".into());
    }
    if case.annotations > case.planted {
        classes.push("corpus_for_annotated".into());
    }
    if !x.is_ascii() {
        classes.push("multibyte".into());
    }
    if case.risky_multibyte {
        classes.push("multibyte_anywhere".into());
    }
    if x.contains("\r\n") {
        classes.push("crlf".into());
    }
    if x.contains("{{{") {
        classes.push("embed".into());
    }
    if case.old_escape {
        classes.push("old_string_escape".into());
    }
    if case.for_line_has_comment_or_multibyte {
        classes.push("for_line_with_comment_or_multibyte".into());
    }
    classes.push(format!(
        "annotations:{}",
        match case.annotations {
            0 => "0",
            1 => "1",
            2..=4 => "2-4",
            _ => "5+",
        }
    ));
    Outcome::pass(
        hash_str(&format!("{}|{}", o.describe(), x)),
        case.annotations > 0 && case.for_line_has_comment_or_multibyte,
        classes,
        format!("// {origin} [{}] annotations={}\n{}", o.describe(), case.annotations, clip(x, 1500)),
    )
}

// ---------------------------------------------------------------------------

pub fn run(ctx: &Ctx) {
    let corpus = pipe::load_corpus();

    // sub: explicit old-syntax texts (reproducers of listed findings)
    ctx.run_payloads("text", |p| {
        let strs = |k: &str| -> Vec<String> {
            p.get(k)
                .and_then(|t| t.as_array())
                .map(|a| a.iter().map(|x| x.as_str().unwrap_or("").to_string()).collect())
                .unwrap_or_default()
        };
        let inside: Vec<bool> = p
            .get("inside_annotation")
            .and_then(|t| t.as_array())
            .map(|a| a.iter().map(|x| x.as_bool().unwrap_or(false)).collect())
            .unwrap_or_default();
        let comments = strs("expect_comments");
        let case = OldCase {
            text: p.get("old_text").and_then(|t| t.as_str()).unwrap_or("").to_string(),
            expect_tokens: strs("expect_tokens"),
            expect_comments: comments.iter().enumerate().map(|(i, c)| (c.clone(), inside.get(i).copied().unwrap_or(false))).collect(),
            annotations: 1,
            planted: 0,
            for_line_has_comment_or_multibyte: true,
            risky_multibyte: false,
            old_escape: p.get("old_escape").and_then(|t| t.as_bool()).unwrap_or(false),
        };
        decide(&case, &FmtOpts::default(), "explicit", vec!["explicit".into()])
    });

    // files with a place for an annotated loop (a for statement or a statement block)
    let rewritable: Vec<usize> = (0..corpus.len())
        .filter(|i| {
            let src = &corpus[*i].1;
            pipe::on_fresh_thread(|| pieces_with_sites(src).map(|(_, s)| !s.for_idents.is_empty() || !s.block_braces.is_empty())) == Some(true)
        })
        .collect();
    ctx.note("corpus_files", json!(corpus.len()));
    ctx.note("corpus_files_with_for_statement_or_statement_block", json!(rewritable.len()));
    assert!(rewritable.len() > 20, "too few corpus files can hold a for statement");

    let n = ctx.scale(3000, 100_000);
    ctx.run("rewrite", CaseCfg::cases(n).choices(12_000).stack_mb(16).shrink_iters(80), |d| {
        let fi = if d.chance(1, 12) { d.below_usize(corpus.len()) } else { rewritable[d.below_usize(rewritable.len())] };
        let (name, src) = &corpus[fi];
        let o = FmtOpts::draw(d);
        let Some(case) = gen_old_case(d, src) else {
            return Outcome::skip("corpus file does not tokenise");
        };
        decide(&case, &o, name, vec![])
    });

    ctx.assume("the in-process pipeline is the one of crates/veryl/src/cmd_migrate.rs (current parser, Migrator::migratable, old parser, Migrator::migrate, current parser, pass 1, formatter, write if different); the listed findings were confirmed with the real `veryl migrate`");
    ctx.assume("token sequences of the result are taken with the current parser's token positions plus the text between them; a `,` directly before a closing bracket is the formatter's (C09)");
    ctx.assume("identifiers that became keywords since the previous grammar (`mixin`) cannot occur: the inputs are rewritten from current-syntax files");
    ctx.finish(
        "exploration",
        "corpus files rewritten into the previous syntax: every for statement gets a generated `: ScalarType`, further for statements are planted into statement blocks, comments (line/block/multi-line/multi-byte) are injected around (1 case in 8: also inside) the annotation and elsewhere, everything re-laid with generated whitespace/CRLF x generated [format] settings; precondition: the old parser accepts; non-trivial = >=1 annotated for and a `for` keyword shares its line with a comment or multi-byte text; distinct by (settings, text) hash",
    );
}

/// Developer aid: the verdicts of both parsers and the result of the command on one file.
pub fn probe(path: &str) {
    let x = std::fs::read_to_string(path).expect("read");
    let md = pipe::metadata(&FmtOpts::default());
    let old_ok = pipe::on_fresh_thread(|| OldParser::parse(&x, &Path::new("a.veryl")).is_ok());
    let new_ok = pipe::on_fresh_thread(|| Parser::parse(&x, &Path::new("a.veryl")).is_ok());
    println!("previous grammar accepts: {old_ok}; current grammar accepts: {new_ok}");
    println!("{:#?}", pipe::on_fresh_thread(|| migrate_like_cli(&x, &md)));
}
