//! C23 — `veryl migrate` yields valid current-syntax code with the same meaning.
//!
//! Inputs: programs of the *previous* grammar (`crates/migrator/veryl.par`).
//! The only construct of it that the current grammar rejects and a migration
//! can reach is the mandatory index type of a `for` statement
//! (`for i: u32 in …`; the other differences are either relaxations — types of
//! let/var/const became optional — or additions of the current grammar).
//! A case is a corpus file rewritten into the old syntax: every `for`
//! statement gets a generated `: ScalarType` annotation, further `for`
//! statements are planted into statement blocks, comments (line, block,
//! multi-line, multi-byte) are injected — with emphasis inside and around the
//! annotation — and everything is re-laid with generated whitespace.
//! Precondition: the old parser accepts the text.
//!
//! The command is run in-process exactly as `cmd_migrate.rs` does (current
//! parser → `Migrator::migratable` → old parser → `Migrator::migrate` → current
//! parser → pass 1 → formatter → compare with the input / write).
//!
//! Oracle (the property text):
//!  1. the command succeeds and the current parser accepts what it writes;
//!  2. the token sequence of the result is the input's with exactly the
//!     `: ScalarType` of each `for` statement removed (a `,` directly before a
//!     closing bracket is the formatter's to add or drop — C09's convention);
//!  3. every comment of the input is in the result, in order (trailing
//!     blanks per line aside);
//!  4. a text the current parser accepts is left byte-identical.

use crate::pipe::{self, FmtOpts};
use std::path::Path;
use vcore::{CaseCfg, Ctx, Draw, Outcome, hash_str, json};
use vgen::relayout::{self, LayoutOpts, Piece, PieceKind};
use veryl_analyzer::Analyzer;
use veryl_formatter::Formatter;
use veryl_metadata::Metadata;
use veryl_migrator::Migrator;
use veryl_migrator::Parser as OldParser;
use veryl_parser::Parser;
use veryl_parser::token_collector::TokenCollector;
use veryl_parser::veryl_grammar_trait as g;
use veryl_parser::veryl_token::TokenSource;
use veryl_parser::veryl_walker::VerylWalker;

// ---------------------------------------------------------------------------
// the command
// ---------------------------------------------------------------------------

#[derive(Debug)]
pub enum Migrated {
    /// the current parser accepts the input and nothing asks for a migration:
    /// the file is not touched
    Untouched,
    /// the command stops with the old parser's error
    OldParserRejects(String),
    /// the command stops because the current parser rejects the migrator's text
    MigratedTextRejected { raw: String, error: String },
    /// what the command leaves in the file (== input when nothing is written)
    Written { raw: String, out: String },
}

/// `veryl migrate FILE` on one text, as `CmdMigrate::exec`.  Call on a fresh thread.
pub fn migrate_like_cli(input: &str, md: &Metadata) -> Migrated {
    let path = Path::new("a.veryl");
    let migrate = match Parser::parse(input, &path) {
        Ok(p) => Migrator::migratable(&p.veryl),
        Err(_) => true,
    };
    if !migrate {
        return Migrated::Untouched;
    }
    let old = match OldParser::parse(input, &path) {
        Ok(p) => p,
        Err(e) => return Migrated::OldParserRejects(e.to_string()),
    };
    let mut migrator = Migrator::new(md);
    migrator.migrate(&old.veryl, input);
    let raw = migrator.as_str().to_string();
    let parser = match Parser::parse(&raw, &path) {
        Ok(p) => p,
        Err(e) => {
            return Migrated::MigratedTextRejected {
                raw,
                error: e.to_string(),
            };
        }
    };
    let analyzer = Analyzer::new(md);
    let _ = analyzer.analyze_pass1(&md.project.name, &parser.veryl);
    let mut formatter = Formatter::new(md);
    formatter.format(&parser.veryl, &raw);
    let out = formatter.as_str().to_string();
    analyzer.clear();
    // `pass = input == formatted`; otherwise the file is overwritten with it
    Migrated::Written { raw, out }
}

// ---------------------------------------------------------------------------
// rewriting a current-syntax text into the previous syntax
// ---------------------------------------------------------------------------

/// Where the `for` statements and the statement blocks of a text are
/// (byte offsets of the loop variable / of the opening brace).
#[derive(Default)]
struct Sites {
    for_idents: Vec<usize>,
    block_braces: Vec<usize>,
}

impl VerylWalker for Sites {
    fn for_statement(&mut self, arg: &g::ForStatement) {
        self.for_idents.push(arg.identifier.identifier_token.token.pos as usize);
        // default traversal of the children
        self.statement_block(&arg.statement_block);
    }
    fn statement_block(&mut self, arg: &g::StatementBlock) {
        self.block_braces.push(arg.l_brace.l_brace_token.token.pos as usize);
        for x in &arg.statement_block_list {
            self.statement_block_group(&x.statement_block_group);
        }
    }
}

fn lex_gap(gap: &str, out: &mut Vec<(Piece, Option<usize>)>) {
    let b = gap.as_bytes();
    let mut i = 0;
    while i < b.len() {
        let c = b[i];
        if c.is_ascii_whitespace() {
            i += 1;
        } else if c == b'/' && i + 1 < b.len() && b[i + 1] == b'/' {
            let mut j = i;
            while j < b.len() && b[j] != b'\n' && b[j] != b'\r' {
                j += 1;
            }
            out.push((
                Piece {
                    text: gap[i..j].trim_end().to_string(),
                    kind: PieceKind::LineComment,
                },
                None,
            ));
            i = j;
        } else if c == b'/' && i + 1 < b.len() && b[i + 1] == b'*' {
            let end = gap[i + 2..].find("*/").map(|k| i + 2 + k + 2).unwrap_or(b.len());
            out.push((
                Piece {
                    text: gap[i..end].to_string(),
                    kind: PieceKind::BlockComment,
                },
                None,
            ));
            i = end;
        } else {
            // a token the default walker does not visit
            let mut j = i;
            while j < b.len() && !b[j].is_ascii_whitespace() {
                if b[j] == b'/' && j + 1 < b.len() && (b[j + 1] == b'/' || b[j + 1] == b'*') {
                    break;
                }
                j += 1;
            }
            if j == i {
                j = i + 1;
            }
            while !gap.is_char_boundary(j) {
                j += 1;
            }
            out.push((
                Piece {
                    text: gap[i..j].to_string(),
                    kind: PieceKind::Token,
                },
                None,
            ));
            i = j;
        }
    }
}

/// `vgen::relayout::pieces` with the byte offset of every parser token kept,
/// plus the for-statement / statement-block sites of the text.
fn pieces_with_sites(src: &str) -> Option<(Vec<(Piece, Option<usize>)>, Sites)> {
    let parser = Parser::parse(src, &Path::new("c23-base.veryl")).ok()?;
    let mut col = TokenCollector::new(false);
    col.veryl(&parser.veryl);
    let mut sites = Sites::default();
    sites.veryl(&parser.veryl);
    let mut toks: Vec<(usize, usize)> = col
        .tokens
        .iter()
        .filter(|t| matches!(t.source, TokenSource::File { .. }) && t.length > 0)
        .map(|t| (t.pos as usize, t.length as usize))
        .collect();
    toks.sort();
    toks.dedup();
    let mut out = Vec::new();
    let mut prev_end = 0usize;
    let mut in_embed = false;
    let mut embed_start = 0usize;
    for (pos, len) in toks {
        if pos < prev_end || pos + len > src.len() + 1 {
            return None;
        }
        let end = (pos + len).min(src.len());
        let text = &src[pos..end];
        if in_embed {
            if text == "}}}" {
                out.push((
                    Piece {
                        text: src[embed_start..pos].to_string(),
                        kind: PieceKind::Verbatim,
                    },
                    None,
                ));
                out.push((
                    Piece {
                        text: text.to_string(),
                        kind: PieceKind::Token,
                    },
                    Some(pos),
                ));
                in_embed = false;
            }
            prev_end = end;
            continue;
        }
        lex_gap(&src[prev_end..pos], &mut out);
        out.push((
            Piece {
                text: text.to_string(),
                kind: PieceKind::Token,
            },
            Some(pos),
        ));
        if text == "{{{" {
            in_embed = true;
            embed_start = end;
        }
        prev_end = end;
    }
    if in_embed {
        return None;
    }
    lex_gap(&src[prev_end.min(src.len())..], &mut out);
    Some((out, sites))
}

fn tok(s: &str) -> Piece {
    Piece {
        text: s.to_string(),
        kind: PieceKind::Token,
    }
}

/// A generated `ScalarType` (token texts), simplest first.
fn gen_scalar_type(d: &mut Draw) -> Vec<&'static str> {
    const FIXED: &[&str] = &["u32", "i32", "u64", "i64", "u8", "u16", "i8", "i16", "f32", "f64", "bbool", "lbool", "p32", "string"];
    let mut v: Vec<&'static str> = Vec::new();
    match d.weighted(&[6, 3, 2, 2, 1]) {
        0 => v.push(*d.pick(FIXED)),
        1 => {
            // variable type with an optional width
            if d.chance(1, 3) {
                v.push(*d.pick(&["signed", "tri"]));
            }
            v.push(*d.pick(&["logic", "bit"]));
            if d.chance(2, 3) {
                v.extend(match d.below(4) {
                    0 => vec!["<", "8", ">"],
                    1 => vec!["<", "4", ",", "2", ">"],
                    2 => vec!["<", "W", "+", "1", ">"],
                    _ => vec!["<", "$clog2", "(", "N", ")", ">"],
                });
            }
        }
        2 => {
            // user defined type
            v.extend(match d.below(4) {
                0 => vec!["T"],
                1 => vec!["PkgA", "::", "T"],
                2 => vec!["T", "<", "2", ">"],
                _ => vec!["PkgA", "::<", "3", ">", "::", "T"],
            });
        }
        3 => {
            v.push("signed");
            v.push(*d.pick(&["u32", "i32"]));
        }
        _ => {
            v.push(*d.pick(&["clock", "reset", "clock_posedge", "reset_async_low"]));
        }
    }
    v
}

pub struct OldCase {
    pub text: String,
    pub expect_tokens: Vec<String>,
    pub expect_comments: Vec<String>,
    pub annotations: usize,
    pub planted: usize,
    pub comment_inside_annotation: bool,
    /// an annotated `for` shares a line with a comment or multi-byte text
    pub for_line_has_comment_or_multibyte: bool,
}

fn maybe_comment(d: &mut Draw, num: u32, den: u32, multibyte: bool, out: &mut Vec<(Piece, bool)>) -> bool {
    if d.chance(num, den) {
        let c = relayout::gen_comment(d, multibyte);
        out.push((c, false));
        true
    } else {
        false
    }
}

/// Rewrite `base` (current syntax) into the previous syntax.  The bool of each
/// piece says "belongs to a `: ScalarType` annotation" (expected to vanish).
fn gen_old_case(d: &mut Draw, base: &str) -> Option<OldCase> {
    let (pieces, sites) = pieces_with_sites(base)?;
    let mut lo = LayoutOpts::draw(d);
    // comments are placed here (their order must be known), not by relayout()
    let inject = std::mem::replace(&mut lo.inject_per_mille, 0);
    let leading = std::mem::replace(&mut lo.leading_comment, false);
    let keep = std::mem::replace(&mut lo.keep_comments, true);
    if d.chance(1, 2) {
        lo.multibyte = true;
    }
    let annotate = !d.chance(1, 10); // sometimes leave the text in the current syntax
    let plant_per_mille = *d.pick(&[0u32, 300, 1000]);
    let around = *d.pick(&[(1u32, 3u32), (0, 1), (1, 1), (1, 8)]);
    let mut seq: Vec<(Piece, bool)> = Vec::new();
    if leading {
        seq.push((relayout::gen_comment(d, lo.multibyte), false));
    }
    let mut annotations = 0;
    let mut planted = 0;
    let mut inside = false;
    let annotation = |d: &mut Draw, seq: &mut Vec<(Piece, bool)>, inside: &mut bool| {
        // [c] : [c] Type… [c]   — a comment after the loop variable belongs
        // to it; the ones after `:` and after the type sit inside the annotation
        maybe_comment(d, around.0, around.1.max(1), lo.multibyte, seq);
        seq.push((tok(":"), true));
        *inside |= maybe_comment(d, around.0, around.1.max(1), lo.multibyte, seq);
        let ty = gen_scalar_type(d);
        let n = ty.len();
        for (k, t) in ty.into_iter().enumerate() {
            seq.push((tok(t), true));
            if k + 1 < n {
                *inside |= maybe_comment(d, 1, 12, lo.multibyte, seq);
            }
        }
        *inside |= maybe_comment(d, around.0, around.1.max(1), lo.multibyte, seq);
    };
    for (p, pos) in &pieces {
        match p.kind {
            PieceKind::LineComment | PieceKind::BlockComment if !keep => continue,
            _ => {}
        }
        seq.push((p.clone(), false));
        if p.kind != PieceKind::Token {
            continue;
        }
        let Some(pos) = pos else { continue };
        if annotate && sites.for_idents.contains(pos) {
            annotation(d, &mut seq, &mut inside);
            annotations += 1;
        } else if annotate && plant_per_mille > 0 && sites.block_braces.contains(pos) && d.below(1000) < plant_per_mille {
            // plant `for v: T in [rev] a..b [step += c] { }` at the head of a statement block
            seq.push((tok("for"), false));
            maybe_comment(d, 1, 8, lo.multibyte, &mut seq);
            seq.push((tok(*d.pick(&["i", "idx", "_k", "loop_var"])), false));
            annotation(d, &mut seq, &mut inside);
            seq.push((tok("in"), false));
            if d.chance(1, 4) {
                seq.push((tok("rev"), false));
            }
            seq.push((tok(*d.pick(&["0", "1", "N"])), false));
            if !d.chance(1, 6) {
                seq.push((tok(*d.pick(&["..", "..="])), false));
                seq.push((tok(*d.pick(&["4", "10", "N", "32'd8"])), false));
            }
            if d.chance(1, 4) {
                seq.push((tok("step"), false));
                seq.push((tok(*d.pick(&["+=", "*="])), false));
                seq.push((tok("2"), false));
            }
            seq.push((tok("{"), false));
            maybe_comment(d, 1, 6, lo.multibyte, &mut seq);
            seq.push((tok("}"), false));
            annotations += 1;
            planted += 1;
        } else if inject > 0 && d.below(1000) < inject && p.text != "{{{" {
            seq.push((relayout::gen_comment(d, lo.multibyte), false));
        }
    }
    let plain: Vec<Piece> = seq.iter().map(|(p, _)| p.clone()).collect();
    let text = relayout::relayout(d, &plain, &lo);
    let expect_tokens = seq
        .iter()
        .filter(|(p, ann)| !*ann && matches!(p.kind, PieceKind::Token | PieceKind::Verbatim))
        .map(|(p, _)| p.text.clone())
        .collect();
    let expect_comments = seq
        .iter()
        .filter(|(p, _)| matches!(p.kind, PieceKind::LineComment | PieceKind::BlockComment))
        .map(|(p, _)| norm_comment(&p.text))
        .collect();
    // NT witness: a line holding `for` … `:` with a comment or multi-byte text
    let for_line = text.lines().any(|l| {
        let has_for = l.split(|c: char| !(c.is_alphanumeric() || c == '_')).any(|w| w == "for");
        has_for && l.contains(':') && (l.contains("//") || l.contains("/*") || l.contains("*/") || !l.is_ascii())
    });
    Some(OldCase {
        text,
        expect_tokens,
        expect_comments,
        annotations,
        planted,
        comment_inside_annotation: inside,
        for_line_has_comment_or_multibyte: for_line && annotations > 0,
    })
}

// ---------------------------------------------------------------------------
// the oracle
// ---------------------------------------------------------------------------

fn norm_comment(s: &str) -> String {
    s.trim_end().lines().map(|l| l.trim_end()).collect::<Vec<_>>().join("\n")
}

/// drop a `,` directly before a closing bracket (optional trailing separator)
fn norm_tokens(toks: &[String]) -> Vec<String> {
    let mut out = Vec::with_capacity(toks.len());
    for (i, t) in toks.iter().enumerate() {
        if t == ","
            && let Some(n) = toks.get(i + 1)
            && matches!(n.as_str(), "}" | ")" | "]" | ">" | ">>" | ">>>")
        {
            continue;
        }
        out.push(t.clone());
    }
    out
}

fn first_mismatch(a: &[String], b: &[String]) -> (usize, String) {
    for i in 0..a.len().max(b.len()) {
        if a.get(i) != b.get(i) {
            let lo = i.saturating_sub(3);
            return (
                i,
                format!(
                    "index {i}: expected {:?} vs result {:?}",
                    &a[lo.min(a.len())..(i + 3).min(a.len())],
                    &b[lo.min(b.len())..(i + 3).min(b.len())]
                ),
            );
        }
    }
    (0, "equal".into())
}

fn clip(s: &str, n: usize) -> String {
    let mut e = n.min(s.len());
    while !s.is_char_boundary(e) {
        e -= 1;
    }
    s[..e].to_string()
}

/// Decide one old-syntax text against the tokens / comments its result must have.
pub fn decide(case: &OldCase, o: &FmtOpts, origin: &str, mut classes: Vec<String>) -> Outcome {
    let md = pipe::metadata(o);
    let x = &case.text;
    // precondition: the previous grammar accepts x (own thread: the old
    // parser shares the current parser's thread-local tables)
    let old_ok = pipe::on_fresh_thread(|| OldParser::parse(x, &Path::new("a.veryl")).is_ok());
    if !old_ok {
        return Outcome::skip("the previous grammar rejects the text (uses syntax added since, or a planted loop does not fit)");
    }
    let new_ok = pipe::on_fresh_thread(|| Parser::parse(x, &Path::new("a.veryl")).is_ok());
    let res = pipe::on_fresh_thread(|| migrate_like_cli(x, &md));
    let input = |raw: Option<&str>, out: Option<&str>| json!({"origin": origin, "format": o.describe(), "old_text": x, "migrator_text": raw, "written": out});
    if new_ok {
        // clause 4
        classes.push("already_current_syntax".into());
        return match res {
            Migrated::Untouched => Outcome::pass(hash_str(x), false, classes, format!("// {origin} (already current syntax)\n{}", clip(x, 1200))),
            Migrated::Written { raw, out } if out == *x => {
                let _ = raw;
                Outcome::pass(hash_str(x), false, classes, format!("// {origin} (already current syntax)\n{}", clip(x, 1200)))
            }
            Migrated::Written { raw, out } => Outcome::fail(
                "current-syntax-text-changed",
                format!("[{}] from {origin}: the current parser accepts the text, but `veryl migrate` rewrites it", o.describe()),
                input(Some(&raw), Some(&out)),
            ),
            Migrated::OldParserRejects(e) | Migrated::MigratedTextRejected { error: e, .. } => Outcome::fail(
                "current-syntax-text-fails",
                format!("[{}] from {origin}: the current parser accepts the text, but `veryl migrate` fails: {}", o.describe(), clip(&e, 200)),
                input(None, None),
            ),
        };
    }
    let (raw, out) = match res {
        Migrated::Untouched => unreachable!("the current parser rejected the text"),
        Migrated::OldParserRejects(_) => return Outcome::skip("old parser verdict changed between threads"),
        Migrated::MigratedTextRejected { raw, error } => {
            // root cause: which tokens did the migrator's spacing fuse / lose?
            let sig = classify_raw(x, &raw);
            return Outcome::fail(
                format!("migrated-text-does-not-parse:{sig}"),
                format!(
                    "[{}] from {origin}: the previous grammar accepts the text, but the current parser rejects what the migrator produces ({}): {}",
                    o.describe(),
                    sig,
                    clip(&error.replace('\n', " "), 300)
                ),
                input(Some(&raw), None),
            );
        }
        Migrated::Written { raw, out } => (raw, out),
    };
    // clause 1 on the written text; the tokens and comments of it
    let Some(pf) = pipe::on_fresh_thread(|| relayout::pieces(&out)) else {
        return Outcome::fail(
            "written-text-does-not-parse",
            format!("[{}] from {origin}: the current parser rejects the text `veryl migrate` writes", o.describe()),
            input(Some(&raw), Some(&out)),
        );
    };
    let got_tokens: Vec<String> = pf
        .iter()
        .filter(|p| matches!(p.kind, PieceKind::Token | PieceKind::Verbatim))
        .map(|p| p.text.clone())
        .collect();
    let got_comments: Vec<String> = pf
        .iter()
        .filter(|p| matches!(p.kind, PieceKind::LineComment | PieceKind::BlockComment))
        .map(|p| norm_comment(&p.text))
        .collect();
    let (et, gt) = (norm_tokens(&case.expect_tokens), norm_tokens(&got_tokens));
    if et != gt {
        let (_, at) = first_mismatch(&et, &gt);
        let sig = if gt.len() > et.len() {
            "token-sequence:extra-tokens"
        } else if gt.len() < et.len() {
            "token-sequence:tokens-lost"
        } else {
            "token-sequence:tokens-changed"
        };
        return Outcome::fail(
            sig,
            format!("[{}] from {origin}: result tokens are not the input's minus the for-loop annotations: {at}", o.describe()),
            input(Some(&raw), Some(&out)),
        );
    }
    if case.expect_comments != got_comments {
        let (i, at) = first_mismatch(&case.expect_comments, &got_comments);
        // is the first missing comment one that sat inside a removed annotation?
        let missing = case.expect_comments.get(i).cloned().unwrap_or_default();
        let sig = if got_comments.len() < case.expect_comments.len() {
            if comment_is_inside_annotation(x, &missing) {
                "comment-lost:inside-removed-annotation"
            } else {
                "comment-lost:elsewhere"
            }
        } else if got_comments.len() > case.expect_comments.len() {
            "comment-duplicated"
        } else {
            "comment-changed"
        };
        return Outcome::fail(
            sig,
            format!("[{}] from {origin}: comments are not kept in order: {at}", o.describe()),
            input(Some(&raw), Some(&out)),
        );
    }
    if case.comment_inside_annotation {
        classes.push("comment_inside_annotation".into());
    }
    if case.planted > 0 {
        classes.push("planted_for".into());
    }
    if case.annotations > case.planted {
        classes.push("corpus_for_annotated".into());
    }
    if !x.is_ascii() {
        classes.push("multibyte".into());
    }
    if x.contains("\r\n") {
        classes.push("crlf".into());
    }
    if case.for_line_has_comment_or_multibyte {
        classes.push("for_line_with_comment_or_multibyte".into());
    }
    classes.push(format!("annotations:{}", match case.annotations { 0 => "0", 1 => "1", 2..=4 => "2-4", _ => "5+" }));
    Outcome::pass(
        hash_str(&format!("{}|{}", o.describe(), x)),
        case.annotations > 0 && case.for_line_has_comment_or_multibyte,
        classes,
        format!("// {origin} [{}] annotations={}\n{}", o.describe(), case.annotations, clip(x, 1500)),
    )
}

/// Does `comment` (normalised) occur in `x` between the `:` of a for-loop
/// annotation and the `in` that follows it?  Textual heuristic used only to
/// name the root cause of a failure that is already established.
fn comment_is_inside_annotation(x: &str, comment: &str) -> bool {
    let first_line = comment.lines().next().unwrap_or("");
    if first_line.is_empty() {
        return false;
    }
    let mut from = 0;
    while let Some(p) = x[from..].find(first_line) {
        let at = from + p;
        // look backwards for `for <ident> … :` without a `{`, `;` or `in` word in between
        let before = &x[..at];
        if let Some(f) = before.rfind("for") {
            let between = strip_comments(&before[f + 3..]);
            let has_colon = between.contains(':');
            let closed = between.contains('{') || between.contains(';') || between.split_whitespace().any(|w| w == "in");
            if has_colon && !closed {
                return true;
            }
        }
        from = at + first_line.len();
    }
    false
}

fn strip_comments(s: &str) -> String {
    let b = s.as_bytes();
    let mut out = String::new();
    let mut i = 0;
    while i < b.len() {
        if b[i] == b'/' && i + 1 < b.len() && b[i + 1] == b'/' {
            while i < b.len() && b[i] != b'\n' {
                i += 1;
            }
        } else if b[i] == b'/' && i + 1 < b.len() && b[i + 1] == b'*' {
            i += 2;
            while i + 1 < b.len() && !(b[i] == b'*' && b[i + 1] == b'/') {
                i += 1;
            }
            i = (i + 2).min(b.len());
            out.push(' ');
        } else {
            let mut j = i + 1;
            while !s.is_char_boundary(j) {
                j += 1;
            }
            out.push_str(&s[i..j]);
            i = j;
        }
    }
    out
}

/// Root-cause class of a migrator text the current parser rejects, from the
/// two texts alone: the migrator rebuilds the spacing from token columns
/// (counted in characters) while advancing its own column by bytes, so after
/// multi-byte text on a line the blanks between later tokens are swallowed.
fn classify_raw(x: &str, raw: &str) -> &'static str {
    let fused_after_multibyte = raw.lines().any(|l| !l.is_ascii());
    if !x.is_ascii() && fused_after_multibyte {
        "multibyte-text-on-a-line"
    } else {
        "ascii-text"
    }
}

// ---------------------------------------------------------------------------

pub fn run(ctx: &Ctx) {
    let corpus = pipe::load_corpus();

    // sub: explicit old-syntax texts (reproducers of listed findings)
    ctx.run_payloads("text", |p| {
        let text = p.get("old_text").and_then(|t| t.as_str()).unwrap_or("").to_string();
        let expect_tokens: Vec<String> = p
            .get("expect_tokens")
            .and_then(|t| t.as_array())
            .map(|a| a.iter().map(|x| x.as_str().unwrap_or("").to_string()).collect())
            .unwrap_or_default();
        let expect_comments: Vec<String> = p
            .get("expect_comments")
            .and_then(|t| t.as_array())
            .map(|a| a.iter().map(|x| x.as_str().unwrap_or("").to_string()).collect())
            .unwrap_or_default();
        let case = OldCase {
            text,
            expect_tokens,
            expect_comments,
            annotations: 1,
            planted: 0,
            comment_inside_annotation: false,
            for_line_has_comment_or_multibyte: true,
        };
        decide(&case, &FmtOpts::default(), "explicit", vec!["explicit".into()])
    });

    let n = ctx.scale(3000, 100_000);
    ctx.run("rewrite", CaseCfg::cases(n).choices(12_000).stack_mb(16), |d| {
        let (name, src) = &corpus[d.below_usize(corpus.len())];
        let o = FmtOpts::draw(d);
        let Some(case) = gen_old_case(d, src) else {
            return Outcome::skip("corpus file does not tokenise");
        };
        decide(&case, &o, name, vec![])
    });

    ctx.assume("the in-process pipeline is the one of crates/veryl/src/cmd_migrate.rs (current parser, Migrator::migratable, old parser, Migrator::migrate, current parser, pass 1, formatter, write if different)");
    ctx.assume("token sequences of the result are taken with the current parser's token positions plus the text between them; a `,` directly before a closing bracket is the formatter's (C09)");
    ctx.assume("identifiers that became keywords since the previous grammar (`mixin`) cannot occur: the inputs are rewritten from current-syntax files");
    ctx.finish(
        "exploration",
        "corpus files rewritten into the previous syntax: every for statement gets a generated `: ScalarType`, further for statements are planted into statement blocks, comments (line/block/multi-line/multi-byte) are injected inside and around the annotation and elsewhere, everything re-laid with generated whitespace/CRLF x generated [format] settings; precondition: the old parser accepts; non-trivial = >=1 annotated for and an annotated for shares its line with a comment or multi-byte text; distinct by (settings, text) hash",
    );
}
