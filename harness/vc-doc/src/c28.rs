//! C28 — the pretty printer keeps content and records true anchors.
//!
//! Generator: `Doc` trees assembled exactly the way the emitter's / formatter's
//! buffer helpers assemble them (`doc::concat`, `group`, `indent_by(1, _)`,
//! `force_flat`, `line`/`softline`, `Hardline`, `DedentHardline(level)` after an
//! indent block, token = `Text`/`Anchored` [+ aligner pad] [+ trailing
//! `Comments`, possibly under `Indent(1)`], `if_break(text)` at the end of a
//! list [+ the comma's trailing comments]) in two flavours — *emitter*
//! (anchored tokens, anchored comments, `DedentHardline`, no break-only text)
//! and *formatter* (plain tokens, unanchored comments, break-only text) —
//! times generated `RenderOpts`.  Every text atom is unique.
//!
//! Oracle (independent of the renderer; it only reads the rendered string):
//!  (a) skipping white space, the output is exactly the sequence of the
//!      document's Text / Anchored / Comment leaves in document order, with
//!      break-only leaves optionally in between (nothing dropped, invented or
//!      reordered);
//!  (b) every group / force-flat region / the root owns at least one witness
//!      `text Line text`; the region is *broken* iff the witness rendered as a
//!      newline (all witnesses of one region must agree); a break-only text
//!      (and a break-only pad between two adjacent atoms) is present iff its
//!      region is broken;
//!  (c) the recorded anchors are, in order, the anchored leaves, each with the
//!      1-based line and *character* column at which its text starts in the
//!      output (recomputed from the byte offset found in (a)).

use std::rc::Rc;
use vcore::{CaseCfg, Ctx, Draw, Outcome, hash_str, json};
use veryl_pretty::doc::{self, CommentDoc, Doc};
use veryl_pretty::render::{RenderOpts, render, render_with_anchors};

/// Root cause of the listed finding: `render_comments` resets the column to 0
/// after a block comment that contains a newline.
const SIG_ML_COMMENT: &str = "anchor-column:after-multiline-block-comment";

const BODIES: &[&str] = &["", "", "x", " y", "é", "日本語", "🦀", "→ z w", "ß ß"];

#[derive(Clone, Copy, PartialEq, Eq, Debug)]
enum Flavour {
    Emitter,
    Formatter,
}

#[derive(Clone, Copy, PartialEq, Eq, Debug)]
enum AtomKind {
    Text,
    Anchored,
    Comment,
}

impl AtomKind {
    fn name(self) -> &'static str {
        match self {
            AtomKind::Text => "text",
            AtomKind::Anchored => "anchored",
            AtomKind::Comment => "comment",
        }
    }
}

/// What lies between an atom and the next atom of the event list.
#[derive(Clone, Copy, Debug)]
enum After {
    Nothing,
    Witness { cont: usize, sep: &'static str },
    BreakPad { cont: usize, width: u32 },
}

#[derive(Clone, Debug)]
enum Ev {
    Atom {
        text: String,
        kind: AtomKind,
        anchor: Option<(u32, u32)>,
        after: After,
    },
    IfBreak {
        text: String,
        cont: usize,
    },
}

#[derive(Clone, Copy, PartialEq, Eq, Debug)]
enum ContKind {
    Root,
    Group,
    ForceFlat,
}

struct Cont {
    kind: ContKind,
    broken: Option<bool>,
}

#[derive(Default)]
struct Feat {
    line_comment: bool,
    block_comment: bool,
    ml_comment: bool,
    ml_token: bool,
    multibyte: bool,
    dedent_hardline: bool,
    force_flat: bool,
    pad: bool,
    if_flat_pad: bool,
    break_pad: bool,
    if_break: bool,
    indented_comment: bool,
    depth: usize,
}

struct Gen<'a> {
    d: &'a mut Draw,
    flavour: Flavour,
    next_id: u32,
    budget: i32,
    max_depth: usize,
    events: Vec<Ev>,
    conts: Vec<Cont>,
    feat: Feat,
}

impl Gen<'_> {
    fn id(&mut self) -> u32 {
        self.next_id += 1;
        self.next_id
    }

    fn body(&mut self) -> &'static str {
        let b = *self.d.pick(BODIES);
        if !b.is_ascii() {
            self.feat.multibyte = true;
        }
        b
    }

    fn set_after(&mut self, after: After) {
        if let Some(Ev::Atom { after: a, .. }) = self.events.last_mut() {
            *a = after;
        }
    }

    /// A token the way `push_token` emits it: anchored when it has a source
    /// location (emitter), plain text otherwise.
    fn token(&mut self, out: &mut Vec<Doc>, prefix: &str, suffix: &str) {
        self.budget -= 1;
        let id = self.id();
        let body = self.body();
        let anchored = self.flavour == Flavour::Emitter && self.d.chance(3, 4);
        // a token whose text spans lines (embed content, multi-line strings)
        let ml = self.d.chance(1, 100);
        let mut text = if ml {
            self.feat.ml_token = true;
            format!("{prefix}{id}{body}\n  m{id}{suffix}")
        } else {
            format!("{prefix}{id}{body}{suffix}")
        };
        if anchored {
            let (sl, sc) = (id, 1 + id % 7);
            self.events.push(Ev::Atom {
                text: text.clone(),
                kind: AtomKind::Anchored,
                anchor: Some((sl, sc)),
                after: After::Nothing,
            });
            out.push(doc::anchored(text, sl, sc));
        } else {
            // `str()` texts may carry their own blanks: " = ", ") ? ("
            if !ml && self.d.chance(1, 10) {
                text = format!(" {text} ");
            }
            self.events.push(Ev::Atom {
                text: text.clone(),
                kind: AtomKind::Text,
                anchor: None,
                after: After::Nothing,
            });
            out.push(doc::text(text));
        }
    }

    /// `process_comment` / `emit_trailing_comments`
    fn comments(&mut self, out: &mut Vec<Doc>) {
        let n = 1 + self.d.weighted(&[6, 2, 1]);
        let mut cs = Vec::new();
        for _ in 0..n {
            self.budget -= 1;
            let id = self.id();
            let body = self.body();
            let is_line = self.d.bool();
            let text = if is_line {
                self.feat.line_comment = true;
                format!("//c{id} {body}").trim_end().to_string()
            } else if self.d.chance(1, 12) {
                self.feat.ml_comment = true;
                let tail = *self.d.pick(&["*/", "  y */", " 日本 */", "\n */"]);
                format!("/*c{id} {body}\n{tail}")
                    .lines()
                    .map(|l| l.trim_end())
                    .collect::<Vec<_>>()
                    .join("\n")
            } else {
                self.feat.block_comment = true;
                format!("/*c{id} {body}*/")
            };
            let anchor = if self.flavour == Flavour::Emitter {
                Some((id, 1 + id % 5))
            } else {
                None
            };
            self.events.push(Ev::Atom {
                text: text.clone(),
                kind: AtomKind::Comment,
                anchor,
                after: After::Nothing,
            });
            cs.push(CommentDoc {
                text: Rc::<str>::from(text.as_str()),
                leading_newlines: self.d.weighted(&[5, 3, 1, 1]) as u32,
                is_line_comment: is_line,
                src_line: anchor.map(|a| a.0).unwrap_or(0),
                src_column: anchor.map(|a| a.1).unwrap_or(0),
            });
        }
        let mut node = doc::comments(cs);
        if self.d.chance(1, 4) {
            self.feat.indented_comment = true;
            node = doc::indent_by(1, node);
        }
        out.push(node);
    }

    fn witness(&mut self, out: &mut Vec<Doc>, cont: usize) {
        let sep: &'static str = if self.d.bool() { " " } else { "" };
        self.token(out, "<w", "");
        // the witness tokens never carry outer blanks: undo the decoration
        self.fix_plain(out);
        self.set_after(After::Witness { cont, sep });
        out.push(if sep.is_empty() { doc::softline() } else { doc::line() });
        self.token(out, "w", ">");
        self.fix_plain(out);
    }

    /// Strip the optional outer blanks of the last token (probes measure the
    /// exact gap between two atoms).
    fn fix_plain(&mut self, out: &mut [Doc]) {
        if let Some(Ev::Atom { text, kind: AtomKind::Text, .. }) = self.events.last_mut() {
            let t = text.trim_matches(' ').to_string();
            if t != *text {
                *text = t.clone();
                if let Some(last) = out.last_mut() {
                    *last = doc::text(t);
                }
            }
        }
    }

    fn new_cont(&mut self, kind: ContKind) -> usize {
        self.conts.push(Cont { kind, broken: None });
        self.conts.len() - 1
    }

    /// A region (group / force-flat / root) body: `n` steps with a witness at a
    /// generated position.
    fn region_body(&mut self, depth: usize, cont: usize, n: usize) -> Doc {
        let mut out = Vec::new();
        let wpos = self.d.below_usize(n + 1);
        for i in 0..=n {
            if i == wpos {
                self.witness(&mut out, cont);
            }
            if i < n {
                self.step(&mut out, depth, cont);
            }
        }
        doc::concat(out)
    }

    fn plain_body(&mut self, depth: usize, cont: usize, n: usize, out: &mut Vec<Doc>) {
        for _ in 0..n {
            self.step(out, depth, cont);
        }
    }

    fn steps(&mut self) -> usize {
        if self.budget <= 0 {
            0
        } else {
            self.d.usize_in(0, 5)
        }
    }

    fn step(&mut self, out: &mut Vec<Doc>, depth: usize, cont: usize) {
        self.feat.depth = self.feat.depth.max(depth);
        let nest_ok = depth < self.max_depth && self.budget > 0;
        let w_nest = if nest_ok { 5 } else { 0 };
        let fmt = self.flavour == Flavour::Formatter;
        let k = self.d.weighted(&[
            10,                       // 0 token (+pad) (+comments)
            3,                        // 1 blanks
            5,                        // 2 free line / softline
            3,                        // 3 hardline
            3,                        // 4 witness
            w_nest * 2,               // 5 group
            w_nest,                   // 6 nest
            w_nest,                   // 7 indent block + dedent hardline
            w_nest / 2,               // 8 force_flat
            if fmt { 4 } else { 0 },  // 9 break-only text
            3,                        // 10 break-only pad probe
        ]);
        match k {
            0 => {
                self.token(out, "T", ".");
                // aligner padding after the token
                match self.d.weighted(&[6, 1, 1, 1]) {
                    1 => {
                        self.feat.pad = true;
                        out.push(doc::pad(self.d.range(1, 6) as u32));
                    }
                    2 => {
                        // unprobed break-only pad
                        out.push(doc::if_break_pad(self.d.range(1, 6) as u32));
                    }
                    3 => {
                        self.feat.if_flat_pad = true;
                        out.push(doc::if_flat_pad(self.d.range(1, 6) as u32));
                    }
                    _ => {}
                }
                if self.d.chance(1, 4) {
                    self.comments(out);
                }
            }
            1 => out.push(doc::space(self.d.usize_in(1, 4))),
            2 => out.push(if self.d.bool() { doc::line() } else { doc::softline() }),
            3 => out.push(doc::hard()),
            4 => self.witness(out, cont),
            5 => {
                let c = self.new_cont(ContKind::Group);
                let n = self.steps();
                let inner = self.region_body(depth + 1, c, n);
                // `group_nest`: group(nest(..)) is the common shape
                let inner = if self.d.chance(1, 3) { doc::indent_by(1, inner) } else { inner };
                out.push(doc::group(inner));
            }
            6 => {
                let n = self.steps();
                let mut inner = Vec::new();
                self.plain_body(depth + 1, cont, n, &mut inner);
                out.push(doc::indent_by(1, doc::concat(inner)));
            }
            7 => {
                // newline_push .. newline_pop
                let n = self.steps();
                let mut inner = vec![doc::hard()];
                self.plain_body(depth + 1, cont, n, &mut inner);
                out.push(doc::indent_by(1, doc::concat(inner)));
                if fmt {
                    out.push(doc::hard());
                } else {
                    self.feat.dedent_hardline = true;
                    out.push(Doc::DedentHardline(self.d.range(1, 4) as u32));
                }
            }
            8 => {
                self.feat.force_flat = true;
                let c = self.new_cont(ContKind::ForceFlat);
                let n = self.steps();
                let inner = self.region_body(depth + 1, c, n);
                out.push(doc::force_flat(inner));
            }
            9 => {
                self.feat.if_break = true;
                self.budget -= 1;
                let id = self.id();
                let text = format!("b{id},");
                self.events.push(Ev::IfBreak { text: text.clone(), cont });
                out.push(doc::if_break(text));
                if self.d.chance(1, 4) {
                    self.comments(out);
                }
            }
            _ => {
                self.feat.break_pad = true;
                let width = self.d.range(1, 6) as u32;
                self.token(out, "P", "");
                self.fix_plain(out);
                self.set_after(After::BreakPad { cont, width });
                out.push(doc::if_break_pad(width));
                self.token(out, "p", ":");
                self.fix_plain(out);
            }
        }
    }
}

struct Case {
    doc: Doc,
    opts: RenderOpts,
    flavour: Flavour,
    events: Vec<Ev>,
    conts: Vec<Cont>,
    feat: Feat,
}

fn gen_case(d: &mut Draw, thorough: bool) -> Case {
    let flavour = if d.bool() { Flavour::Formatter } else { Flavour::Emitter };
    let opts = RenderOpts {
        max_width: match d.weighted(&[8, 2, 1, 1]) {
            0 => d.usize_in(0, 60),
            1 => d.usize_in(61, 140),
            2 => 0,
            _ => 100_000,
        },
        indent_width: match d.weighted(&[3, 3, 2]) {
            0 => 4,
            1 => 2,
            _ => d.usize_in(0, 8),
        },
        newline: if d.chance(1, 4) { "\r\n" } else { "\n" },
        // formatter: true, emitter: false; the other combination less often
        strip_trailing_whitespace: (flavour == Flavour::Formatter) != d.chance(1, 5),
    };
    let mut g = Gen {
        flavour,
        next_id: 0,
        budget: if thorough { d.range(4, 120) as i32 } else { d.range(4, 50) as i32 },
        max_depth: if thorough { 8 } else { d.usize_in(2, 8) },
        events: Vec::new(),
        conts: vec![Cont { kind: ContKind::Root, broken: None }],
        feat: Feat::default(),
        d,
    };
    let n = g.d.usize_in(1, 8);
    let doc = g.region_body(0, 0, n);
    Case { doc, opts, flavour, events: g.events, conts: g.conts, feat: g.feat }
}

/// Hand-written documents (reproducers): a small JSON notation.
/// `{"t":"text","s":..}` `{"t":"anch","s":..,"l":..,"c":..}` `{"t":"line","sep":" "|""}`
/// `{"t":"hard"}` `{"t":"dedent","n":..}` `{"t":"pad","n":..}` `{"t":"group"|"indent"|"ff","d":[..]}`
/// `{"t":"comments","cs":[{"s":..,"nl":..,"line":bool,"l":..,"c":..}]}`
fn explicit_doc(v: &serde_json::Value, events: &mut Vec<Ev>) -> Doc {
    let list = |v: &serde_json::Value, events: &mut Vec<Ev>| -> Doc {
        doc::concat(v.as_array().map(|a| a.iter().map(|x| explicit_doc(x, events)).collect()).unwrap_or_default())
    };
    if v.is_array() {
        return list(v, events);
    }
    let s = |k: &str| v.get(k).and_then(|x| x.as_str()).unwrap_or("").to_string();
    let n = |k: &str| v.get(k).and_then(|x| x.as_u64()).unwrap_or(0) as u32;
    match s("t").as_str() {
        "text" => {
            events.push(Ev::Atom { text: s("s"), kind: AtomKind::Text, anchor: None, after: After::Nothing });
            doc::text(s("s"))
        }
        "anch" => {
            events.push(Ev::Atom { text: s("s"), kind: AtomKind::Anchored, anchor: Some((n("l"), n("c"))), after: After::Nothing });
            doc::anchored(s("s"), n("l"), n("c"))
        }
        "line" => {
            if s("sep").is_empty() { doc::softline() } else { doc::line() }
        }
        "hard" => doc::hard(),
        "dedent" => Doc::DedentHardline(n("n")),
        "pad" => doc::pad(n("n")),
        "group" => doc::group(list(&v["d"], events)),
        "indent" => doc::indent_by(1, list(&v["d"], events)),
        "ff" => doc::force_flat(list(&v["d"], events)),
        "comments" => {
            let mut cs = vec![];
            for c in v["cs"].as_array().cloned().unwrap_or_default() {
                let text = c["s"].as_str().unwrap_or("").to_string();
                let (l, col) = (c["l"].as_u64().unwrap_or(0) as u32, c["c"].as_u64().unwrap_or(0) as u32);
                events.push(Ev::Atom {
                    text: text.clone(),
                    kind: AtomKind::Comment,
                    anchor: if l != 0 && col != 0 { Some((l, col)) } else { None },
                    after: After::Nothing,
                });
                cs.push(CommentDoc {
                    text: Rc::<str>::from(text.as_str()),
                    leading_newlines: c["nl"].as_u64().unwrap_or(0) as u32,
                    is_line_comment: c["line"].as_bool().unwrap_or(false),
                    src_line: l,
                    src_column: col,
                });
            }
            doc::comments(cs)
        }
        _ => Doc::Nil,
    }
}

fn explicit_case(p: &serde_json::Value) -> Case {
    let o = &p["opts"];
    let opts = RenderOpts {
        max_width: o["max_width"].as_u64().unwrap_or(120) as usize,
        indent_width: o["indent_width"].as_u64().unwrap_or(4) as usize,
        newline: if o["newline"].as_str() == Some("\r\n") { "\r\n" } else { "\n" },
        strip_trailing_whitespace: o["strip"].as_bool().unwrap_or(false),
    };
    let mut events = vec![];
    let doc = explicit_doc(&p["doc"], &mut events);
    Case { doc, opts, flavour: Flavour::Emitter, events, conts: vec![Cont { kind: ContKind::Root, broken: None }], feat: Feat::default() }
}

fn is_ws(b: u8) -> bool {
    matches!(b, b' ' | b'\t' | b'\r' | b'\n')
}

struct Located {
    /// per event: byte offset of the atom's first non-blank character (None: absent break-only text / blank atom)
    start: Vec<Option<usize>>,
    end: Vec<Option<usize>>,
}

/// (a): the output is the leaves in order.
fn scan(out: &str, events: &[Ev]) -> Result<Located, (String, String)> {
    let b = out.as_bytes();
    let mut cur = 0usize;
    let mut start = vec![None; events.len()];
    let mut end = vec![None; events.len()];
    for (i, ev) in events.iter().enumerate() {
        while cur < b.len() && is_ws(b[cur]) {
            cur += 1;
        }
        match ev {
            Ev::Atom { text, kind, .. } => {
                let core = text.trim();
                if core.is_empty() {
                    continue;
                }
                if out[cur..].starts_with(core) {
                    start[i] = Some(cur);
                    cur += core.len();
                    end[i] = Some(cur);
                } else {
                    let here: String = out[cur..].chars().take(30).collect();
                    let (sig, why) = if !out.contains(core) {
                        (format!("content:dropped-{}", kind.name()), "does not occur in the output at all")
                    } else if out[..cur].contains(core) {
                        (format!("content:reordered-{}", kind.name()), "was written earlier than its place in the document")
                    } else {
                        (format!("content:unexpected-before-{}", kind.name()), "occurs only later: something else was written in its place")
                    };
                    return Err((sig, format!("leaf #{i} {core:?} expected at byte {cur} (output continues {here:?}) — it {why}")));
                }
            }
            Ev::IfBreak { text, .. } => {
                if out[cur..].starts_with(text.as_str()) {
                    start[i] = Some(cur);
                    cur += text.len();
                    end[i] = Some(cur);
                }
            }
        }
    }
    while cur < b.len() && is_ws(b[cur]) {
        cur += 1;
    }
    if cur < b.len() {
        let here: String = out[cur..].chars().take(40).collect();
        return Err(("content:invented".into(), format!("after the last leaf the output still has {here:?} at byte {cur}")));
    }
    Ok(Located { start, end })
}

fn locate(out: &str, pos: usize) -> (u32, u32, usize) {
    let before = &out[..pos];
    let line = before.bytes().filter(|c| *c == b'\n').count() as u32 + 1;
    let ls = before.rfind('\n').map(|p| p + 1).unwrap_or(0);
    let col = out[ls..pos].chars().count() as u32 + 1;
    (line, col, ls)
}

struct Verdict {
    broken_groups: usize,
    flat_groups: usize,
    ifbreak_present: usize,
    ifbreak_absent: usize,
    anchors: usize,
    known: Option<(String, String)>,
}

fn decide(case: &mut Case, out: &str, anchors: Option<&[veryl_pretty::render::RenderedAnchor]>) -> Result<Verdict, (String, String)> {
    let ev = &case.events;
    let loc = scan(out, ev)?;

    // next located atom after event i
    let next_atom = |i: usize| -> Option<usize> {
        (i + 1..ev.len()).find(|j| matches!(ev[*j], Ev::Atom { .. }))
    };

    // (b) witnesses decide which regions broke
    for (i, e) in ev.iter().enumerate() {
        let Ev::Atom { after: After::Witness { cont, sep }, .. } = e else { continue };
        let j = next_atom(i).expect("witness has a second atom");
        let (Some(a), Some(bs)) = (loc.end[i], loc.start[j]) else { continue };
        let gap = &out[a..bs];
        let broke = if gap.contains('\n') {
            true
        } else if gap == *sep {
            false
        } else {
            return Err(("witness:garbled".into(), format!("a Line({sep:?}) between two texts rendered as {gap:?}: neither its flat form nor a newline")));
        };
        match case.conts[*cont].broken {
            None => case.conts[*cont].broken = Some(broke),
            Some(prev) if prev != broke => {
                return Err((
                    "witness:disagree".into(),
                    format!("two Lines directly inside one {:?} region rendered differently (one as newline, one flat)", case.conts[*cont].kind),
                ));
            }
            _ => {}
        }
    }
    let mut v = Verdict { broken_groups: 0, flat_groups: 0, ifbreak_present: 0, ifbreak_absent: 0, anchors: 0, known: None };
    for c in &case.conts {
        if c.kind == ContKind::Group {
            match c.broken {
                Some(true) => v.broken_groups += 1,
                Some(false) => v.flat_groups += 1,
                None => {}
            }
        }
    }
    for (i, e) in ev.iter().enumerate() {
        match e {
            Ev::IfBreak { text, cont } => {
                let Some(broken) = case.conts[*cont].broken else { continue };
                let present = loc.start[i].is_some();
                if present {
                    v.ifbreak_present += 1;
                } else {
                    v.ifbreak_absent += 1;
                }
                if present != broken {
                    let kind = case.conts[*cont].kind;
                    return Err(if present {
                        ("ifbreak:present-in-flat-region".into(), format!("break-only text {text:?} was written although the Line in the same {kind:?} region rendered flat"))
                    } else {
                        ("ifbreak:absent-in-broken-region".into(), format!("break-only text {text:?} is missing although the Line in the same {kind:?} region rendered as a newline"))
                    });
                }
            }
            Ev::Atom { after: After::BreakPad { cont, width }, text, .. } => {
                let Some(broken) = case.conts[*cont].broken else { continue };
                let j = next_atom(i).expect("pad probe has a second atom");
                let (Some(a), Some(bs)) = (loc.end[i], loc.start[j]) else { continue };
                let gap = &out[a..bs];
                let want = if broken { " ".repeat(*width as usize) } else { String::new() };
                if gap != want {
                    return Err((
                        if broken { "ifbreakpad:absent-in-broken-region" } else { "ifbreakpad:present-in-flat-region" }.into(),
                        format!("break-only pad of {width} after {text:?}: region broken={broken}, but the gap to the next text is {gap:?}"),
                    ));
                }
            }
            _ => {}
        }
    }

    // (c) anchors
    if let Some(anchors) = anchors {
        let expected: Vec<usize> = ev
            .iter()
            .enumerate()
            .filter(|(_, e)| matches!(e, Ev::Atom { anchor: Some(_), .. }))
            .map(|(i, _)| i)
            .collect();
        if anchors.len() != expected.len() {
            return Err(("anchor:count".into(), format!("{} anchors recorded for {} anchored leaves", anchors.len(), expected.len())));
        }
        v.anchors = anchors.len();
        let mut first_other: Option<(String, String)> = None;
        for (a, &i) in anchors.iter().zip(expected.iter()) {
            let Ev::Atom { text, anchor: Some((sl, sc)), kind, .. } = &ev[i] else { unreachable!() };
            if a.text.as_ref() != text.as_str() || a.src_line != *sl || a.src_column != *sc {
                return Err(("anchor:identity".into(), format!("anchor #{i}: recorded ({:?}, src {}:{}) but the {}-th anchored leaf is ({text:?}, src {sl}:{sc})", a.text, a.src_line, a.src_column, i)));
            }
            let pos = loc.start[i].expect("anchored leaf located");
            let (line, col, ls) = locate(out, pos);
            if a.dst_line != line {
                first_other.get_or_insert((
                    format!("anchor:line-{}", kind.name()),
                    format!("{} {text:?}: anchor says line {} but the text starts on line {line} (column {col})", kind.name(), a.dst_line),
                ));
                continue;
            }
            if a.dst_column != col {
                // the listed root cause: a block comment containing a newline ends on this line
                let ml = ev.iter().enumerate().find(|(j, e)| {
                    matches!(e, Ev::Atom { kind: AtomKind::Comment, text, .. } if text.contains('\n') && !text.starts_with("//"))
                        && matches!((loc.start[*j], loc.end[*j]), (Some(s), Some(en)) if s < ls && ls <= en && en <= pos)
                });
                let msg = format!(
                    "{} {text:?}: anchor says {}:{} but the text starts at {line}:{col} (character column)",
                    kind.name(),
                    a.dst_line,
                    a.dst_column
                );
                if let Some((j, _)) = ml {
                    let tail_chars = out[ls..loc.end[j].unwrap()].chars().count() as u32;
                    if a.dst_column + tail_chars == col {
                        v.known.get_or_insert((SIG_ML_COMMENT.into(), format!("{msg}; a block comment containing a newline ends on that line and the renderer restarted the column count at 0 after it")));
                        continue;
                    }
                }
                first_other.get_or_insert((format!("anchor:column-{}", kind.name()), msg));
            }
        }
        if let Some(f) = first_other {
            return Err(f);
        }
    }
    Ok(v)
}

fn describe(case: &Case, out: &str) -> String {
    format!(
        "flavour={:?} opts={{max_width:{}, indent_width:{}, newline:{:?}, strip:{}}}\n--- doc ---\n{:?}\n--- rendered ---\n{}",
        case.flavour, case.opts.max_width, case.opts.indent_width, case.opts.newline, case.opts.strip_trailing_whitespace, case.doc, out
    )
}

fn evaluate(mut case: Case) -> Outcome {
    let rendered = render_with_anchors(&case.doc, &case.opts);
    // `render` (the formatter's entry point) must give the same text
    let plain = render(&case.doc, &case.opts);
    if plain != rendered.text {
        return Outcome::fail(
            "render-vs-render_with_anchors",
            "render() and render_with_anchors() produced different text",
            json!({"case": describe(&case, &rendered.text), "render": plain}),
        );
    }
    let out = rendered.text.clone();
    match decide(&mut case, &out, Some(&rendered.anchors)) {
        Err((sig, msg)) => Outcome::fail(
            sig,
            msg,
            json!({"case": describe(&case, &out), "anchors": rendered.anchors.iter().map(|a| json!([a.text.as_ref(), a.dst_line, a.dst_column])).collect::<Vec<_>>()}),
        ),
        Ok(v) => {
            if let Some((sig, msg)) = v.known {
                return Outcome::fail(sig, msg, json!({"case": describe(&case, &out)}));
            }
            let f = &case.feat;
            let mut classes: Vec<String> = vec![format!("flavour_{:?}", case.flavour).to_lowercase()];
            let mut flag = |on: bool, name: &str| {
                if on {
                    classes.push(name.to_string());
                }
            };
            flag(v.broken_groups > 0, "group_broken");
            flag(v.flat_groups > 0, "group_flat");
            flag(v.ifbreak_present > 0, "ifbreak_present");
            flag(v.ifbreak_absent > 0, "ifbreak_absent");
            flag(v.anchors > 0, "anchors");
            flag(v.anchors > 0 && f.multibyte, "anchors_with_multibyte_text");
            flag(f.line_comment, "line_comment");
            flag(f.block_comment, "block_comment");
            flag(f.ml_comment, "multiline_block_comment");
            flag(f.ml_token, "multiline_token");
            flag(f.dedent_hardline, "dedent_hardline");
            flag(f.force_flat, "force_flat");
            flag(f.pad, "pad");
            flag(f.if_flat_pad, "if_flat_pad");
            flag(f.break_pad, "if_break_pad_probe");
            flag(f.indented_comment, "comment_under_indent");
            flag(f.depth >= 4, "depth_ge_4");
            flag(case.opts.newline == "\r\n", "crlf");
            flag(case.opts.strip_trailing_whitespace, "strip_trailing_ws");
            flag(case.opts.strip_trailing_whitespace && v.anchors > 0, "strip_with_anchors");
            flag(matches!(case.conts[0].broken, Some(true)), "root_broken");
            let nt = v.broken_groups > 0 && v.flat_groups > 0;
            Outcome::pass(hash_str(&describe(&case, &out)), nt, classes, describe(&case, &out))
        }
    }
}

pub fn run(ctx: &Ctx) {
    let thorough = !ctx.is_quick();
    let n = ctx.scale(1_500_000, 40_000_000);
    // reproducers of listed findings / hand-written documents
    ctx.run_payloads("explicit", |p| evaluate(explicit_case(p)));

    ctx.run("doc", CaseCfg::cases(n).choices(1500).same_thread().shrink_iters(20_000), |d: &mut Draw| {
        evaluate(gen_case(d, thorough))
    });

    ctx.assume("a ForceFlat region counts as a (flat) group of its own: break-only text directly inside it belongs to it, not to the group around it");
    ctx.assume("a region is 'broken' iff a Line directly inside it rendered as a newline; every generated region carries such a witness Line between two plain texts");
    ctx.assume("anchor columns are 1-based character columns (render.rs counts chars), lines are 1 + number of '\\n' before the text");
    ctx.assume("documents are restricted to what the emitter/formatter helpers build: Indent only by +1, Line only as line()/softline(), Nil only as a whole child, DedentHardline only after an indent block (emitter), break-only text only in formatter documents, anchors only in emitter documents, comment text without trailing blanks, line comments on one line");
    ctx.finish(
        "exploration",
        "Doc trees built like the emitter/formatter buffers build them (all 15 node kinds, nesting <= 8, unique atom texts incl. multi-byte and multi-line ones) x RenderOpts (max_width 0..140 and unbounded, indent 0..8, LF/CRLF, strip on/off); non-trivial = at least one Group whose witness Line broke and one whose witness stayed flat; distinct by hash of document + options",
    );
}
