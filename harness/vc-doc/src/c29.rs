//! C29 — the cache store behaves like a versioned key-value map.
//!
//! Stateful, model-based: a generated history of *sessions* the way the two
//! real callers drive the store — `veryl` (open, one build, `save` only if
//! the build succeeded, drop) and `veryl-ls` (`try_open`, several builds, each
//! saved, drop) — is interpreted against the real `Store` in a scratch
//! directory and against a plain in-memory model (last saved key + map of
//! entries with their blob bytes).  A build is: per file `keep` (cache hit on a
//! fragment of the opened manifest) or `put` (with / without blob), then any
//! `set_dependents` / `set_tests` / `set_diagnostics` / `invalidate`, then
//! `save`.  Between sessions the key may change and the manifest may be
//! damaged (garbage, truncated, deleted, other schema number).
//!
//! Invariants:
//!  * after every open: `entry()` of every path of the universe is exactly the
//!    model's entry of the last successful save when key and schema match
//!    (hash, dependents, tests, presence of fragment / diagnostics) and
//!    `load` / `load_diagnostics` return the saved bytes; otherwise no entry;
//!  * after every `save`: the same through the live store, and every
//!    `fragment = ` / `diagnostics = ` path in the manifest *file on disk* is
//!    an existing blob with a valid header (also on the identical-re-scan path
//!    where the write is skipped).

use std::collections::BTreeMap;
use std::path::Path;
use vcore::util::Scratch;
use vcore::{CaseCfg, Ctx, Draw, Outcome, hash_str, json};
use veryl_cache::{FileEntry, Store, content_hash, global_key};

const PATHS: &[&str] = &[
    "src/a.veryl",
    "src/b.veryl",
    "/abs/dir with space/c.veryl",
    "src/日本/d.veryl",
    "dep/x.y/e\"q'.veryl",
    "src\\win\\f.veryl",
    "g",
];
const NEVER: &str = "src/never.veryl";
const TESTS: &[&str] = &["test_a", "test_b", "t3", "tëst"];

fn blob_pool() -> Vec<Vec<u8>> {
    vec![
        b"A".to_vec(),
        Vec::new(),
        b"VFRG\x02\x00\x00\x00nested-header".to_vec(),
        (0..700u32).map(|i| (i * 7 + 3) as u8).collect(),
        b"fragment-\xff\xfe\x00-bytes".to_vec(),
        b"B".to_vec(),
    ]
}

#[derive(Clone, Debug, PartialEq, Eq)]
enum Diag {
    None,
    Some(usize),
    /// `invalidate` after `set_diagnostics`: the doc comment only promises that
    /// dependents / tests stay and the fragment goes; the diagnostics blob may
    /// stay (if it does, it must still be this one).
    Unspecified(usize),
}

#[derive(Clone, Debug, PartialEq, Eq)]
struct MEntry {
    hash: String,
    frag: Option<usize>,
    deps: Vec<String>,
    tests: Vec<String>,
    diag: Diag,
}

type Files = BTreeMap<String, MEntry>;

struct Model {
    /// last successfully saved build: (key, entries); `None`: no readable manifest
    disk: Option<(String, Files)>,
    view: Files,
    pending: Files,
    /// how the manifest was damaged last (labels the failure signature)
    damage: Option<&'static str>,
}

struct Run {
    root: std::path::PathBuf,
    store: Option<Store>,
    m: Model,
    pool: Vec<Vec<u8>>,
    log: Vec<String>,
    // coverage
    saves: usize,
    reopens: usize,
    keeps: usize,
    identical: usize,
    skipped_writes: usize,
    feat: BTreeMap<&'static str, bool>,
}

type Fail = (String, String);

fn manifest_ino(root: &Path) -> Option<u64> {
    use std::os::unix::fs::MetadataExt;
    std::fs::metadata(root.join("manifest.toml")).ok().map(|m| m.ino())
}

impl Run {
    fn flag(&mut self, k: &'static str) {
        self.feat.insert(k, true);
    }

    /// entry of `p` through the live store vs the model's entry
    fn compare(&self, when: &str, p: &str, want: Option<&MEntry>) -> Result<(), Fail> {
        let store = self.store.as_ref().unwrap();
        let got: Option<&FileEntry> = store.entry(p);
        match (got, want) {
            (None, None) => Ok(()),
            (Some(e), None) => Err((format!("{when}:entry-unexpected"), format!("{p:?} has an entry {e:?} although the last saved build visible under this key has none for it"))),
            (None, Some(w)) => Err((format!("{when}:entry-missing"), format!("{p:?} has no entry; the last saved build had {w:?}"))),
            (Some(e), Some(w)) => {
                if e.hash != w.hash {
                    return Err((format!("{when}:field-hash"), format!("{p:?}: hash {:?}, saved {:?}", e.hash, w.hash)));
                }
                if e.dependents != w.deps {
                    return Err((format!("{when}:field-dependents"), format!("{p:?}: dependents {:?}, saved {:?}", e.dependents, w.deps)));
                }
                if e.tests != w.tests {
                    return Err((format!("{when}:field-tests"), format!("{p:?}: tests {:?}, saved {:?}", e.tests, w.tests)));
                }
                if e.fragment.is_some() != w.frag.is_some() {
                    return Err((format!("{when}:field-fragment"), format!("{p:?}: fragment {:?}, saved build had fragment={}", e.fragment, w.frag.is_some())));
                }
                if let Some(i) = w.frag {
                    let got = store.load(e);
                    if got.as_deref() != Some(self.pool[i].as_slice()) {
                        return Err((
                            format!("{when}:blob-bytes"),
                            format!("{p:?}: load() gives {:?} but the saved fragment was blob #{i} ({} bytes); file {:?}", got.map(|b| b.len()), self.pool[i].len(), e.fragment),
                        ));
                    }
                }
                let dwant = match w.diag {
                    Diag::None => {
                        if e.diagnostics.is_some() {
                            return Err((format!("{when}:field-diagnostics"), format!("{p:?}: diagnostics {:?}, saved build had none", e.diagnostics)));
                        }
                        None
                    }
                    Diag::Some(i) => {
                        if e.diagnostics.is_none() {
                            return Err((format!("{when}:field-diagnostics"), format!("{p:?}: no diagnostics, saved build had blob #{i}")));
                        }
                        Some(i)
                    }
                    Diag::Unspecified(i) => e.diagnostics.as_ref().map(|_| i),
                };
                if let Some(i) = dwant {
                    let got = store.load_diagnostics(e);
                    if got.as_deref() != Some(self.pool[i].as_slice()) {
                        return Err((
                            format!("{when}:diag-bytes"),
                            format!("{p:?}: load_diagnostics() gives {:?} but the saved diagnostics were blob #{i}; file {:?}", got.map(|b| b.len()), e.diagnostics),
                        ));
                    }
                }
                Ok(())
            }
        }
    }

    fn compare_all(&self, when: &str) -> Result<(), Fail> {
        for p in PATHS.iter().chain([NEVER].iter()) {
            self.compare(when, p, self.m.view.get(*p))?;
        }
        Ok(())
    }

    /// Every blob path named in the manifest file on disk exists and has a valid header.
    fn check_disk_refs(&self) -> Result<usize, Fail> {
        let Ok(text) = std::fs::read_to_string(self.root.join("manifest.toml")) else {
            // no manifest file = a saved build without entries (the reopen checks decide)
            return Ok(0);
        };
        let mut n = 0;
        for line in text.lines() {
            let l = line.trim();
            for key in ["fragment = \"", "diagnostics = \""] {
                if let Some(rest) = l.strip_prefix(key).or_else(|| l.strip_prefix(key.replace('"', "'").as_str())) {
                    let rel = rest.trim_end_matches(['"', '\'']);
                    n += 1;
                    let data = std::fs::read(self.root.join(rel)).map_err(|e| {
                        ("save:referenced-blob-missing".to_string(), format!("the saved manifest references {rel:?} ({}) but the file cannot be read: {e}", key.trim_end_matches(" = \"")))
                    })?;
                    if data.len() < 8 || &data[..4] != b"VFRG" {
                        return Err(("save:referenced-blob-invalid".into(), format!("the saved manifest references {rel:?} but the file has no valid blob header")));
                    }
                }
            }
        }
        Ok(n)
    }

    fn open(&mut self, key: &str, try_open: bool) -> Result<(), Fail> {
        self.store = None; // releases the lock
        self.log.push(format!("{}({key:.8})", if try_open { "try_open" } else { "open" }));
        let s = if try_open {
            match Store::try_open(&self.root, key) {
                Some(s) => s,
                None => return Err(("open:try_open-none".into(), "try_open returned None although no other store holds the lock".into())),
            }
        } else {
            Store::open(&self.root, key)
        };
        self.store = Some(s);
        self.m.pending.clear();
        let matches = matches!(&self.m.disk, Some((k, _)) if k == key);
        self.m.view = if matches { self.m.disk.as_ref().unwrap().1.clone() } else { Files::new() };
        let when = if matches {
            "reopen"
        } else if self.m.disk.is_some() {
            "reopen-other-key"
        } else {
            self.m.damage.unwrap_or("reopen-no-manifest")
        };
        self.compare_all(when)
    }

    fn put(&mut self, p: &str, ver: u32, blob: Option<usize>) {
        let hash = content_hash(format!("{p}|{ver}").as_bytes());
        self.log.push(format!("put({p:?}, v{ver}, {blob:?})"));
        let pool = &self.pool;
        self.store.as_mut().unwrap().put(p.to_string(), hash.clone(), blob.map(|i| pool[i].as_slice()));
        self.m.pending.insert(p.to_string(), MEntry { hash, frag: blob, deps: vec![], tests: vec![], diag: Diag::None });
    }

    fn keep(&mut self, p: &str) {
        self.log.push(format!("keep({p:?})"));
        self.store.as_mut().unwrap().keep(p);
        if let Some(e) = self.m.view.get(p) {
            self.m.pending.insert(p.to_string(), e.clone());
        }
        self.keeps += 1;
    }

    fn invalidate(&mut self, p: &str) {
        self.log.push(format!("invalidate({p:?})"));
        self.store.as_mut().unwrap().invalidate(p);
        if let Some(e) = self.m.pending.get_mut(p) {
            e.frag = None;
            if let Diag::Some(i) = e.diag {
                e.diag = Diag::Unspecified(i);
            }
        }
    }

    fn set_dependents(&mut self, p: &str, deps: Vec<String>) {
        self.log.push(format!("set_dependents({p:?}, {deps:?})"));
        self.store.as_mut().unwrap().set_dependents(p, deps.clone());
        if let Some(e) = self.m.pending.get_mut(p) {
            e.deps = deps;
        }
    }

    fn set_tests(&mut self, p: &str, tests: Vec<String>) {
        self.log.push(format!("set_tests({p:?}, {tests:?})"));
        self.store.as_mut().unwrap().set_tests(p, tests.clone());
        if let Some(e) = self.m.pending.get_mut(p) {
            e.tests = tests;
        }
    }

    fn set_diagnostics(&mut self, p: &str, blob: usize) {
        self.log.push(format!("set_diagnostics({p:?}, #{blob})"));
        let pool = &self.pool;
        self.store.as_mut().unwrap().set_diagnostics(p, &pool[blob]);
        if let Some(e) = self.m.pending.get_mut(p)
            && e.frag.is_some()
        {
            e.diag = Diag::Some(blob);
        }
    }

    fn save(&mut self, key: &str, on_disk_current: bool) -> Result<(), Fail> {
        let identical = on_disk_current && self.m.pending == self.m.view;
        let ino = manifest_ino(&self.root);
        self.log.push(format!("save(){}", if identical { "  // identical re-scan" } else { "" }));
        self.store.as_mut().unwrap().save();
        self.saves += 1;
        if identical {
            self.identical += 1;
            if manifest_ino(&self.root) == ino {
                self.skipped_writes += 1;
            }
        }
        self.m.view = std::mem::take(&mut self.m.pending);
        self.m.disk = Some((key.to_string(), self.m.view.clone()));
        self.m.damage = None;
        self.compare_all("save")?;
        let refs = self.check_disk_refs()?;
        let want: usize = self
            .m
            .view
            .values()
            .map(|e| e.frag.is_some() as usize + matches!(e.diag, Diag::Some(_)) as usize)
            .sum();
        let may: usize = self.m.view.values().filter(|e| matches!(e.diag, Diag::Unspecified(_))).count();
        if refs < want || refs > want + may {
            return Err((
                "save:manifest-on-disk-differs".into(),
                format!("the manifest on disk names {refs} blobs, the build just saved has {want} (+ up to {may} kept diagnostics of invalidated files)"),
            ));
        }
        Ok(())
    }
}

fn subset(d: &mut Draw, xs: &[&str], max: usize) -> Vec<String> {
    let n = d.usize_in(0, max);
    (0..n).map(|_| d.pick(xs).to_string()).collect()
}

/// One build the way `Incremental` / `LsIncremental` drive it.
fn build(d: &mut Draw, r: &mut Run, key: &str, on_disk_current: bool, may_fail: bool) -> Result<bool, Fail> {
    let rescan = !r.m.view.is_empty() && d.chance(1, 3);
    if rescan {
        // unchanged project: every fragment is a hit, files without fragment are re-analysed
        r.flag("rescan_build");
        let view = r.m.view.clone();
        for (p, e) in &view {
            if e.frag.is_some() {
                r.keep(p);
            } else {
                // same source => same hash, still not cacheable
                let hash = e.hash.clone();
                r.log.push(format!("put({p:?}, same hash, None)"));
                r.store.as_mut().unwrap().put(p.clone(), hash.clone(), None);
                r.m.pending.insert(p.clone(), MEntry { hash, frag: None, deps: vec![], tests: vec![], diag: Diag::None });
            }
        }
        // `save` of the callers re-applies the (unchanged) dependency map and tests
        for (p, e) in &view {
            if e.frag.is_none() || d.bool() {
                r.set_dependents(p, e.deps.clone());
                if !e.tests.is_empty() || d.bool() {
                    r.set_tests(p, e.tests.clone());
                }
            }
        }
        if d.chance(1, 6) {
            // ... or one file changed after all
            let p = *d.pick(PATHS);
            let blob = if d.chance(3, 4) { Some(d.below_usize(r.pool.len())) } else { None };
            r.put(p, d.below(4), blob);
        }
    } else {
        let n = d.usize_in(0, PATHS.len());
        let mut order: Vec<&str> = PATHS.to_vec();
        // generated order, each path at most once
        for i in 0..order.len() {
            let j = i + d.below_usize(order.len() - i);
            order.swap(i, j);
        }
        for p in order.into_iter().take(n) {
            let hit = r.m.view.get(p).is_some_and(|e| e.frag.is_some());
            if hit && d.chance(1, 2) {
                r.keep(p);
            } else {
                let blob = if d.chance(3, 4) {
                    // a small pool: the same content under two paths shares one blob
                    Some(if d.chance(1, 2) { d.below_usize(2) } else { d.below_usize(r.pool.len()) })
                } else {
                    None
                };
                if blob.is_some() && r.m.pending.values().any(|e| e.frag == blob) {
                    r.flag("shared_blob");
                }
                r.put(p, d.below(4), blob);
            }
        }
        let k = d.usize_in(0, 6);
        for _ in 0..k {
            let p = *d.pick(PATHS);
            match d.weighted(&[3, 2, 3, 2]) {
                0 => {
                    let deps = subset(d, PATHS, 3);
                    r.set_dependents(p, deps);
                }
                1 => {
                    let t = subset(d, TESTS, 2);
                    r.set_tests(p, t);
                }
                2 => {
                    let b = if d.chance(1, 2) { d.below_usize(2) } else { d.below_usize(r.pool.len()) };
                    if r.m.pending.values().any(|e| e.frag == Some(b)) {
                        r.flag("diag_shares_fragment_blob");
                    }
                    if r.m.pending.get(p).is_some_and(|e| e.frag.is_none()) {
                        r.flag("set_diagnostics_without_fragment");
                    }
                    r.set_diagnostics(p, b);
                }
                _ => {
                    if let Some(e) = r.m.pending.get(p).cloned() {
                        if e.frag.is_some() && r.m.pending.iter().any(|(q, o)| q != p && o.frag == e.frag) {
                            r.flag("invalidate_one_of_shared");
                        }
                        if matches!(e.diag, Diag::Some(_)) {
                            r.flag("invalidate_after_set_diagnostics");
                        }
                        r.flag("invalidate");
                    }
                    r.invalidate(p);
                }
            }
        }
    }
    if may_fail && d.chance(1, 8) {
        r.log.push("// build failed: no save".into());
        r.flag("failed_build");
        return Ok(false);
    }
    r.save(key, on_disk_current)?;
    if d.chance(1, 10) {
        // `save` twice in a row (nothing in progress: an empty build)
        r.flag("save_twice");
        r.save(key, true)?;
    }
    Ok(true)
}

fn tamper(d: &mut Draw, r: &mut Run) {
    let mp = r.root.join("manifest.toml");
    let Ok(text) = std::fs::read_to_string(&mp) else { return };
    match d.below(5) {
        0 => {
            r.log.push("// tamper: manifest replaced by garbage".into());
            let _ = std::fs::write(&mp, b"\x00\xffnot toml [[[");
        }
        1 => {
            r.log.push("// tamper: manifest truncated".into());
            let mut cut = text.len() / 2;
            while !text.is_char_boundary(cut) {
                cut -= 1;
            }
            // a truncated manifest may still parse (as a shorter build): rule that out
            let _ = std::fs::write(&mp, format!("{}\n= = =\n", &text[..cut]));
        }
        2 => {
            r.log.push("// tamper: manifest deleted".into());
            let _ = std::fs::remove_file(&mp);
        }
        3 => {
            r.log.push("// tamper: schema number lowered".into());
            let _ = std::fs::write(&mp, text.replacen(&format!("schema = {}", veryl_cache::SCHEMA_VERSION), "schema = 1", 1));
        }
        _ => {
            r.log.push("// tamper: schema number raised".into());
            let _ = std::fs::write(&mp, text.replacen(&format!("schema = {}", veryl_cache::SCHEMA_VERSION), &format!("schema = {}", veryl_cache::SCHEMA_VERSION + 1), 1));
        }
    }
    r.flag("tamper");
    r.m.disk = None;
    r.m.damage = Some(if r.log.last().is_some_and(|l| l.contains("schema")) { "reopen-other-schema" } else { "reopen-damaged-manifest" });
}

fn history(d: &mut Draw, r: &mut Run, keys: &[String], max_sessions: usize) -> Result<(), Fail> {
    let sessions = d.usize_in(2, max_sessions);
    let mut key = 0usize;
    let mut prev_key: Option<usize> = None;
    for s in 0..sessions {
        if s > 0 {
            if d.chance(1, 5) {
                // configuration / compiler change, or back to an earlier one
                let nk = if let Some(pk) = prev_key.filter(|_| d.bool()) { pk } else { d.below_usize(keys.len()) };
                if nk != key {
                    prev_key = Some(key);
                    key = nk;
                    r.flag("key_change");
                }
            }
            if d.chance(1, 10) {
                tamper(d, r);
            }
            r.reopens += 1;
        }
        let ls = d.chance(1, 3);
        r.open(&keys[key], ls)?;
        let mut current = matches!(&r.m.disk, Some((k, _)) if *k == keys[key]);
        if current && !r.m.view.is_empty() && s > 0 {
            r.flag("reopen_sees_entries");
        }
        let builds = if ls { d.usize_in(1, 3) } else { 1 };
        for _ in 0..builds {
            if build(d, r, &keys[key], current, !ls)? {
                current = true;
            }
        }
        r.log.push("drop".into());
        r.store = None;
    }
    // final reopen: under the last key and under another one
    r.reopens += 1;
    r.open(&keys[key], false)?;
    r.store = None;
    let other = (key + 1) % keys.len();
    r.open(&keys[other], true)?;
    r.store = None;
    r.open(&keys[key], false)?;
    Ok(())
}

pub fn run(ctx: &Ctx) {
    let keys: Vec<String> = (0..3).map(|i| global_key(&["0.20.3", "binary", &format!("cfg{i}")])).collect();
    let n = ctx.scale(5_000, 150_000);
    let max_sessions = ctx.scale(6, 12);
    ctx.run("history", CaseCfg::cases(n).choices(1200).same_thread().shrink_iters(3000), |d: &mut Draw| {
        // one scratch directory per worker thread (creating / removing thousands of
        // directories under one shared parent serialises the workers in the kernel)
        thread_local!(static BASE: (Scratch, std::cell::Cell<u64>) = (Scratch::new("c29"), std::cell::Cell::new(0)));
        let case_dir = BASE.with(|(b, n)| {
            n.set(n.get() + 1);
            b.join(&format!("h{}", n.get()))
        });
        struct Rm(std::path::PathBuf);
        impl Drop for Rm {
            fn drop(&mut self) {
                let _ = std::fs::remove_dir_all(&self.0);
            }
        }
        let _rm = Rm(case_dir.clone());
        let mut r = Run {
            root: case_dir.join("cache"),
            store: None,
            m: Model { disk: None, view: Files::new(), pending: Files::new(), damage: None },
            pool: blob_pool(),
            log: vec![],
            saves: 0,
            reopens: 0,
            keeps: 0,
            identical: 0,
            skipped_writes: 0,
            feat: BTreeMap::new(),
        };
        let res = history(d, &mut r, &keys, max_sessions);
        r.store = None;
        let text = r.log.join("\n");
        match res {
            Err((sig, msg)) => {
                let last = r.log.last().cloned().unwrap_or_default();
                Outcome::fail(sig, format!("after `{last}`: {msg}"), json!({"history": r.log}))
            }
            Ok(()) => {
                let mut classes: Vec<String> = r.feat.keys().map(|k| k.to_string()).collect();
                if r.identical > 0 {
                    classes.push("identical_rescan".into());
                }
                if r.skipped_writes > 0 {
                    classes.push("identical_rescan_write_skipped".into());
                }
                if r.keeps > 0 {
                    classes.push("keep".into());
                }
                if r.saves >= 3 {
                    classes.push("saves_ge_3".into());
                }
                let nt = r.saves > 0 && r.reopens > 0 && (r.keeps > 0 || r.identical > 0);
                Outcome::pass(hash_str(&text), nt, classes, text)
            }
        }
    });

    ctx.assume("sequences are those of the two real callers: a store is dropped before the next one is opened (the lock), the manifest is only damaged while no store is open, a build without save ends the session (veryl), every path is put/kept at most once per build, keep only for cache hits (entry with fragment)");
    ctx.assume("invalidate after set_diagnostics: the doc comment promises fragment gone / dependents and tests kept; whether the diagnostics blob stays is left open (if it stays it must load)");
    ctx.assume("a damaged manifest (garbage / truncated / deleted / other schema number) means: no saved build");
    ctx.finish(
        "exploration",
        "histories of 2..6 sessions (veryl: open, one build, save unless failed, drop; veryl-ls: try_open, 1..3 saved builds, drop) over 7 paths (blanks, quotes, backslashes, multi-byte), 3 keys, a pool of 6 blobs (empty, header-like, shared between paths and between fragment and diagnostics), with rescans of an unchanged project, key changes (and back), manifest damage between sessions; non-trivial = has a save, a reopen and a keep or an identical re-scan; distinct by hash of the operation log",
    );
}
