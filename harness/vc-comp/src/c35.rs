//! C35 — user components see correct values and timing.
//!
//! A harness-defined probe component (`probe.rs`) is registered through the real
//! registration API (`register_static_component`) and, as a second transport,
//! loaded by the simulator's own dlopen path from `libc35probe.so` (the same
//! source built as a cdylib).  A generated `#[test]` module instantiates it next
//! to an RTL module with mirror / capture flip-flops and runs a generated
//! stimulus script through the real testbench machinery.
//!
//! Oracle (reference model in `case.rs`, nothing of /repo is consulted):
//!  1. every value the probe logs for an input at clock hook k equals the value
//!     of the connected expression *before* edge k, and equals what the mirror
//!     flip-flop (same expression, same clock) holds after edge k;
//!  2. an output written at hook k is visible after edge k (not before: the
//!     capture flip-flop clocked by the same edge still sees the old value; not
//!     later: the snapshot taken right after the edge has the new one);
//!  3. payload and X/Z mask of every port value, parameter, method argument and
//!     method return arrive bit-exact (ports: X/Z under 4-state engines;
//!     parameters / method values are two-state by the documented contract).
//! All engine configurations and both transports must give the same log.

use crate::case::{self, Case, Exp, Expectation, Param, Src, Step};
use crate::simrun::{self, Bv, EngineCfg, RunOut};
use c35probe as probe;
use std::collections::BTreeSet;
use std::path::PathBuf;
use std::sync::atomic::{AtomicU64, Ordering};
use vcore::{CaseCfg, Ctx, Draw, Outcome, hash_str, json};

pub fn probe_lib() -> PathBuf {
    let exe = std::env::current_exe().expect("current_exe");
    exe.parent().unwrap().join("libc35probe.so")
}

pub fn register() {
    for (name, vt) in probe::VERYL_COMPONENT_TABLE {
        veryl_simulator::component::loader::register_static_component(name, vt);
    }
}

pub fn all_cfgs() -> Vec<EngineCfg> {
    let mut v = vec![];
    for dlopen in [false, true] {
        for four_state in [false, true] {
            for jit in [false, true] {
                for disable_ff_opt in [false, true] {
                    v.push(EngineCfg {
                        four_state,
                        jit,
                        disable_ff_opt,
                        cc: false,
                        dlopen,
                    });
                }
            }
        }
        v.push(EngineCfg {
            four_state: false,
            jit: true,
            disable_ff_opt: false,
            cc: true,
            dlopen,
        });
    }
    v
}

// ---------------------------------------------------------------------------
// log parsing
// ---------------------------------------------------------------------------

fn parse_words(s: &str) -> Option<Vec<u64>> {
    s.split(',').map(|x| u64::from_str_radix(x, 16).ok()).collect()
}

/// `bits <w> <words> <mask>` or `raw <w> <words>`
fn parse_val(toks: &[&str]) -> Option<(bool, Bv)> {
    match toks {
        ["bits", w, words, mask] => {
            let w: u32 = w.parse().ok()?;
            let (words, mask) = (parse_words(words)?, parse_words(mask)?);
            let n = simrun::nwords(w);
            // the probe prints exactly what the SDK handed over: word count and
            // clean top word are part of the `Value` contract
            if words.len() != n || mask.len() != n {
                return None;
            }
            if (words[n - 1] | mask[n - 1]) & !simrun::top_mask(w) != 0 {
                return None;
            }
            Some((false, Bv::new(w, words, mask)))
        }
        ["raw", w, words] => {
            let w: u32 = w.parse().ok()?;
            let words = parse_words(words)?;
            if words.len() != simrun::nwords(w) {
                return None;
            }
            // keep excess bits visible: compare the words as they are
            let n = words.len();
            if words[n - 1] & !simrun::top_mask(w) != 0 {
                return None;
            }
            Some((true, Bv::new(w, words, vec![])))
        }
        _ => None,
    }
}

/// Strip `[p] cycle N: `.
fn strip(line: &str) -> Option<&str> {
    let rest = line.strip_prefix(&format!("[{}] cycle ", case::INST))?;
    let (_, msg) = rest.split_once(": ")?;
    Some(msg)
}

fn suffix(width: u32, xz: bool) -> String {
    format!(
        "{}{}",
        if width > 64 { "/wide" } else { "/narrow" },
        if xz { "/xz" } else { "" }
    )
}

pub struct Fail {
    pub sig: String,
    pub msg: String,
}

fn fail(sig: impl Into<String>, msg: impl Into<String>) -> Fail {
    Fail {
        sig: sig.into(),
        msg: msg.into(),
    }
}

/// Compare one run with the model.
pub fn check_run(c: &Case, exp: &Expectation, out: &RunOut, interp4: bool) -> Result<(), Fail> {
    if let Err(m) = &out.result {
        let class = if m.contains("panicked") {
            "component-panicked"
        } else if m.contains("returned") && m.contains("bits") {
            "method-return-width"
        } else if m.contains("init_components") {
            "component-load"
        } else {
            "other"
        };
        return Err(fail(format!("test-fails/{class}"), format!("testbench result: {m}")));
    }
    let mut actual: Vec<&str> = vec![];
    for line in out.log.lines() {
        match strip(line) {
            Some(m) => {
                if !(m.starts_with("W ") || m.starts_with("S ")) {
                    actual.push(m);
                }
            }
            None => {
                return Err(fail("log-structure", format!("unexpected output line {line:?}")));
            }
        }
    }
    if actual.len() != exp.log.len() {
        return Err(fail(
            "log-structure",
            format!(
                "{} log lines, model expects {} (hooks fired a different number of times?)\nlog:\n{}",
                actual.len(),
                exp.log.len(),
                out.log
            ),
        ));
    }
    // reads per edge, for the relational mirror check
    let mut reads: Vec<Vec<(bool, Bv)>> = vec![];
    for (n, (a, e)) in actual.iter().zip(&exp.log).enumerate() {
        let toks: Vec<&str> = a.split(' ').collect();
        let bad = |what: &str| fail("log-structure", format!("line {n}: got {a:?}, expected {what}: {e:?}"));
        match e {
            Exp::Init(fs) => {
                if *a != format!("I {}", *fs as u32) {
                    return Err(fail("is-4state-wrong", format!("got {a:?} under four_state={fs}")));
                }
            }
            Exp::ParamBits(i, v) => {
                if toks.len() < 2 || toks[0] != "P" || toks[1] != format!("T{i}") {
                    return Err(bad("param"));
                }
                let Some((_, got)) = parse_val(&toks[2..]) else {
                    return Err(fail("param-malformed", format!("parameter T{i}: {a:?}, expected {}", v.show())));
                };
                if got != *v {
                    let sig = if got.width != v.width && got.resize(v.width.max(got.width)) == v.resize(v.width.max(got.width)) {
                        "param-width-differs"
                    } else {
                        "param-bits-differ"
                    };
                    return Err(fail(
                        format!("{sig}{}", suffix(v.width, false)),
                        format!("parameter T{i}: component got {}, Veryl side gave {}", got.show(), v.show()),
                    ));
                }
            }
            Exp::ParamStr(i, s) => {
                let want = format!("P T{i} str {}", s.escape_default());
                if *a != want {
                    return Err(fail("param-string-differs", format!("got {a:?}, expected {want:?}")));
                }
            }
            Exp::Cycle(k) => {
                if *a != format!("C {k}") {
                    return Err(fail("cycle-count", format!("hook {k}: got {a:?}")));
                }
                reads.push(vec![]);
            }
            Exp::Read {
                j,
                raw,
                width,
                pre,
                post,
            } => {
                if toks.len() < 2 || toks[0] != "R" || toks[1] != j.to_string() {
                    return Err(bad("read"));
                }
                let Some((got_raw, got)) = parse_val(&toks[2..]) else {
                    return Err(fail(
                        format!("read-malformed{}", suffix(*width, false)),
                        format!("input {j}: SDK handed over a malformed value (word count / excess high bits): {a:?}"),
                    ));
                };
                if got_raw != *raw || got.width != *width {
                    return Err(fail("read-width", format!("input {j}: {a:?}, expected width {width} raw={raw}")));
                }
                let view = |v: &Bv| if *raw { v.payload_only() } else { v.clone() };
                if let Some(pre) = pre {
                    let want = view(pre);
                    if got != want {
                        let edge = reads.len();
                        let sig = if post.as_ref().map(&view) == Some(got.clone()) {
                            "read-sees-post-edge-value"
                        } else if got.payload_only() == want.payload_only() {
                            "read-mask-differs"
                        } else {
                            "read-bits-differ"
                        };
                        return Err(fail(
                            format!("{sig}{}", suffix(*width, want.has_xz())),
                            format!(
                                "clock hook {edge}, input {j} ({}): component read {}, pre-edge value is {} (post-edge {})",
                                case::src_expr(&c.ins[*j].src, *j),
                                got.show(),
                                want.show(),
                                post.as_ref().map(|p| view(p).show()).unwrap_or("?".into())
                            ),
                        ));
                    }
                }
                reads.last_mut().unwrap().push((*raw, got));
            }
            Exp::Method(name, nargs) => {
                if *a != format!("M {name} {nargs}") {
                    return Err(fail("method-call-differs", format!("got {a:?}, expected M {name} {nargs}")));
                }
            }
            Exp::ArgBits(i, v) => {
                if toks.len() < 2 || toks[0] != "A" || toks[1] != i.to_string() {
                    return Err(bad("arg"));
                }
                let Some((_, got)) = parse_val(&toks[2..]) else {
                    return Err(fail("method-arg-malformed", format!("argument {i}: {a:?}, expected {}", v.show())));
                };
                if got != *v {
                    let w = v.width.max(got.width);
                    let sig = if got.width != v.width && got.resize(w) == v.resize(w) {
                        "method-arg-width-differs"
                    } else {
                        "method-arg-bits-differ"
                    };
                    return Err(fail(
                        format!("{sig}{}", suffix(v.width, false)),
                        format!("method argument {i}: component got {}, testbench passed {}", got.show(), v.show()),
                    ));
                }
            }
            Exp::ArgStr(i, s) => {
                let want = format!("A {i} str {}", s.escape_default());
                if *a != want {
                    return Err(fail("method-arg-string-differs", format!("got {a:?}, expected {want:?}")));
                }
            }
        }
    }
    if !out.excess.is_empty() {
        return Err(fail(
            "excess-high-bits-stored",
            format!("variables stored with bits above their width: {:?}", out.excess),
        ));
    }
    // snapshots and method returns
    for (name, want, hint) in &exp.vars {
        let Some(Some(got)) = out.snaps.get(name) else {
            return Err(fail("snapshot-missing", format!("variable {name} not found")));
        };
        if got.width != hint.width {
            return Err(fail("snapshot-width", format!("{name}: width {} expected {}", got.width, hint.width)));
        }
        let Some(want) = want else { continue };
        if got != want {
            let sig = match hint.kind {
                "out" | "out-comb" => {
                    if hint.late.as_ref() == Some(got) {
                        "output-visible-late"
                    } else if hint.early.as_ref() == Some(got) {
                        "output-visible-early"
                    } else if got.payload_only() == want.payload_only() {
                        "output-mask-differs"
                    } else {
                        "output-bits-differ"
                    }
                }
                "out-capture" => {
                    if hint.early.as_ref() == Some(got) {
                        "output-visible-before-ff-commit"
                    } else {
                        "capture-ff-differs"
                    }
                }
                "mirror" => "mirror-ff-differs",
                "stim-ff" => "stimulus-ff-differs",
                _ => "method-return-bits-differ",
            };
            return Err(fail(
                format!("{sig}{}", suffix(hint.width, want.has_xz())),
                format!("{name} ({}): DUT side holds {}, model expects {}", hint.kind, got.show(), want.show()),
            ));
        }
    }
    // (1) relational: what the hook read == what the mirror FF captured on that edge
    for (edge, snap) in &exp.edge_snap {
        let rs = &reads[*edge as usize - 1];
        for (j, (raw, got)) in rs.iter().enumerate() {
            let name = format!("y{snap}_m{j}");
            let Some(Some(m)) = out.snaps.get(&name) else { continue };
            // (4-state interpreter: a <= 64-bit flip-flop loses the payload of a
            // partially unknown value — power-on X concatenated with known bits
            // can still get here; known simulator defect, not a component matter)
            if interp4 && m.width <= 64 && m.has_xz() {
                continue;
            }
            let m = if *raw { m.payload_only() } else { m.clone() };
            if *got != m {
                return Err(fail(
                    format!("read-ne-mirror-ff{}", suffix(got.width, m.has_xz())),
                    format!(
                        "edge {edge}, input {j}: component read {}, mirror flip-flop captured {}",
                        got.show(),
                        m.show()
                    ),
                ));
            }
        }
    }
    Ok(())
}

// ---------------------------------------------------------------------------
// one case
// ---------------------------------------------------------------------------

fn wclass(w: u32) -> String {
    match w {
        63 | 64 | 65 | 127 | 128 | 129 => format!("w={w}"),
        1..=32 => "w<=32".into(),
        33..=64 => "w33-64".into(),
        65..=128 => "w65-128".into(),
        _ => "w129-300".into(),
    }
}

fn classes_of(c: &Case) -> BTreeSet<String> {
    let mut s = BTreeSet::new();
    s.insert(if c.xz { "stimulus:4state-xz" } else { "stimulus:2state" }.to_string());
    s.insert(if c.gated { "clock:gated" } else { "clock:plain" }.to_string());
    for i in &c.ins {
        s.insert(format!("in:{}", wclass(i.iw)));
        s.insert(
            match &i.src {
                Src::Plain(case::Base::T) => "src:tb-var",
                Src::Plain(case::Base::S) => "src:ff-via-dut-port",
                Src::Plain(case::Base::L) => "src:ff-storage-local",
                Src::Plain(case::Base::H) => "src:ff-storage-hier-ref",
                Src::Slice(b, ..) if b.is_ff() => "src:slice-of-ff",
                Src::Slice(..) => "src:slice-of-tb-var",
                Src::Cat(_) => "src:concat-expr",
                Src::Not(_) => "src:not-expr",
                Src::Out(_) => "src:component-output-loopback",
            }
            .to_string(),
        );
        s.insert(if i.rd == probe::RD_RAW { "read-api:words" } else { "read-api:value" }.to_string());
    }
    for o in &c.outs {
        s.insert(format!("out:{}", wclass(o.ow)));
        s.insert(
            match o.wr {
                probe::WR_VALUE => "write-api:value",
                probe::WR_RESIZE => "write-api:value-other-width",
                probe::WR_RAW => "write-api:words",
                _ => "write-api:value-unmasked",
            }
            .to_string(),
        );
    }
    for p in &c.params {
        s.insert(
            match p {
                Param::Bits(v) => format!("param:literal:{}", wclass(v.width)),
                Param::Const(v) => format!("param:const:{}", wclass(v.width)),
                Param::Str(_) => "param:string".into(),
            },
        );
    }
    for st in &c.steps {
        match st {
            Step::Echo(case::Arg::Bits(v)) | Step::Echo(case::Arg::Var(v)) => {
                s.insert(format!("method:echo:{}", wclass(v.width)));
            }
            Step::Echo(_) => {}
            Step::Cat(a) => {
                s.insert(format!("method:cat:{}args", a.len()));
            }
            Step::Gen(w, _) => {
                s.insert(format!("method:gen:{}", wclass(*w)));
            }
            Step::Slen(_) => {
                s.insert("method:string-arg".into());
            }
            Step::Clock(n) if *n > 1 => {
                s.insert("clock:multi-edge-next".into());
            }
            _ => {}
        }
    }
    s
}

fn nontrivial(c: &Case, exp: &Expectation) -> bool {
    let wide = c.ins.iter().any(|i| i.iw > 64) || c.outs.iter().any(|o| o.ow > 64);
    // an input that holds two different values at two different edges
    let mut changing = false;
    for j in 0..c.ins.len() {
        let mut seen: Vec<&Bv> = vec![];
        for e in &exp.log {
            if let Exp::Read {
                j: jj, pre: Some(v), ..
            } = e
                && *jj == j
                && !seen.contains(&v)
            {
                seen.push(v);
            }
        }
        changing |= seen.len() >= 2;
    }
    (wide || c.xz) && exp.edges >= 2 && changing
}

pub static SKIPS: AtomicU64 = AtomicU64::new(0);
pub static EXCLUDED: AtomicU64 = AtomicU64::new(0);
pub static T_ANALYZE: AtomicU64 = AtomicU64::new(0);
pub static T_RUN: AtomicU64 = AtomicU64::new(0);
pub static T_CC: AtomicU64 = AtomicU64::new(0);
pub static RUNS: AtomicU64 = AtomicU64::new(0);

pub fn check_case(d: &mut Draw, big: bool, lib: &std::path::Path) -> Outcome {
    let c = case::gen_case(d, big);
    // engine configurations of this case
    let states: &[bool] = if c.xz { &[true] } else { &[false, true] };
    let mut cfgs = vec![];
    for &four_state in states {
        let mut engines = vec![(true, false), (true, true), (false, false), (false, true)];
        if four_state && (c.xz || c.outxz) {
            // EXCLUDED by construction: the 4-state INTERPRETER with partially
            // unknown values.  On it a flip-flop of <= 64 bits stores payload 0 for
            // every bit of a value that has any X/Z bit (simulator defect without
            // any component involved, reproducers /verif/known/C35/ff-xz-interp*.veryl)
            // — the mirror / capture / stimulus flip-flops this check measures with
            // are then wrong themselves.  The 4-state interpreter still runs the
            // cases in which neither the stimulus nor the probe produces X/Z.
            engines.truncate(2);
            EXCLUDED.fetch_add(1, Ordering::Relaxed);
        }
        if !big {
            // two of the (interp/jit x ff-opt) engines per state
            let n = engines.len();
            let a = d.below(n as u32) as usize;
            let b = (a + 1 + d.below(n as u32 - 1) as usize) % n;
            engines = vec![engines[a], engines[b]];
        }
        for (jit, disable_ff_opt) in engines {
            for dlopen in [false, true] {
                cfgs.push(EngineCfg {
                    four_state,
                    jit,
                    disable_ff_opt,
                    cc: false,
                    dlopen,
                });
            }
        }
    }
    if !c.xz && d.chance(1, if big { 10 } else { 40 }) {
        for dlopen in [false, true] {
            cfgs.push(EngineCfg {
                four_state: false,
                jit: true,
                disable_ff_opt: d.bool(),
                cc: true,
                dlopen,
            });
        }
    }
    let r = case::render(&c);
    let input = |extra: serde_json::Value| json!({"veryl": r.code, "detail": extra});
    let t0 = std::time::Instant::now();
    let an = simrun::analyze(&r.code, &[probe::PROBE_NAME]);
    T_ANALYZE.fetch_add(t0.elapsed().as_micros() as u64, Ordering::Relaxed);
    let an = match an {
        Ok(a) => a,
        Err(e) => {
            SKIPS.fetch_add(1, Ordering::Relaxed);
            if std::env::var("C35_DEBUG").is_ok() {
                eprintln!("SKIP {e}\n{}", r.code);
            }
            return Outcome::skip(format!("generator: text rejected by the analyzer ({})", e.chars().take(60).collect::<String>()));
        }
    };
    let mut classes = classes_of(&c);
    let mut logs: Vec<(EngineCfg, String)> = vec![];
    let mut exp2: Option<Expectation> = None;
    for cfg in &cfgs {
        let t0 = std::time::Instant::now();
        let out = simrun::run(&an, case::TOP, cfg, lib, &r.vars);
        if cfg.cc { &T_CC } else { &T_RUN }.fetch_add(t0.elapsed().as_micros() as u64, Ordering::Relaxed);
        let out = match out {
            Ok(o) => o,
            Err(e) => {
                return Outcome::fail(
                    "simulator-build-fails",
                    format!("[{}] {e}", cfg.label()),
                    input(json!({"config": cfg.label()})),
                );
            }
        };
        RUNS.fetch_add(1, Ordering::Relaxed);
        let exp = case::model(&c, cfg.four_state);
        if let Err(f) = check_run(&c, &exp, &out, cfg.four_state && !cfg.jit) {
            return Outcome::fail(
                f.sig,
                format!("[{}] {}", cfg.label(), f.msg),
                input(json!({"config": cfg.label(), "log": out.log})),
            );
        }
        classes.insert(format!(
            "engine:{}",
            cfg.label().replace("-static", "").replace("-dlopen", "")
        ));
        classes.insert(format!("transport:{}", if cfg.dlopen { "native-library-dlopen" } else { "static-registry" }));
        if cfg.four_state
            && exp.vars.iter().any(|(_, v, h)| h.kind == "out" && v.as_ref().is_some_and(|v| v.has_xz()))
        {
            classes.insert("component-drives-xz".into());
        }
        logs.push((cfg.clone(), out.log));
        if exp2.is_none() {
            exp2 = Some(exp);
        }
    }
    // the entry point of `veryl test` (installs the testbench settle filter on top)
    // must show the component the same things
    {
        let cfg = &cfgs[d.below(cfgs.len() as u32) as usize];
        match simrun::run_native(&an, case::TOP, cfg, lib) {
            Err(e) => {
                return Outcome::fail("simulator-build-fails", format!("[{}] {e}", cfg.label()), input(json!({})));
            }
            Ok((res, log)) => {
                RUNS.fetch_add(1, Ordering::Relaxed);
                let (_, l0) = logs.iter().find(|(c0, _)| c0 == cfg).unwrap();
                if res.is_err() || *l0 != log {
                    return Outcome::fail(
                        "run-native-testbench-differs",
                        format!("[{}] run_native_testbench: result {res:?}; component log differs from the run_testbench flow: {}", cfg.label(), *l0 != log),
                        input(json!({"a": l0, "b": log})),
                    );
                }
                classes.insert("flow:run_native_testbench".into());
            }
        }
    }
    // same log on every engine of one state and on both transports
    for (cfg, log) in &logs {
        let (c0, l0) = logs.iter().find(|(c0, _)| c0.four_state == cfg.four_state).unwrap();
        if l0 != log {
            let sig = if c0.dlopen != cfg.dlopen && c0.jit == cfg.jit && c0.disable_ff_opt == cfg.disable_ff_opt && c0.cc == cfg.cc {
                "transport-differs"
            } else {
                "engine-differs"
            };
            return Outcome::fail(
                sig,
                format!("component log differs between {} and {}", c0.label(), cfg.label()),
                input(json!({"a": l0, "b": log})),
            );
        }
    }
    let exp = exp2.unwrap();
    let nt = nontrivial(&c, &exp);
    Outcome::pass(hash_str(&r.code), nt, classes.into_iter().collect(), r.code)
}

// ---------------------------------------------------------------------------
// entry points
// ---------------------------------------------------------------------------

/// `vc-comp C35-exp FILE top snap1,snap2,.. [filter]` — development aid
pub fn experiment(args: &[String]) {
    register();
    let code = std::fs::read_to_string(&args[0]).unwrap();
    let top = args[1].clone();
    let snaps: Vec<String> = args
        .get(2)
        .map(|s| s.split(',').filter(|x| !x.is_empty()).map(|x| x.to_string()).collect())
        .unwrap_or_default();
    let filter = args.get(3).cloned().unwrap_or_default();
    let lib = probe_lib();
    let h = std::thread::Builder::new()
        .stack_size(64 << 20)
        .spawn(move || {
            let an = match simrun::analyze(&code, &[probe::PROBE_NAME]) {
                Ok(a) => a,
                Err(e) => {
                    println!("ANALYZE ERROR: {e}");
                    return;
                }
            };
            for cfg in all_cfgs() {
                if !cfg.label().contains(&filter) {
                    continue;
                }
                println!("=== {}", cfg.label());
                match simrun::run(&an, &top, &cfg, &lib, &snaps) {
                    Err(e) => println!("RUN ERROR: {e}"),
                    Ok(o) => {
                        println!("result: {:?}", o.result);
                        print!("{}", o.log);
                        for (k, v) in &o.snaps {
                            println!("  {k} = {}", v.as_ref().map(|b| b.show()).unwrap_or("<none>".into()));
                        }
                        if !o.excess.is_empty() {
                            println!("  EXCESS: {:?}", o.excess);
                        }
                    }
                }
            }
        })
        .unwrap();
    h.join().unwrap();
}

/// `vc-comp C35-gen <seed words..>`: print a generated case (development aid)
pub fn show_case(args: &[String]) {
    let choices: Vec<u32> = args.iter().filter_map(|a| a.parse().ok()).collect();
    let mut d = Draw::new(choices);
    let c = case::gen_case(&mut d, false);
    println!("{}", case::render(&c).code);
}

pub fn run(ctx: &Ctx) {
    let lib = probe_lib();
    if !lib.exists() {
        println!(
            "INCONCLUSIVE property=C35: {} not found (the cdylib target of vc-comp was not built)",
            lib.display()
        );
        std::process::exit(2);
    }
    register();
    // the cc backend keeps its artifacts in a cache directory: keep it under .work
    let scratch = vcore::util::Scratch::new("c35-aotc");
    // SAFETY: single-threaded at this point
    unsafe {
        std::env::set_var("VERYL_AOT_CACHE_DIR", scratch.join("cache"));
    }
    let big = !ctx.is_quick();
    let n = std::env::var("C35_CASES").ok().and_then(|v| v.parse().ok()).unwrap_or(ctx.scale(800, 30_000));
    let lib2 = lib.clone();
    let threads = std::env::var("C35_THREADS").ok().and_then(|v| v.parse().ok()).unwrap_or(0);
    ctx.run("probe", CaseCfg::cases(n).choices(6000).stack_mb(16).threads(threads).timeout_s(1800), move |d: &mut Draw| {
        check_case(d, big, &lib2)
    });
    // `finish` never returns: remove the cc cache now
    drop(scratch);
    let skips = SKIPS.load(Ordering::Relaxed);
    ctx.note("simulator_runs", json!(RUNS.load(Ordering::Relaxed)));
    ctx.note("generator_rejects", json!(skips));
    ctx.note(
        "cases_without_4state_interpreter_because_of_known_ff_xz_defect",
        json!(EXCLUDED.load(Ordering::Relaxed)),
    );
    if std::env::var("C35_DEBUG").is_ok() {
        eprintln!(
            "thread-time: analyze {} ms, runs {} ms, cc runs {} ms",
            T_ANALYZE.load(Ordering::Relaxed) / 1000,
            T_RUN.load(Ordering::Relaxed) / 1000,
            T_CC.load(Ordering::Relaxed) / 1000
        );
    }
    if !ctx.replay_mode() && skips as usize * 50 > n {
        println!("INCONCLUSIVE property=C35: the analyzer rejected {skips} of {n} generated testbenches (generator out of date)");
        std::process::exit(2);
    }
    ctx.assume("NOT COVERED: the clause 'identical results as a native library or as WebAssembly' — the sandbox has no wasm32 std and no prebuilt .wasm, so the wasm transport (crates/simulator/src/component/wasm.rs, crates/component/src/export/wasm.rs) is never executed; only the two native transports (static registry and dlopen of a cdylib built from the same probe source) are compared");
    ctx.assume("parameters, method arguments and method returns are two-state by the documented contract (host.rs: 'Parameters, method arguments and returns are two-state'); X/Z is generated for ports only, under 4-state engines");
    ctx.assume("power-on values of flip-flops and never-assigned variables are not asserted (the model treats them as unspecified); the relational check 'hook read == mirror flip-flop' still applies to them");
    ctx.assume("observation of the DUT side: zero-time blocking assignments in the testbench `initial` block copy the observed signals into snapshot variables right after each `clk.next()`; these are read with Simulator::get_var after the run");
    ctx.assume("the cc backend is 2-state only (Config::all), so it runs on cases without X/Z stimulus");
    ctx.assume("EXCLUDED by construction (simulator defects found here that involve no component, reproducers under /verif/known/C35/): (a) the 4-state interpreter stores payload 0 for every bit of a <= 64-bit flip-flop whose new value has any X/Z bit (ff-xz-interp.veryl, ff-xz-interp-noffopt.veryl) — cases in which the stimulus or the probe produces X/Z run on the 4-state JIT engines only, the 4-state interpreter runs the others; (b) the 4-state JIT makes the whole result of an operator unknown when a > 128-bit operand has any unknown bit (not-xz-wide-jit.veryl) — the comb observer `b >> 1` behind an output is not asserted in that situation and `~` is applied to fully known operands only");
    ctx.finish(
        "exploration",
        "generated #[test] modules: probe component with 1-5 inputs / 1-4 outputs of width 1..300 (boundary widths 63/64/65/127/128/129/.. favoured), input sources tb variable / flip-flop output / slice / concat / not / loop-back of a component output, 2-8 stimulus blocks of corner-biased values (X/Z masks in 2/5 of the cases), parameters and method calls of width 1..300, run on 2-4 engine configurations per state x both native transports; non-trivial = some port wider than 64 bits or X/Z stimulus, at least 2 clock edges and an input that holds two different values at two edges; distinct by hash of the generated Veryl text",
    );
}
