//! C35 — user components see correct values and timing (work in progress).
use crate::simrun::{self, EngineCfg};
use std::path::PathBuf;
use vcore::Ctx;

pub fn probe_lib() -> PathBuf {
    let exe = std::env::current_exe().expect("current_exe");
    exe.parent().unwrap().join("libc35probe.so")
}

pub fn register() {
    for (name, vt) in c35probe::VERYL_COMPONENT_TABLE {
        veryl_simulator::component::loader::register_static_component(name, vt);
    }
}

pub fn all_cfgs() -> Vec<EngineCfg> {
    let mut v = vec![];
    for dlopen in [false, true] {
        for four_state in [false, true] {
            for jit in [false, true] {
                for disable_ff_opt in [false, true] {
                    v.push(EngineCfg { four_state, jit, disable_ff_opt, cc: false, dlopen });
                }
            }
        }
        v.push(EngineCfg { four_state: false, jit: true, disable_ff_opt: false, cc: true, dlopen });
    }
    v
}

/// `vc-comp C35-exp FILE top snap1,snap2,.. [filter]`
pub fn experiment(args: &[String]) {
    register();
    let code = std::fs::read_to_string(&args[0]).unwrap();
    let top = args[1].clone();
    let snaps: Vec<String> = args.get(2).map(|s| s.split(',').filter(|x| !x.is_empty()).map(|x| x.to_string()).collect()).unwrap_or_default();
    let filter = args.get(3).cloned().unwrap_or_default();
    let lib = probe_lib();
    let h = std::thread::Builder::new().stack_size(64 << 20).spawn(move || {
        let an = match simrun::analyze(&code, &[c35probe::PROBE_NAME]) {
            Ok(a) => a,
            Err(e) => {
                println!("ANALYZE ERROR: {e}");
                return;
            }
        };
        for cfg in all_cfgs() {
            if !cfg.label().contains(&filter) {
                continue;
            }
            println!("=== {}", cfg.label());
            match simrun::run(&an, &top, &cfg, &lib, &snaps) {
                Err(e) => println!("RUN ERROR: {e}"),
                Ok(o) => {
                    println!("result: {:?}", o.result);
                    print!("{}", o.log);
                    for (k, v) in &o.snaps {
                        println!("  {k} = {}", v.as_ref().map(|b| b.show()).unwrap_or("<none>".into()));
                    }
                    if !o.excess.is_empty() {
                        println!("  EXCESS: {:?}", o.excess);
                    }
                }
            }
        }
    }).unwrap();
    h.join().unwrap();
}

pub fn run(_ctx: &Ctx) {
    println!("INCONCLUSIVE property=C35: check not implemented");
    std::process::exit(2);
}
