//! C35 case: generator (from `Draw`), Veryl rendering, and the reference model.

use crate::simrun::Bv;
use c35probe as probe;
use vcore::Draw;

pub const INST: &str = "p";
pub const TOP: &str = "c35_top";

#[derive(Clone, Debug, PartialEq, Eq)]
pub enum Base {
    /// testbench variable `t<j>`: changes between edges
    T,
    /// `s<j>`: output port of a DUT flip-flop registering `t<j>` (changes AT the
    /// edge; reaches the test module through the port connection)
    S,
    /// `l<j>`: flip-flop in the test module itself registering `t<j>`: the
    /// connection reads flip-flop storage directly
    L,
    /// `dut.h<j>`: DUT-internal flip-flop registering `t<j>`, reached by a
    /// hierarchical reference
    H,
}

impl Base {
    pub fn is_ff(&self) -> bool {
        !matches!(self, Base::T)
    }
}

#[derive(Clone, Debug, PartialEq, Eq)]
pub enum Src {
    Plain(Base),
    /// `<base>[lo+n-1:lo]`
    Slice(Base, u32, u32),
    /// `{t<j>, <ff base>}`
    Cat(Base),
    /// `~<base>` (cases without X/Z stimulus only)
    Not(Base),
    /// loop-back of component output `o<k>`
    Out(usize),
}

#[derive(Clone, Debug)]
pub struct InSpec {
    /// width of `t<j>` / `s<j>`
    pub tw: u32,
    pub src: Src,
    /// width of the connection (= of the expression)
    pub iw: u32,
    pub rd: u64,
}

#[derive(Clone, Debug)]
pub struct OutSpec {
    pub ow: u32,
    pub wr: u64,
}

#[derive(Clone, Debug)]
pub enum Arg {
    Bits(Bv),
    /// through a testbench variable of the value's width
    Var(Bv),
    Str(String),
}

#[derive(Clone, Debug)]
pub enum Step {
    Set(usize, Bv),
    /// `en = <0|1>;`
    En(bool),
    Clock(u32),
    Echo(Arg),
    Cat(Vec<Arg>),
    Gen(u32, u64),
    Slen(String),
}

#[derive(Clone, Debug)]
pub enum Param {
    Bits(Bv),
    /// through a module `const` of type `bit<W>`
    Const(Bv),
    Str(String),
}

#[derive(Clone, Debug)]
pub struct Case {
    /// stimulus contains X/Z literals: 4-state engines only
    pub xz: bool,
    /// DUT, local flip-flops and the probe run on `clk & en`
    pub gated: bool,
    /// the probe drives X/Z on its outputs under 4-state engines
    pub outxz: bool,
    pub seed: u64,
    pub ins: Vec<InSpec>,
    pub outs: Vec<OutSpec>,
    pub params: Vec<Param>,
    pub steps: Vec<Step>,
}

// ---------------------------------------------------------------------------
// generator
// ---------------------------------------------------------------------------

const EDGE_W: &[u32] = &[1, 2, 31, 32, 33, 63, 64, 65, 127, 128, 129, 191, 192, 193, 255, 256, 257, 300];

pub fn gen_width(d: &mut Draw, max: u32) -> u32 {
    let w = match d.weighted(&[3, 4, 3, 3]) {
        0 => d.range(1, 16) as u32,
        1 => *d.pick(EDGE_W),
        2 => d.range(1, 64) as u32,
        _ => d.range(65, 300) as u32,
    };
    w.clamp(1, max)
}

/// 2-state corner-biased value
pub fn gen_bits(d: &mut Draw, w: u32) -> Bv {
    Bv::new(w, d.corner_bits(w as usize), vec![])
}

/// value with an X/Z mask (possibly empty)
pub fn gen_bits_xz(d: &mut Draw, w: u32) -> Bv {
    let words = d.corner_bits(w as usize);
    let mask = match d.weighted(&[2, 3, 2, 1, 2]) {
        0 => vec![],
        1 => d.bits(w as usize),
        2 => vec![u64::MAX; w.div_ceil(64) as usize],
        3 => {
            let mut m = vec![0u64; w.div_ceil(64) as usize];
            m[(w as usize - 1) / 64] = 1 << ((w - 1) % 64);
            m
        }
        _ => {
            // a single unknown bit
            let b = d.below(w) as usize;
            let mut m = vec![0u64; w.div_ceil(64) as usize];
            m[b / 64] = 1 << (b % 64);
            m
        }
    };
    Bv::new(w, words, mask)
}

const STR_CH: &[&str] = &[
    "a", "b", "Z", "0", "9", " ", "_", "-", ".", "/", ":", "é", "日", "x", "q",
];

pub fn gen_str(d: &mut Draw) -> String {
    let n = d.usize_in(0, 12);
    (0..n).map(|_| *d.pick(STR_CH)).collect()
}

fn gen_arg(d: &mut Draw) -> Arg {
    match d.weighted(&[4, 4, 1]) {
        0 => {
            let w = gen_width(d, 300);
            Arg::Bits(gen_bits(d, w))
        }
        1 => {
            let w = gen_width(d, 300);
            Arg::Var(gen_bits(d, w))
        }
        _ => Arg::Str(gen_str(d)),
    }
}

pub fn gen_case(d: &mut Draw, big: bool) -> Case {
    let xz = d.chance(2, 5);
    let gated = d.chance(1, 4);
    let outxz = xz || d.chance(2, 3);
    let seed = d.u64();
    let ni = d.usize_in(1, if big { 5 } else { 3 });
    let no = d.usize_in(1, if big { 4 } else { 3 });
    let outs: Vec<OutSpec> = (0..no)
        .map(|_| OutSpec {
            ow: gen_width(d, 300),
            wr: d.below(probe::WR_KINDS as u32) as u64,
        })
        .collect();
    let mut ins = vec![];
    for _ in 0..ni {
        let kind = d.weighted(&[4, 4, 2, 2, 1, 2]);
        let ffbase = |d: &mut Draw| match d.below(3) {
            0 => Base::S,
            1 => Base::L,
            _ => Base::H,
        };
        let base = |d: &mut Draw| if d.chance(1, 4) { Base::T } else { ffbase(d) };
        let (tw, src, iw) = match kind {
            0 => {
                let w = gen_width(d, 300);
                (w, Src::Plain(Base::T), w)
            }
            1 => {
                let w = gen_width(d, 300);
                (w, Src::Plain(ffbase(d)), w)
            }
            2 => {
                let w = gen_width(d, 300).max(2);
                let n = d.range(1, w as i64 - 1) as u32;
                let lo = d.range(0, (w - n) as i64) as u32;
                (w, Src::Slice(base(d), lo, n), n)
            }
            3 => {
                let w = gen_width(d, 150);
                (w, Src::Cat(ffbase(d)), 2 * w)
            }
            4 if !xz => {
                // an operator, not only bit routing: on the testbench variable only,
                // which the script sets before the first edge (`~X` is outside this
                // property: engines normalise it differently)
                let w = gen_width(d, 300);
                (w, Src::Not(Base::T), w)
            }
            4 => {
                let w = gen_width(d, 300);
                (w, Src::Plain(ffbase(d)), w)
            }
            _ => {
                let k = d.below_usize(no);
                (1, Src::Out(k), outs[k].ow)
            }
        };
        ins.push(InSpec {
            tw,
            src,
            iw,
            rd: d.below(probe::RD_KINDS as u32) as u64,
        });
    }
    let np = d.usize_in(0, 3);
    let params = (0..np)
        .map(|_| match d.weighted(&[4, 2, 1]) {
            0 => {
                let w = gen_width(d, 300);
                Param::Bits(gen_bits(d, w))
            }
            1 => {
                let w = gen_width(d, 300);
                Param::Const(gen_bits(d, w))
            }
            _ => Param::Str(gen_str(d)),
        })
        .collect();
    // script
    let mut steps = vec![];
    if gated {
        steps.push(Step::En(d.chance(3, 4)));
    }
    let nblocks = d.usize_in(2, if big { 8 } else { 5 });
    for blk in 0..nblocks {
        for (j, i) in ins.iter().enumerate() {
            if matches!(i.src, Src::Out(_)) {
                continue;
            }
            if d.chance(5, 6) || (blk == 0 && matches!(i.src, Src::Not(_))) {
                let v = if xz { gen_bits_xz(d, i.tw) } else { gen_bits(d, i.tw) };
                steps.push(Step::Set(j, v));
            }
        }
        if d.chance(1, 3) {
            let s = match d.weighted(&[3, 2, 2, 1]) {
                0 => Step::Echo(gen_arg_bits(d)),
                1 => Step::Cat((0..d.usize_in(0, 4)).map(|_| gen_arg(d)).collect()),
                2 => Step::Gen(gen_width(d, 300), d.below(1000) as u64),
                _ => Step::Slen(gen_str(d)),
            };
            steps.push(s);
        }
        if gated && d.chance(1, 3) {
            steps.push(Step::En(d.bool()));
        }
        let n = match d.weighted(&[6, 2, 1]) {
            0 => 1,
            1 => 2,
            _ => 3,
        };
        steps.push(Step::Clock(n));
    }
    Case {
        xz,
        gated,
        outxz,
        seed,
        ins,
        outs,
        params,
        steps,
    }
}

fn gen_arg_bits(d: &mut Draw) -> Arg {
    let w = gen_width(d, 300);
    if d.bool() {
        Arg::Var(gen_bits(d, w))
    } else {
        Arg::Bits(gen_bits(d, w))
    }
}

// ---------------------------------------------------------------------------
// rendering
// ---------------------------------------------------------------------------

pub fn lit(v: &Bv) -> String {
    if v.has_xz() {
        let mut s = String::with_capacity(v.width as usize);
        for i in (0..v.width).rev() {
            s.push(match v.bit(i) {
                (false, false) => '0',
                (true, false) => '1',
                (false, true) => 'x',
                (true, true) => 'z',
            });
        }
        format!("{}'b{s}", v.width)
    } else {
        let nd = v.width.div_ceil(4) as usize;
        let mut s = String::with_capacity(nd);
        for i in (0..nd).rev() {
            let nib = (v.words[i / 16] >> (4 * (i % 16))) & 0xf;
            s.push(char::from_digit(nib as u32, 16).unwrap());
        }
        format!("{}'h{s}", v.width)
    }
}

/// `inside_dut`: the name as seen from inside the DUT module (for `H`)
fn base_name(b: &Base, j: usize, inside_dut: bool) -> String {
    match b {
        Base::T => format!("t{j}"),
        Base::S => format!("s{j}"),
        Base::L => format!("l{j}"),
        Base::H if inside_dut => format!("h{j}"),
        Base::H => format!("dut.h{j}"),
    }
}

pub fn src_expr(s: &Src, j: usize) -> String {
    src_expr_in(s, j, false)
}

fn src_expr_in(s: &Src, j: usize, inside_dut: bool) -> String {
    let bn = |b: &Base| base_name(b, j, inside_dut);
    match s {
        Src::Plain(b) => bn(b),
        Src::Slice(b, lo, n) => format!("{}[{}:{}]", bn(b), lo + n - 1, lo),
        Src::Cat(b) => format!("{{t{j}, {}}}", bn(b)),
        Src::Not(b) => format!("~{}", bn(b)),
        Src::Out(k) => format!("o{k}"),
    }
}

impl Src {
    pub fn base(&self) -> Option<&Base> {
        match self {
            Src::Plain(b) | Src::Slice(b, ..) | Src::Cat(b) | Src::Not(b) => Some(b),
            Src::Out(_) => None,
        }
    }
}

pub struct Rendered {
    pub code: String,
    /// every variable to read back after the run
    pub vars: Vec<String>,
}

/// Signals snapshotted after every `Clock` step (and once at time 0).
pub fn observed(c: &Case) -> Vec<(String, u32)> {
    let mut v = vec![];
    for (j, i) in c.ins.iter().enumerate() {
        v.push((format!("m{j}"), i.iw));
        if !matches!(i.src, Src::Out(_)) {
            v.push((format!("s{j}"), i.tw));
        }
    }
    for (k, o) in c.outs.iter().enumerate() {
        v.push((format!("o{k}"), o.ow));
        v.push((format!("c{k}"), o.ow));
        v.push((format!("x{k}"), o.ow));
    }
    v
}

pub fn render(c: &Case) -> Rendered {
    use std::fmt::Write;
    let mut dut_ports = String::new();
    let mut dut_ff = String::new();
    let mut dut_comb = String::new();
    let mut dut_vars = String::new();
    let mut top_vars = String::new();
    let mut top_ff = String::new();
    let clk = if c.gated { "clk: clk_g" } else { "clk" };
    let mut dut_conn = vec![clk.to_string()];
    let mut comp_conn = vec![clk.to_string()];
    for (j, i) in c.ins.iter().enumerate() {
        let has_t = !matches!(i.src, Src::Out(_));
        if has_t {
            writeln!(dut_ports, "    t{j}: input logic<{}>,\n    s{j}: output logic<{}>,", i.tw, i.tw).unwrap();
            writeln!(dut_ff, "        s{j} = t{j};").unwrap();
            writeln!(top_vars, "    var t{j}: logic<{}>;\n    var s{j}: logic<{}>;", i.tw, i.tw).unwrap();
            dut_conn.push(format!("t{j}"));
            dut_conn.push(format!("s{j}"));
        }
        let e = src_expr(&i.src, j);
        writeln!(top_vars, "    var m{j}: logic<{}>;", i.iw).unwrap();
        match i.src.base() {
            Some(Base::H) => {
                // DUT-internal flip-flop; its mirror evaluates the same expression
                // inside the DUT
                writeln!(dut_vars, "    var h{j}: logic<{}>;", i.tw).unwrap();
                writeln!(dut_ff, "        h{j} = t{j};").unwrap();
                writeln!(dut_ports, "    m{j}: output logic<{}>,", i.iw).unwrap();
                writeln!(dut_ff, "        m{j} = {};", src_expr_in(&i.src, j, true)).unwrap();
            }
            b => {
                if b == Some(&Base::L) {
                    writeln!(top_vars, "    var l{j}: logic<{}>;", i.tw).unwrap();
                    writeln!(top_ff, "        l{j} = t{j};").unwrap();
                }
                writeln!(dut_ports, "    a{j}: input logic<{}>,\n    m{j}: output logic<{}>,", i.iw, i.iw).unwrap();
                writeln!(dut_ff, "        m{j} = a{j};").unwrap();
                dut_conn.push(format!("a{j}: {e}"));
            }
        }
        dut_conn.push(format!("m{j}"));
        comp_conn.push(format!("i{j}: {e}"));
    }
    for (k, o) in c.outs.iter().enumerate() {
        writeln!(
            dut_ports,
            "    b{k}: input logic<{w}>,\n    c{k}: output logic<{w}>,\n    x{k}: output logic<{w}>,",
            w = o.ow
        )
        .unwrap();
        writeln!(dut_ff, "        c{k} = b{k};").unwrap();
        writeln!(dut_comb, "    assign x{k} = b{k} >> 1;").unwrap();
        writeln!(
            top_vars,
            "    var o{k}: logic<{w}>;\n    var c{k}: logic<{w}>;\n    var x{k}: logic<{w}>;",
            w = o.ow
        )
        .unwrap();
        dut_conn.push(format!("b{k}: o{k}"));
        dut_conn.push(format!("c{k}"));
        dut_conn.push(format!("x{k}"));
        comp_conn.push(format!("o{k}"));
    }
    let mut consts = String::new();
    let mut params = vec![
        format!("NI: {}", c.ins.len()),
        format!("NO: {}", c.outs.len()),
        format!("NT: {}", c.params.len()),
        format!("SEED: 64'h{:x}", c.seed),
        format!("XZ: {}", c.outxz as u32),
        format!(
            "RD: 64'h{:x}",
            c.ins.iter().enumerate().fold(0u64, |a, (j, i)| a | i.rd << (4 * j))
        ),
        format!(
            "WR: 64'h{:x}",
            c.outs.iter().enumerate().fold(0u64, |a, (k, o)| a | o.wr << (4 * k))
        ),
    ];
    for (n, p) in c.params.iter().enumerate() {
        match p {
            Param::Bits(v) => params.push(format!("T{n}: {}", lit(v))),
            Param::Const(v) => {
                writeln!(consts, "    const K{n}: bit<{}> = {};", v.width, lit(v)).unwrap();
                params.push(format!("T{n}: K{n}"));
            }
            Param::Str(s) => params.push(format!("T{n}: \"{s}\"")),
        }
    }
    let mut vars: Vec<String> = vec![];
    let mut body = String::new();
    let obs = observed(c);
    let snap = |n: usize, body: &mut String, top_vars: &mut String, vars: &mut Vec<String>| {
        for (sig, w) in &obs {
            writeln!(top_vars, "    var y{n}_{sig}: logic<{w}>;").unwrap();
            writeln!(body, "        y{n}_{sig} = {sig};").unwrap();
            vars.push(format!("y{n}_{sig}"));
        }
    };
    snap(0, &mut body, &mut top_vars, &mut vars);
    let mut nsnap = 0;
    let mut ncall = 0;
    let arg_text = |a: &Arg, ncall: usize, ai: usize, body: &mut String, top_vars: &mut String| -> String {
        match a {
            Arg::Bits(v) => lit(v),
            Arg::Var(v) => {
                writeln!(top_vars, "    var e{ncall}_{ai}: logic<{}>;", v.width).unwrap();
                writeln!(body, "        e{ncall}_{ai} = {};", lit(v)).unwrap();
                format!("e{ncall}_{ai}")
            }
            Arg::Str(s) => format!("\"{s}\""),
        }
    };
    for st in &c.steps {
        match st {
            Step::Set(j, v) => writeln!(body, "        t{j} = {};", lit(v)).unwrap(),
            Step::En(e) => writeln!(body, "        en = {};", *e as u32).unwrap(),
            Step::Clock(n) => {
                if *n == 1 {
                    writeln!(body, "        clk.next();").unwrap();
                } else {
                    writeln!(body, "        clk.next({n});").unwrap();
                }
                nsnap += 1;
                snap(nsnap, &mut body, &mut top_vars, &mut vars);
            }
            Step::Echo(a) => {
                let w = match a {
                    Arg::Bits(v) | Arg::Var(v) => v.width,
                    Arg::Str(_) => 1,
                };
                let t = arg_text(a, ncall, 0, &mut body, &mut top_vars);
                writeln!(top_vars, "    var r{ncall}: logic<{w}>;").unwrap();
                writeln!(body, "        r{ncall} = {INST}.echo({t});").unwrap();
                vars.push(format!("r{ncall}"));
                ncall += 1;
            }
            Step::Cat(args) => {
                let ts: Vec<String> = args
                    .iter()
                    .enumerate()
                    .map(|(ai, a)| arg_text(a, ncall, ai, &mut body, &mut top_vars))
                    .collect();
                writeln!(body, "        {INST}.cat({});", ts.join(", ")).unwrap();
                ncall += 1;
            }
            Step::Gen(w, k) => {
                writeln!(top_vars, "    var r{ncall}: logic<{w}>;").unwrap();
                writeln!(body, "        r{ncall} = {INST}.mk({w}, {k});").unwrap();
                vars.push(format!("r{ncall}"));
                ncall += 1;
            }
            Step::Slen(s) => {
                writeln!(top_vars, "    var r{ncall}: logic<64>;").unwrap();
                writeln!(body, "        r{ncall} = {INST}.slen(\"{s}\");").unwrap();
                vars.push(format!("r{ncall}"));
                ncall += 1;
            }
        }
    }
    let gate = if c.gated { "    var en: logic;\n    let clk_g: '_ clock = clk & en;\n" } else { "" };
    let top_ff = if top_ff.is_empty() {
        String::new()
    } else {
        format!("    always_ff ({}) {{\n{top_ff}    }}\n", if c.gated { "clk_g" } else { "clk" })
    };
    let code = format!(
        "module C35Dut (\n    clk: input clock,\n{dut_ports}) {{\n{dut_vars}    always_ff (clk) {{\n{dut_ff}    }}\n{dut_comb}}}\n\n\
         #[test({TOP})]\nmodule {TOP} {{\n    inst clk: $tb::clock_gen;\n{gate}{consts}{top_vars}{top_ff}\n    inst dut: C35Dut (\n        {}\n    );\n\n    \
         inst {INST}: $comp::{} #(\n        {}\n    ) (\n        {}\n    );\n\n    initial {{\n{body}        $finish();\n    }}\n}}\n",
        dut_conn.join(",\n        "),
        probe::PROBE_NAME,
        params.join(",\n        "),
        comp_conn.join(",\n        "),
    );
    Rendered { code, vars }
}

// ---------------------------------------------------------------------------
// reference model
// ---------------------------------------------------------------------------

/// One expected log line (the probe's `W`/`S` lines are informational and are
/// not part of the expectation).
#[derive(Clone, Debug)]
pub enum Exp {
    Init(bool),
    ParamBits(usize, Bv),
    ParamStr(usize, String),
    Cycle(u64),
    /// input j, API, pre-edge value (`None`: not determined by the script, e.g.
    /// power-on state of a flip-flop), post-edge value of the same expression
    /// (diagnosis only)
    Read {
        j: usize,
        raw: bool,
        width: u32,
        pre: Option<Bv>,
        post: Option<Bv>,
    },
    Method(String, usize),
    ArgBits(usize, Bv),
    ArgStr(usize, String),
}

pub struct Expectation {
    pub log: Vec<Exp>,
    /// variable -> (expected value, diagnosis hints)
    pub vars: Vec<(String, Option<Bv>, VarHint)>,
    /// snapshot index taken directly after edge number e (1-based) -> for the
    /// relational read == mirror check: (edge, snapshot index)
    pub edge_snap: Vec<(u64, usize)>,
    pub edges: u64,
}

#[derive(Clone, Debug, Default)]
pub struct VarHint {
    /// what the variable would hold if the output write were applied one edge
    /// late / one edge early (for output-side signals), for the signature only
    pub late: Option<Bv>,
    pub early: Option<Bv>,
    pub kind: &'static str,
    pub width: u32,
}

/// Documented port semantics: the value is zero-extended or truncated to the
/// port width; X/Z only under a four-state simulation; the raw word API drives
/// no X/Z.
pub fn port_value(act: &probe::OutAct, pw: u32, fs: bool) -> Bv {
    let mask = if fs && act.api != probe::WR_RAW { act.mask.clone() } else { vec![] };
    Bv::new(act.vwidth, act.words.clone(), mask).resize(pw)
}

struct St {
    t: Vec<Option<Bv>>,
    s: Vec<Option<Bv>>,
    m: Vec<Option<Bv>>,
    o: Vec<Option<Bv>>,
    c: Vec<Option<Bv>>,
}

fn not(v: &Bv) -> Bv {
    // 4-state NOT: unknown stays unknown (X)
    let words = v.words.iter().zip(&v.mask).map(|(w, m)| !w & !m).collect();
    Bv::new(v.width, words, v.mask.clone())
}

fn eval(st: &St, src: &Src, j: usize) -> Option<Bv> {
    // s / l / dut.h are three flip-flops registering the same t<j>
    let base = |b: &Base| if b.is_ff() { st.s[j].clone() } else { st.t[j].clone() };
    match src {
        Src::Plain(b) => base(b),
        Src::Slice(b, lo, n) => base(b).map(|v| v.slice(*lo, *n)),
        Src::Cat(_) => Some(st.t[j].clone()?.concat(&st.s[j].clone()?)),
        Src::Not(b) => base(b).map(|v| not(&v)),
        Src::Out(k) => st.o[*k].clone(),
    }
}

pub fn model(c: &Case, fs: bool) -> Expectation {
    let ni = c.ins.len();
    let no = c.outs.len();
    let mut st = St {
        t: vec![None; ni],
        s: vec![None; ni],
        m: vec![None; ni],
        o: vec![None; no],
        c: vec![None; no],
    };
    let mut log = vec![Exp::Init(fs)];
    for (n, p) in c.params.iter().enumerate() {
        match p {
            Param::Bits(v) | Param::Const(v) => log.push(Exp::ParamBits(n, v.clone())),
            Param::Str(s) => log.push(Exp::ParamStr(n, s.clone())),
        }
    }
    // on_init
    let drive = |st: &St, cycle: u64| -> Vec<Option<Bv>> {
        (0..no)
            .map(|k| {
                let fsx = fs && c.outxz;
                let act = probe::out_action(c.seed, cycle, k as u32, c.outs[k].ow, fsx, c.outs[k].wr);
                if act.skip { st.o[k].clone() } else { Some(port_value(&act, c.outs[k].ow, fsx)) }
            })
            .collect()
    };
    st.o = drive(&st, 0);
    let mut vars = vec![];
    let mut edge_snap = vec![];
    let obs = observed(c);
    let snapshot = |n: usize, st: &St, prev_o: &[Option<Bv>], next_o: &[Option<Bv>], vars: &mut Vec<(String, Option<Bv>, VarHint)>| {
        for (sig, w) in &obs {
            let idx: usize = sig[1..].parse().unwrap();
            let (v, hint) = match &sig[..1] {
                "m" => (st.m[idx].clone(), VarHint { kind: "mirror", width: *w, ..Default::default() }),
                "s" => (st.s[idx].clone(), VarHint { kind: "stim-ff", width: *w, ..Default::default() }),
                "o" => (
                    st.o[idx].clone(),
                    VarHint { kind: "out", width: *w, late: prev_o[idx].clone(), early: next_o[idx].clone() },
                ),
                // comb logic behind the output (`b >> 1`): re-settled after the write, and
                // it would pull down anything stored above the declared width
                "x" => (
                    // (4-state JIT evaluates operators on > 128-bit operands
                    // pessimistically — any unknown bit makes the whole result
                    // unknown, /verif/known/C35/not-xz-wide-jit.veryl — which is not
                    // this property's business: not asserted then)
                    st.o[idx]
                        .as_ref()
                        .filter(|v| !(fs && *w > 128 && v.has_xz()))
                        .map(|v| v.shr1()),
                    VarHint {
                        kind: "out-comb",
                        width: *w,
                        late: prev_o[idx].as_ref().map(|v| v.shr1()),
                        early: next_o[idx].as_ref().map(|v| v.shr1()),
                    },
                ),
                _ => (
                    st.c[idx].clone(),
                    // a capture FF that sees the write of the same edge holds the
                    // post-edge output
                    VarHint { kind: "out-capture", width: *w, early: st.o[idx].clone(), late: None },
                ),
            };
            vars.push((format!("y{n}_{sig}"), v, hint));
        }
    };
    let none_o = vec![None; no];
    snapshot(0, &st, &none_o, &none_o, &mut vars);
    let mut edge: u64 = 0;
    let mut en = true;
    let mut last_prev_o = none_o.clone();
    let mut nsnap = 0;
    let mut ncall = 0;
    for step in &c.steps {
        match step {
            Step::Set(j, v) => st.t[*j] = Some(v.clone()),
            Step::En(e) => en = *e,
            Step::Clock(n) => {
                let mut prev_o = last_prev_o.clone();
                for _ in 0..*n {
                    if !en {
                        // gate closed: no edge for the DUT, the local flip-flops or
                        // the component
                        continue;
                    }
                    edge += 1;
                    log.push(Exp::Cycle(edge));
                    let pre: Vec<Option<Bv>> = (0..ni).map(|j| eval(&st, &c.ins[j].src, j)).collect();
                    prev_o = st.o.clone();
                    let new_o = drive(&st, edge);
                    let new = St {
                        t: st.t.clone(),
                        s: (0..ni).map(|j| st.t[j].clone()).collect(),
                        m: pre.clone(),
                        c: st.o.clone(),
                        o: new_o,
                    };
                    for j in 0..ni {
                        log.push(Exp::Read {
                            j,
                            raw: c.ins[j].rd % probe::RD_KINDS == probe::RD_RAW,
                            width: c.ins[j].iw,
                            pre: pre[j].clone(),
                            post: eval(&new, &c.ins[j].src, j),
                        });
                    }
                    st = new;
                }
                nsnap += 1;
                if edge > 0 {
                    // nothing has been clocked since hook `edge`: the mirror still
                    // holds what it captured there
                    edge_snap.push((edge, nsnap));
                }
                last_prev_o = prev_o.clone();
                let next_o = drive(&st, edge + 1);
                snapshot(nsnap, &st, &prev_o, &next_o, &mut vars);
            }
            Step::Echo(a) => {
                log.push(Exp::Method("echo".into(), 1));
                match a {
                    Arg::Bits(v) | Arg::Var(v) => {
                        log.push(Exp::ArgBits(0, v.clone()));
                        vars.push((
                            format!("r{ncall}"),
                            Some(v.payload_only()),
                            VarHint { kind: "method-ret", width: v.width, ..Default::default() },
                        ));
                    }
                    Arg::Str(_) => unreachable!(),
                }
                ncall += 1;
            }
            Step::Cat(args) => {
                log.push(Exp::Method("cat".into(), args.len()));
                for (i, a) in args.iter().enumerate() {
                    match a {
                        Arg::Bits(v) | Arg::Var(v) => log.push(Exp::ArgBits(i, v.clone())),
                        Arg::Str(s) => log.push(Exp::ArgStr(i, s.clone())),
                    }
                }
                ncall += 1;
            }
            Step::Gen(w, k) => {
                log.push(Exp::Method("mk".into(), 2));
                log.push(Exp::ArgBits(0, Bv::new(32, vec![*w as u64], vec![])));
                log.push(Exp::ArgBits(1, Bv::new(32, vec![*k], vec![])));
                vars.push((
                    format!("r{ncall}"),
                    Some(Bv::new(*w, probe::gen_value(c.seed, *k, *w), vec![])),
                    VarHint { kind: "method-ret", width: *w, ..Default::default() },
                ));
                ncall += 1;
            }
            Step::Slen(s) => {
                log.push(Exp::Method("slen".into(), 1));
                log.push(Exp::ArgStr(0, s.clone()));
                vars.push((
                    format!("r{ncall}"),
                    Some(Bv::new(64, vec![s.len() as u64], vec![])),
                    VarHint { kind: "method-ret", width: 64, ..Default::default() },
                ));
                ncall += 1;
            }
        }
    }
    Expectation {
        log,
        vars,
        edge_snap,
        edges: edge,
    }
}
