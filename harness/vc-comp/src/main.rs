mod c35;
mod case;
mod simrun;

fn main() {
    let args: Vec<String> = std::env::args().skip(1).collect();
    let id = args.first().cloned().unwrap_or_default();
    vcore::quiet_panics();
    if id == "C35-exp" {
        c35::experiment(&args[1..]);
        return;
    }
    if id == "C35-gen" {
        c35::show_case(&args[1..]);
        return;
    }
    let ctx = vcore::Ctx::new(&id, &args[1.min(args.len())..]);
    match id.as_str() {
        "C35" => c35::run(&ctx),
        _ => {
            eprintln!("unknown property id {id:?}");
            std::process::exit(2);
        }
    }
}
