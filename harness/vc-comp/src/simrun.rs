//! Analyze a Veryl text that instantiates `$comp::c35_probe`, build the
//! simulator IR for one engine configuration, run the `#[test]` module's
//! `initial` block through the real testbench machinery and collect
//! (a) everything written to the per-test output buffer (component logs) and
//! (b) the final values of the snapshot variables.
//!
//! The flow is the one of `veryl test` for a native test
//! (`run_native_testbench`): `Simulator::new` → `init_components` →
//! `derive testbench` → `run_testbench`; it is spelled out here only because the
//! simulator is needed afterwards to read the snapshot variables.

use std::collections::BTreeMap;
use std::path::Path;

use veryl_analyzer::ir as air;
use veryl_analyzer::value::Value as AValue;
use veryl_analyzer::{Analyzer, AnalyzerError, Context, symbol_table};
use veryl_metadata::Metadata;
use veryl_parser::Parser;
use veryl_simulator::ir::{ComponentLibrary, Event, build_ir};
use veryl_simulator::testbench::{
    TestResult, build_clock_periods, build_event_map, convert_initial_to_testbench, run_testbench,
};
use veryl_simulator::{Config, Simulator};

/// 4-state bit vector, LSB-first words; bit i is X when mask=1,payload=0 and Z
/// when mask=1,payload=1 (the documented encoding of `veryl_component::Value`).
#[derive(Clone, Debug, PartialEq, Eq, Hash)]
pub struct Bv {
    pub width: u32,
    pub words: Vec<u64>,
    pub mask: Vec<u64>,
}

pub fn nwords(width: u32) -> usize {
    (width as usize).div_ceil(64).max(1)
}

pub fn top_mask(width: u32) -> u64 {
    let rem = width % 64;
    if rem == 0 { u64::MAX } else { (1u64 << rem) - 1 }
}

impl Bv {
    pub fn new(width: u32, mut words: Vec<u64>, mut mask: Vec<u64>) -> Bv {
        let n = nwords(width);
        words.resize(n, 0);
        mask.resize(n, 0);
        words[n - 1] &= top_mask(width);
        mask[n - 1] &= top_mask(width);
        Bv { width, words, mask }
    }
    pub fn zero(width: u32) -> Bv {
        Bv::new(width, vec![], vec![])
    }
    /// zero-extend or truncate (payload and mask alike)
    pub fn resize(&self, width: u32) -> Bv {
        Bv::new(width, self.words.clone(), self.mask.clone())
    }
    pub fn bit(&self, i: u32) -> (bool, bool) {
        let (w, b) = (i as usize / 64, i % 64);
        (self.words[w] >> b & 1 != 0, self.mask[w] >> b & 1 != 0)
    }
    pub fn set_bit(&mut self, i: u32, p: bool, m: bool) {
        let (w, b) = (i as usize / 64, i % 64);
        self.words[w] = self.words[w] & !(1 << b) | (p as u64) << b;
        self.mask[w] = self.mask[w] & !(1 << b) | (m as u64) << b;
    }
    /// bits [lo, lo+n)
    pub fn slice(&self, lo: u32, n: u32) -> Bv {
        let mut r = Bv::zero(n);
        for i in 0..n {
            let (p, m) = self.bit(lo + i);
            r.set_bit(i, p, m);
        }
        r
    }
    /// {self, low}: self occupies the high bits
    pub fn concat(&self, low: &Bv) -> Bv {
        let mut r = Bv::zero(self.width + low.width);
        for i in 0..low.width {
            let (p, m) = low.bit(i);
            r.set_bit(i, p, m);
        }
        for i in 0..self.width {
            let (p, m) = self.bit(i);
            r.set_bit(low.width + i, p, m);
        }
        r
    }
    /// logical shift right by one (bit routing only: unknown bits move along)
    pub fn shr1(&self) -> Bv {
        let mut r = Bv::zero(self.width);
        for i in 1..self.width {
            let (p, m) = self.bit(i);
            r.set_bit(i - 1, p, m);
        }
        r
    }
    pub fn has_xz(&self) -> bool {
        self.mask.iter().any(|m| *m != 0)
    }
    pub fn payload_only(&self) -> Bv {
        Bv::new(self.width, self.words.clone(), vec![])
    }
    pub fn show(&self) -> String {
        let h = |ws: &[u64]| {
            ws.iter()
                .rev()
                .map(|w| format!("{w:016x}"))
                .collect::<Vec<_>>()
                .join("_")
        };
        if self.has_xz() {
            format!("{}'p{}/m{}", self.width, h(&self.words), h(&self.mask))
        } else {
            format!("{}'h{}", self.width, h(&self.words))
        }
    }
    pub fn from_avalue(v: &AValue) -> Bv {
        match v {
            AValue::U64(x) => Bv::new(x.width, vec![x.payload], vec![x.mask_xz]),
            AValue::BigUint(x) => Bv::new(
                x.width,
                x.payload.iter_u64_digits().collect(),
                x.mask_xz.iter_u64_digits().collect(),
            ),
        }
    }
    /// Same, but keeps whatever is stored above `width` visible: returns the raw
    /// digits so that the caller can tell "excess high bits leaked".
    pub fn raw_excess(v: &AValue) -> bool {
        match v {
            AValue::U64(x) => {
                x.width < 64 && ((x.payload >> x.width) != 0 || (x.mask_xz >> x.width) != 0)
            }
            AValue::BigUint(x) => {
                x.payload.bits() > x.width as u64 || x.mask_xz.bits() > x.width as u64
            }
        }
    }
}

pub struct Analyzed {
    pub ir: air::Ir,
}

/// Parse + analyze `code` with `$comp::c35_probe` declared (the injection
/// `Analyzer::new` performs for `[[components]]` of Veryl.toml).  Must run on a
/// thread that has not analyzed anything else.
pub fn analyze(code: &str, components: &[&str]) -> Result<Analyzed, String> {
    symbol_table::clear();
    let metadata = Metadata::create_default("prj").map_err(|e| format!("metadata: {e}"))?;
    let parser = Parser::parse(code, &Path::new("c35.veryl")).map_err(|e| format!("parse: {e}"))?;
    let analyzer = Analyzer::new(&metadata);
    veryl_analyzer::tb_component::insert_external_components(components);
    let mut context = Context::default();
    let mut errors = vec![];
    let mut ir = air::Ir::default();
    errors.append(&mut analyzer.analyze_pass1("prj", &parser.veryl));
    errors.append(&mut Analyzer::analyze_post_pass1());
    errors.append(&mut analyzer.analyze_pass2(&parser.veryl, &mut context, Some(&mut ir)));
    errors.append(&mut Analyzer::analyze_post_pass2(&ir));
    let errors: Vec<_> = errors
        .into_iter()
        .filter(|x| {
            !matches!(
                x,
                AnalyzerError::UnusedVariable { .. } | AnalyzerError::UnassignVariable { .. }
            )
        })
        .collect();
    if !errors.is_empty() {
        let text: Vec<String> = errors.iter().map(|e| format!("{e}")).collect();
        return Err(format!("analyzer: {}", text.join(" | ")));
    }
    Ok(Analyzed { ir })
}

#[derive(Clone, Debug, PartialEq, Eq)]
pub struct EngineCfg {
    pub four_state: bool,
    pub jit: bool,
    pub disable_ff_opt: bool,
    pub cc: bool,
    /// load the probe through the simulator's dlopen path
    pub dlopen: bool,
}

impl EngineCfg {
    pub fn label(&self) -> String {
        format!(
            "{}{}{}{}",
            if self.four_state { "4s" } else { "2s" },
            if self.cc {
                "-cc"
            } else if self.jit {
                "-jit"
            } else {
                "-interp"
            },
            if self.disable_ff_opt { "-noffopt" } else { "" },
            if self.dlopen { "-dlopen" } else { "-static" }
        )
    }
    pub fn to_config(&self, lib: &Path) -> Config {
        let mut c = Config {
            use_4state: self.four_state,
            use_jit: self.jit || self.cc,
            disable_ff_opt: self.disable_ff_opt,
            ..Default::default()
        };
        if self.cc {
            c.aot_c = true;
            c.aot_c_event = true;
            c.aot_c_async = false;
        }
        if self.dlopen {
            c.component_libraries.insert(
                c35probe::PROBE_NAME.to_string(),
                ComponentLibrary {
                    path: lib.to_path_buf(),
                    type_name: c35probe::PROBE_NAME.to_string(),
                },
            );
        }
        c
    }
}

pub struct RunOut {
    /// `Ok(())` = TestResult::Pass
    pub result: Result<(), String>,
    /// per-test output buffer (component logs, `$display`)
    pub log: String,
    pub snaps: BTreeMap<String, Option<Bv>>,
    /// a snapshot variable was stored with bits above its width set
    pub excess: Vec<String>,
}

pub fn run(
    an: &Analyzed,
    top: &str,
    cfg: &EngineCfg,
    lib: &Path,
    snap_names: &[String],
) -> Result<RunOut, String> {
    let config = cfg.to_config(lib);
    let top_id = veryl_parser::resource_table::insert_str(top);
    let ir = build_ir(&an.ir, top_id, &config).map_err(|e| format!("build_ir: {e}"))?;
    let mut sim = Simulator::new(ir, None);
    veryl_simulator::output_buffer::enable();
    let result = match sim.init_components(0, top) {
        Err(e) => Err(format!("init_components: {e}")),
        Ok(()) => {
            let event_map = build_event_map(&sim.ir.event_statements, &sim.ir.module_variables);
            let clock_periods = build_clock_periods(&sim.ir.event_statements);
            let Some(stmts) = sim.ir.event_statements.get(&Event::Initial) else {
                let _ = veryl_simulator::output_buffer::take();
                return Err("no initial block".into());
            };
            let tb = convert_initial_to_testbench(stmts, &event_map, &clock_periods, 3);
            match run_testbench(&mut sim, &tb) {
                TestResult::Pass => Ok(()),
                TestResult::Fail(m) => Err(m),
            }
        }
    };
    let log = veryl_simulator::output_buffer::take();
    let mut snaps = BTreeMap::new();
    let mut excess = vec![];
    for n in snap_names {
        let v = sim.get_var(n);
        if let Some(v) = &v
            && Bv::raw_excess(v)
        {
            excess.push(n.clone());
        }
        snaps.insert(n.clone(), v.as_ref().map(Bv::from_avalue));
    }
    Ok(RunOut {
        result,
        log,
        snaps,
        excess,
    })
}

/// The same test through `run_native_testbench`, the entry point `veryl test`
/// uses (it additionally installs the testbench settle filter).  Only the
/// result and the output buffer are observable here.
pub fn run_native(
    an: &Analyzed,
    top: &str,
    cfg: &EngineCfg,
    lib: &Path,
) -> Result<(Result<(), String>, String), String> {
    let config = cfg.to_config(lib);
    let top_id = veryl_parser::resource_table::insert_str(top);
    let ir = build_ir(&an.ir, top_id, &config).map_err(|e| format!("build_ir: {e}"))?;
    veryl_simulator::output_buffer::enable();
    let r = veryl_simulator::testbench::run_native_testbench(ir, None, top.to_string());
    let log = veryl_simulator::output_buffer::take();
    match r {
        Ok(TestResult::Pass) => Ok((Ok(()), log)),
        Ok(TestResult::Fail(m)) => Ok((Err(m), log)),
        Err(e) => Err(format!("run_native_testbench: {e}")),
    }
}
