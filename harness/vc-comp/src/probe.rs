//! C35 probe component — one source, two transports.
//!
//! Linked into the check binary as an rlib (registered through
//! `register_static_component`) and built as `libc35probe.so` (loaded by the
//! simulator's own dlopen path).  It talks to the harness through the component
//! ABI only: its behaviour is selected by `#( .. )` parameters and everything it
//! observes leaves through `ctx.log`.
//!
//! * `on_init`  logs `I <is_4state>`, every test parameter (`P ..`) and drives
//!   the outputs selected by the script.
//! * `on_clock` logs `C <ctx.cycle()>`, reads **every** input and logs what it
//!   got (`R ..`), then writes the scripted value of this cycle to every output
//!   (`W ..`, or `S ..` when the script leaves the output untouched).
//! * methods log their arguments (`M ..` / `A ..`) and return scripted values.
//!
//! The script is a pure function of the `SEED` parameter (`out_action`); the
//! oracle in `c35.rs` calls the same function and applies the *documented* port
//! semantics (resize to the port width) itself.

use veryl_component::{
    BuildCtx, ClockPort, Component, ComponentKind, InputPort, OutputPort, Result, SimCtx, Value,
    bail, veryl_component_export,
};

pub const PROBE_NAME: &str = "c35_probe";

// ---------------------------------------------------------------------------
// script
// ---------------------------------------------------------------------------

pub fn mix(z: u64) -> u64 {
    let mut z = z.wrapping_add(0x9E37_79B9_7F4A_7C15);
    z = (z ^ (z >> 30)).wrapping_mul(0xBF58_476D_1CE4_E5B9);
    z = (z ^ (z >> 27)).wrapping_mul(0x94D0_49BB_1331_11EB);
    z ^ (z >> 31)
}

pub fn h4(seed: u64, a: u64, b: u64, c: u64) -> u64 {
    mix(mix(mix(mix(seed) ^ a).wrapping_add(b)) ^ c.wrapping_mul(0xD6E8_FEB8_6659_FD93))
}

pub fn words_for(width: u32) -> usize {
    (width as usize).div_ceil(64).max(1)
}

fn top_mask(width: u32) -> u64 {
    let rem = width % 64;
    if rem == 0 { u64::MAX } else { (1u64 << rem) - 1 }
}

/// `width` bits of pattern `kind` (LSB-first words, top word masked).
pub fn pattern(seed: u64, salt: u64, width: u32, kind: u64) -> Vec<u64> {
    let n = words_for(width);
    let mut v: Vec<u64> = match kind % 8 {
        0 => vec![0; n],
        1 => vec![u64::MAX; n],
        2 => {
            let mut v = vec![0; n];
            v[(width as usize - 1) / 64] = 1u64 << ((width - 1) % 64);
            v
        }
        3 => vec![0xAAAA_AAAA_AAAA_AAAA; n],
        _ => (0..n).map(|i| h4(seed, salt, i as u64, 77)).collect(),
    };
    v[n - 1] &= top_mask(width);
    v
}

/// How an output is written (`WR` parameter, 4 bits per port).
pub const WR_VALUE: u64 = 0; // ctx.write(Value::from_bits(.., port width))
pub const WR_RESIZE: u64 = 1; // ctx.write(value of another width): zero-extend / truncate
pub const WR_RAW: u64 = 2; // write_u64 / write_words, top word of the slice NOT masked by the caller
pub const WR_DIRTY: u64 = 3; // ctx.write(Value::Bits{..} built by hand, excess high bits set)
pub const WR_KINDS: u64 = 4;

/// How an input is read (`RD` parameter, 4 bits per port).
pub const RD_VALUE: u64 = 0; // ctx.read -> Value (payload + mask)
pub const RD_RAW: u64 = 1; // read_u64 / read_words (payload only)
pub const RD_KINDS: u64 = 2;

#[derive(Clone, Debug, PartialEq, Eq)]
pub struct OutAct {
    /// the output is left untouched this cycle
    pub skip: bool,
    pub api: u64,
    /// width of the value handed to the API
    pub vwidth: u32,
    /// payload / mask handed to the API, *before* any masking by the SDK; for
    /// WR_RAW and WR_DIRTY the bits above `vwidth` in the top word are garbage on
    /// purpose
    pub words: Vec<u64>,
    pub mask: Vec<u64>,
}

/// What the probe does with output `port` (declared width `pw`) at clock hook
/// number `cycle` (0 = `on_init`).
pub fn out_action(seed: u64, cycle: u64, port: u32, pw: u32, four_state: bool, api: u64) -> OutAct {
    let hh = |c: u64| h4(seed, cycle, port as u64, c);
    let skip = if cycle == 0 { hh(1) % 4 == 0 } else { hh(1) % 6 == 0 };
    let api = api % WR_KINDS;
    let vwidth = if api == WR_RESIZE {
        let d = (hh(2) % 130) as u32 + 1;
        if hh(3) % 2 == 0 && pw > 1 { pw - d.min(pw - 1) } else { pw + d }
    } else {
        pw
    };
    let n = words_for(vwidth);
    let mut words = pattern(seed ^ 0x5151, hh(4), vwidth, hh(5));
    let mut mask = vec![0u64; n];
    if four_state && api != WR_RAW {
        match hh(6) % 8 {
            0..=3 => {}
            4 => mask = pattern(seed ^ 0x7272, hh(7), vwidth, 4),
            5 => mask = pattern(0, 0, vwidth, 1),
            6 => mask = pattern(0, 0, vwidth, 2),
            _ => {
                // one X or Z bit somewhere
                let b = (hh(8) % vwidth as u64) as usize;
                mask[b / 64] = 1 << (b % 64);
            }
        }
    }
    if api == WR_RAW || api == WR_DIRTY {
        // garbage above the declared width: whoever is responsible for masking
        // the top word must remove it
        let g = !top_mask(vwidth);
        words[n - 1] |= hh(9) & g;
        if api == WR_DIRTY && four_state {
            mask[n - 1] |= hh(10) & g;
        }
    }
    OutAct {
        skip,
        api,
        vwidth,
        words,
        mask,
    }
}

/// Value returned by method `mk(w, k)`.
pub fn gen_value(seed: u64, k: u64, w: u32) -> Vec<u64> {
    pattern(seed ^ 0x9393, k, w, h4(seed, k, w as u64, 5))
}

// ---------------------------------------------------------------------------
// log format
// ---------------------------------------------------------------------------

pub fn hexw(ws: &[u64]) -> String {
    ws.iter().map(|w| format!("{w:x}")).collect::<Vec<_>>().join(",")
}

pub fn fmt_value(v: &Value) -> String {
    match v {
        Value::Bits {
            words,
            mask_xz,
            width,
        } => format!("bits {width} {} {}", hexw(words), hexw(mask_xz)),
        Value::Str(s) => format!("str {}", s.escape_default()),
        Value::Unit => "unit".to_string(),
    }
}

// ---------------------------------------------------------------------------
// the component
// ---------------------------------------------------------------------------

pub struct Probe {
    #[allow(dead_code)]
    clk: ClockPort,
    ins: Vec<InputPort>,
    outs: Vec<OutputPort>,
    seed: u64,
    rd: u64,
    wr: u64,
    /// `XZ` parameter: drive X/Z on the outputs when the simulation is four-state
    xz: bool,
    params: Vec<(String, Value)>,
    buf: Vec<u64>,
}

fn param_u64(ctx: &mut BuildCtx, name: &str) -> Result<u64> {
    ctx.param(name)?.as_u64()
}

impl Probe {
    fn drive(&mut self, ctx: &mut SimCtx, cycle: u64) {
        let four = ctx.is_4state() && self.xz;
        for (j, port) in self.outs.clone().into_iter().enumerate() {
            let api = (self.wr >> (4 * j)) & 0xf;
            let act = out_action(self.seed, cycle, j as u32, port.width(), four, api);
            if act.skip {
                ctx.log(format!("S {j}"));
                continue;
            }
            ctx.log(format!(
                "W {j} {} {} {} {}",
                act.api,
                act.vwidth,
                hexw(&act.words),
                hexw(&act.mask)
            ));
            match act.api {
                WR_VALUE | WR_RESIZE => {
                    let v = Value::from_bits(
                        act.words.iter().copied().collect(),
                        act.mask.iter().copied().collect(),
                        act.vwidth,
                    );
                    ctx.write(port, v);
                }
                WR_DIRTY => {
                    let v = Value::Bits {
                        words: act.words.iter().copied().collect(),
                        mask_xz: act.mask.iter().copied().collect(),
                        width: act.vwidth,
                    };
                    ctx.write(port, v);
                }
                _ => {
                    if port.width() <= 64 {
                        ctx.write_u64(port, act.words[0]);
                    } else {
                        ctx.write_words(port, &act.words);
                    }
                }
            }
        }
    }
}

impl Component for Probe {
    const KIND: ComponentKind = ComponentKind::Clocked;

    fn new(ctx: &mut BuildCtx) -> Result<Self> {
        let clk = ctx.clock("clk")?;
        let ni = param_u64(ctx, "NI")?;
        let no = param_u64(ctx, "NO")?;
        let nt = param_u64(ctx, "NT")?;
        let seed = param_u64(ctx, "SEED")?;
        let rd = param_u64(ctx, "RD")?;
        let wr = param_u64(ctx, "WR")?;
        let xz = param_u64(ctx, "XZ")? != 0;
        let mut ins = vec![];
        for j in 0..ni {
            ins.push(ctx.input(&format!("i{j}"))?);
        }
        let mut outs = vec![];
        for j in 0..no {
            outs.push(ctx.output(&format!("o{j}"))?);
        }
        let mut params = vec![];
        for j in 0..nt {
            let name = format!("T{j}");
            let v = ctx.param(&name)?;
            params.push((name, v));
        }
        let maxw = ins.iter().map(|p| p.words()).max().unwrap_or(1);
        Ok(Probe {
            clk,
            ins,
            outs,
            seed,
            rd,
            wr,
            xz,
            params,
            buf: vec![0; maxw + 1],
        })
    }

    fn on_init(&mut self, ctx: &mut SimCtx) -> Result<()> {
        let four = ctx.is_4state();
        ctx.log(format!("I {}", four as u32));
        for (name, v) in &self.params {
            ctx.log(format!("P {name} {}", fmt_value(v)));
        }
        self.drive(ctx, 0);
        Ok(())
    }

    fn on_clock(&mut self, ctx: &mut SimCtx) -> Result<()> {
        let cycle = ctx.cycle();
        ctx.log(format!("C {cycle}"));
        for (j, port) in self.ins.clone().into_iter().enumerate() {
            let api = (self.rd >> (4 * j)) & 0xf;
            if api % RD_KINDS == RD_VALUE {
                let v = ctx.read(port);
                ctx.log(format!("R {j} {}", fmt_value(&v)));
            } else if port.width() <= 64 {
                let v = ctx.read_u64(port);
                ctx.log(format!("R {j} raw {} {v:x}", port.width()));
            } else {
                let n = port.words();
                // canary word behind the buffer: read_words must write `n` words only
                self.buf[n] = 0xC0DE_C0DE_C0DE_C0DE;
                ctx.read_words(port, &mut self.buf[..n]);
                if self.buf[n] != 0xC0DE_C0DE_C0DE_C0DE {
                    bail!("read_words wrote past the port's word count");
                }
                ctx.log(format!("R {j} raw {} {}", port.width(), hexw(&self.buf[..n])));
            }
        }
        self.drive(ctx, cycle);
        Ok(())
    }

    fn method(&mut self, name: &str, args: &[Value], ctx: &mut SimCtx) -> Result<Value> {
        ctx.log(format!("M {name} {}", args.len()));
        for (i, a) in args.iter().enumerate() {
            ctx.log(format!("A {i} {}", fmt_value(a)));
        }
        match name {
            "echo" => match args.first() {
                Some(v @ Value::Bits { .. }) => Ok(v.clone()),
                _ => bail!("echo needs one bits argument"),
            },
            "cat" => Ok(Value::unit()),
            "mk" => {
                let w = (args.first().map(|v| v.as_u64()).transpose()?.unwrap_or(1) as u32).max(1);
                let k = args.get(1).map(|v| v.as_u64()).transpose()?.unwrap_or(0);
                let words = gen_value(self.seed, k, w);
                Ok(Value::from_bits(
                    words.into_iter().collect(),
                    Default::default(),
                    w,
                ))
            }
            "slen" => {
                let s = match args.first() {
                    Some(v) => v.as_str()?.len() as u64,
                    None => bail!("slen needs a string"),
                };
                Ok(Value::from_u64(s, 64))
            }
            _ => bail!("unknown method: {name}"),
        }
    }
}

veryl_component_export!("c35_probe" => Probe);
