//! C25 — filelists are complete, dependency-ordered and collision-free.
//!
//! Generated projects (`p2_gen` on top of `vproj`): files in several
//! directories and several `sources` dirs (also the default project-root
//! source and the deprecated `source` field), equal file names in different
//! directories, 0–2 path dependency projects (sibling / nested, alias keys,
//! one depending on the other), `examples/`, `#[test]` modules, the standard
//! library on/off with a `$std::ram` user, × target {source, directory,
//! bundle} × sourcemap_target {target, directory, none} × filelist_type
//! {absolute, relative, flgen}.
//!
//! Oracle (the three clauses of the property):
//!  (i)  in-process `Metadata::paths(&[], true, true)` — the call `veryl build`
//!       makes — never gives two emitted (non-example) source files the same
//!       `dst` or the same `map`;
//!  (ii) after a real `veryl build` (fresh tree) the filelist, parsed by its
//!       type's syntax, has no duplicate line, names only files that
//!       `Metadata::paths` assigns to an emitted source and that exist, and
//!       names every file of the root project and every dependency file the
//!       root project reaches through generator-known references (the filelist
//!       is documented to hold "files connected from project": dependency / std
//!       files nobody uses are emitted but deliberately not listed, so those
//!       are not demanded).  Bundle targets: the filelist is the one bundle
//!       file, and the bundle holds every expected definition exactly once;
//!  (iii) for every generator-known reference A -> B between files (the file
//!       graph is acyclic by construction) B's line precedes A's (bundle: B's
//!       definitions precede A's).

use crate::p2_gen::{FileId, Owner, P2Opts, P2Project, gen_p2};
use serde_json::json;
use std::collections::{BTreeMap, BTreeSet};
use std::path::{Path, PathBuf};
use vcore::{CaseCfg, Ctx, Draw, Outcome, hash_str};
use veryl_metadata::Metadata;
use veryl_path::PathSet;
use vproj::cli::Workspace;
use vproj::genp::GenOpts;
use vproj::model::{ItemKind, Project};
use vproj::toml::{Filelist, SrcMap, Target};

/// Known finding: a file with several definitions is listed where its first
/// definition falls in topological order.
const ORDER_KNOWN: &str = "filelist/order:file-placed-at-its-first-definition";

fn s(p: &Path) -> String {
    p.to_string_lossy().into_owned()
}

/// `module|package|interface <ident>` definitions of a SystemVerilog text: (ident, line).
fn sv_definitions(text: &str) -> Vec<(String, usize)> {
    let mut v = vec![];
    for (n, line) in text.lines().enumerate() {
        let t = line.trim_start();
        for kw in ["module ", "package ", "interface "] {
            if let Some(rest) = t.strip_prefix(kw) {
                let id: String = rest
                    .trim_start()
                    .chars()
                    .take_while(|c| c.is_ascii_alphanumeric() || *c == '_')
                    .collect();
                if !id.is_empty() {
                    v.push((id, n + 1));
                }
            }
        }
    }
    v
}

fn matches_name(ident: &str, name: &str) -> bool {
    ident == name || ident.ends_with(&format!("_{name}"))
}

/// Non-generic item names defined by a model file.
fn file_item_names(p: &Project, rel: &str) -> Vec<String> {
    let mut v = vec![];
    for f in p.files.iter().filter(|f| f.alive && f.rel == rel) {
        for it in &f.items {
            let item = &p.items[*it];
            if !item.alive {
                continue;
            }
            // generic items are emitted once per instantiation; native `#[test]`
            // modules are not emitted as SystemVerilog modules at all
            let generic = match &item.kind {
                ItemKind::Package(k) => k.generic,
                ItemKind::Module(m) => m.generic,
                ItemKind::Test(_) => true,
                _ => false,
            };
            if !generic {
                v.push(item.name.clone());
            }
        }
    }
    v
}

fn names_of(p: &P2Project, f: &FileId) -> Vec<String> {
    match &f.owner {
        Owner::Root => {
            if let Some(e) = p.extra.iter().find(|e| e.rel == f.rel) {
                e.defines.clone()
            } else {
                file_item_names(&p.root, &f.rel)
            }
        }
        Owner::Dep(i) => {
            let x = &p.deps[*i];
            if let Some(e) = x.extra.iter().find(|e| e.rel == f.rel) {
                e.defines.clone()
            } else {
                file_item_names(&x.prj, &f.rel)
            }
        }
        Owner::Std => vec![],
    }
}

struct Mapped {
    /// model file -> index into `paths`
    idx: BTreeMap<FileId, usize>,
}

fn map_files(p: &P2Project, ws: &Workspace, paths: &[PathSet]) -> Result<Mapped, String> {
    let mut idx = BTreeMap::new();
    for (f, _ex) in p.files() {
        let Some(dp) = p.disk_path(ws, &f) else { continue };
        let Ok(c) = dp.canonicalize() else {
            return Err(format!("{} is not on disk", f.show()));
        };
        match paths.iter().position(|x| x.src == c) {
            Some(i) => {
                idx.insert(f, i);
            }
            None => return Err(format!("{} is not collected by Metadata::paths", f.show())),
        }
    }
    Ok(Mapped { idx })
}

/// Clause (i) on a PathSet list: Err((signature, message)) for the first pair
/// of emitted sources sharing an output or source-map path.  Ok(false) = a
/// source was collected twice (overlapping `sources`, outside the domain).
fn check_collisions(md: &Metadata, paths: &[PathSet]) -> Result<bool, (String, String, serde_json::Value)> {
    let emitted: Vec<&PathSet> = paths.iter().filter(|x| !x.example).collect();
    let fname = |x: &PathSet| x.src.file_name().map(|n| n.to_owned());
    for (i, a) in emitted.iter().enumerate() {
        for b in emitted.iter().skip(i + 1) {
            if a.src == b.src {
                return Ok(false);
            }
            let what = if a.dst == b.dst {
                "output"
            } else if a.map == b.map {
                "source-map"
            } else if a.dst == b.map || a.map == b.dst {
                "output/source-map"
            } else {
                continue;
            };
            let sig = match &md.build.target {
                veryl_metadata::Target::Bundle { .. } if fname(a) == fname(b) && a.prj == b.prj => {
                    "paths/bundle-target-keeps-only-the-file-name"
                }
                veryl_metadata::Target::Directory { .. } if md.build.sources.len() > 1 && a.prj == b.prj => {
                    "paths/directory-target-drops-the-sources-dir"
                }
                _ => "paths/collision-unexplained",
            };
            return Err((
                sig.to_string(),
                format!(
                    "Metadata::paths assigns the same {what} path to two source files:\n  {} -> {} (map {})\n  {} -> {} (map {})",
                    s(&a.src),
                    s(&a.dst),
                    s(&a.map),
                    s(&b.src),
                    s(&b.dst),
                    s(&b.map)
                ),
                json!({"a": s(&a.src), "b": s(&b.src), "dst_a": s(&a.dst), "dst_b": s(&b.dst)}),
            ));
        }
    }
    Ok(true)
}

/// The hand-written reproducers of the listed findings (/verif/known/C25/<name>):
/// a project directory plus an optional `edges.txt` (`A -> B` lines, source
/// paths relative to the project: A references B).  Decided by the same
/// clauses, without a generator model, so the KNOWN-FINDING lines do not depend
/// on the generator's choice sequence.
fn fixed_case(name: &str) -> Outcome {
    let src = PathBuf::from(vcore::run::out_root()).join("known/C25").join(name);
    let src = if src.is_dir() { src } else { PathBuf::from("/verif/known/C25").join(name) };
    if !src.is_dir() {
        return Outcome::skip(format!("reproducer {name} is missing"));
    }
    let ws = Workspace::new("c25f", "prj");
    for (rel, bytes) in vcore::util::read_tree(&src) {
        ws.write(&rel, &String::from_utf8_lossy(&bytes));
    }
    let Ok(root) = ws.root.canonicalize() else {
        return Outcome::skip("scratch directory vanished");
    };
    let Ok(mut md) = Metadata::load(root.join("Veryl.toml")) else {
        return Outcome::skip("reproducer Veryl.toml not accepted");
    };
    let Ok(paths) = md.paths::<PathBuf>(&[], true, true) else {
        return Outcome::skip("Metadata::paths failed on the reproducer");
    };
    match check_collisions(&md, &paths) {
        Err((sig, msg, detail)) => {
            return Outcome::fail(sig, format!("{msg}\nreproducer: known/C25/{name}"), json!({"reproducer": name, "detail": detail}));
        }
        Ok(false) => return Outcome::skip("overlapping sources"),
        Ok(true) => {}
    }
    let r = ws.veryl(&["build"]);
    if r.code != Some(0) {
        return Outcome::skip(format!("reproducer does not build (exit {:?})", r.code));
    }
    let fl = md.filelist_path();
    let text = std::fs::read_to_string(&fl).unwrap_or_default();
    let lines: Vec<PathBuf> = text
        .lines()
        .filter(|l| !l.is_empty())
        .map(|l| {
            let l = l.strip_prefix("source_file '").and_then(|x| x.strip_suffix('\'')).unwrap_or(l);
            if l.starts_with('/') { PathBuf::from(l) } else { root.join(l) }
        })
        .collect();
    for (i, l) in lines.iter().enumerate() {
        if lines[..i].contains(l) {
            return Outcome::fail("filelist/duplicate-line", format!("{} is listed twice\n{text}", s(l)), json!({"reproducer": name}));
        }
    }
    let edges = std::fs::read_to_string(src.join("edges.txt")).unwrap_or_default();
    for e in edges.lines() {
        let Some((a, b)) = e.split_once("->") else { continue };
        let (a, b) = (a.trim(), b.trim());
        let dst = |rel: &str| paths.iter().find(|x| x.src == root.join(rel)).map(|x| x.dst.clone());
        let (Some(da), Some(db)) = (dst(a), dst(b)) else { continue };
        let (Some(pa), Some(pb)) = (lines.iter().position(|x| *x == da), lines.iter().position(|x| *x == db)) else {
            return Outcome::fail("filelist/missing-project-file", format!("{a} or {b} is not listed\n{text}"), json!({"reproducer": name}));
        };
        if pb >= pa {
            let defs = std::fs::read_to_string(root.join(a))
                .unwrap_or_default()
                .lines()
                .filter(|l| l.starts_with("module ") || l.starts_with("package ") || l.starts_with("interface "))
                .count();
            return Outcome::fail(
                if defs >= 2 { ORDER_KNOWN } else { "filelist/order" },
                format!("{a} references {b}, but {} (line {}) does not precede {} (line {})\n{text}reproducer: known/C25/{name}", s(&db), pb + 1, s(&da), pa + 1),
                json!({"reproducer": name}),
            );
        }
    }
    Outcome::pass(hash_str(name), false, vec!["fixed_reproducer_passes(defect_fixed?)".into()], format!("known/C25/{name}: no violation"))
}

fn one_case(d: &mut Draw, thorough: bool) -> Outcome {
    let opts = P2Opts {
        gopts: GenOpts {
            min_items: 4,
            max_items: if thorough { 12 } else { 9 },
            max_files: if thorough { 8 } else { 6 },
            ..GenOpts::default()
        },
        multi_sources: true,
        deps: true,
        alias_per_mille: 300,
        twin_warning_per_mille: 0,
        dep_weights: [5, 3, 3],
        std_per_mille: 80,
        collide_per_mille: 40,
        ensure_wildcard: false,
        single_def_per_mille: 850,
        unify_generics_per_mille: 0,
    };
    let p = gen_p2(d, &opts);
    let ws = Workspace::new("c25", &p.root.cfg.name);
    p.write(&ws, false);
    let summary = p.summary();
    let root = match ws.root.canonicalize() {
        Ok(r) => r,
        Err(_) => return Outcome::skip("scratch directory vanished"),
    };
    let mk_input = |extra: serde_json::Value| {
        json!({
            "project": summary,
            "veryl_toml": p.root_toml(),
            "files": p.disk_files().iter().map(|(r, _)| r.clone()).collect::<Vec<_>>(),
            "detail": extra,
            "script": ws.script(),
        })
    };

    // ------------------------------------------------ (i) Metadata::paths
    let mut md = match Metadata::load(root.join("Veryl.toml")) {
        Ok(m) => m,
        Err(e) => return Outcome::skip(format!("Veryl.toml not accepted: {}", first_line(&e.to_string()))),
    };
    let paths = match md.paths::<PathBuf>(&[], true, true) {
        Ok(x) => x,
        Err(e) => return Outcome::skip(format!("Metadata::paths failed: {}", first_line(&e.to_string()))),
    };
    let mut classes: BTreeSet<String> = BTreeSet::new();
    let emitted: Vec<&PathSet> = paths.iter().filter(|x| !x.example).collect();
    match check_collisions(&md, &paths) {
        Err((sig, msg, detail)) => return Outcome::fail(sig, format!("{msg}\nproject: {summary}"), mk_input(detail)),
        Ok(false) => return Outcome::skip("a source file is collected twice (overlapping sources)"),
        Ok(true) => {}
    }
    if p.forced_collision.is_some() {
        classes.insert("forced_collision_shape_but_paths_distinct".into());
    }
    for x in paths.iter().filter(|x| x.example) {
        if emitted.iter().any(|e| e.dst == x.dst) {
            classes.insert("example_dst_equals_an_emitted_dst(example_never_emitted)".into());
        }
    }
    let mapped = match map_files(&p, &ws, &paths) {
        Ok(m) => m,
        Err(e) => return Outcome::skip(format!("model/PathSet mismatch: {e}")),
    };

    // --------------------------------------------------- real `veryl build`
    let r = ws.veryl(&["build"]);
    if r.timed_out {
        return Outcome::skip("veryl build timed out");
    }
    if r.panicked {
        return Outcome::skip(format!("veryl build panics (C11's domain): {}", r.panic_line()));
    }
    if r.code != Some(0) {
        let why = r
            .diags
            .iter()
            .find(|x| !x.code.is_empty())
            .map(|x| x.code.clone())
            .unwrap_or_else(|| format!("exit {:?}: {}", r.code, first_line(&r.tail(2))));
        if std::env::var_os("VERIF_P2_KEEP").is_some() {
            let name = ws.scratch.path.file_name().map(|x| s(Path::new(x))).unwrap_or_default();
            let _ = std::fs::write(
                format!("{}/reject-{name}.sh", vcore::util::work_root()),
                format!("{}\n# stderr:\n# {}", ws.script(), r.stderr.replace('\n', "\n# ")),
            );
        }
        return Outcome::skip(format!("generated project not accepted ({why})"));
    }

    let cfg = &p.root.cfg;
    let fl_path = root.join(cfg.filelist_name());
    let Ok(fl_text) = std::fs::read_to_string(&fl_path) else {
        return Outcome::fail(
            "filelist/not-written",
            format!("veryl build succeeded but {} does not exist\nproject: {summary}", s(&fl_path)),
            mk_input(json!(null)),
        );
    };
    let mut lines: Vec<PathBuf> = vec![];
    for l in fl_text.lines() {
        if l.is_empty() {
            continue;
        }
        let parsed = match cfg.filelist {
            Filelist::Absolute => l.starts_with('/').then(|| PathBuf::from(l)),
            Filelist::Relative => (!l.starts_with('/') && !l.contains('\'')).then(|| root.join(l)),
            Filelist::Flgen => l
                .strip_prefix("source_file '")
                .and_then(|x| x.strip_suffix('\''))
                .filter(|x| !x.starts_with('/'))
                .map(|x| root.join(x)),
        };
        match parsed {
            Some(x) => lines.push(x),
            None => {
                return Outcome::fail(
                    "filelist/syntax",
                    format!("line {l:?} of {} is not in {:?} syntax\nproject: {summary}", s(&fl_path), cfg.filelist),
                    mk_input(json!({"filelist": fl_text})),
                );
            }
        }
    }
    let fail = |sig: &str, msg: String| {
        Outcome::fail(
            sig.to_string(),
            format!("{msg}\nfilelist {}:\n{fl_text}project: {summary}", s(&fl_path)),
            mk_input(json!({"filelist": fl_text})),
        )
    };

    let edges = p.edges();
    let files = p.files();
    let is_example: BTreeMap<FileId, bool> = files.iter().cloned().collect();
    let reachable = p.reachable_from_root();
    // line index of a model file
    let std_dst = |rel: &str| root.join("dependencies/std").join(rel).with_extension("sv");
    let dst_of = |f: &FileId| -> Option<PathBuf> {
        match f.owner {
            Owner::Std => Some(std_dst(&f.rel)),
            _ => mapped.idx.get(f).map(|i| paths[*i].dst.clone()),
        }
    };

    let mut nontrivial_edge = false;
    if let Target::Bundle(bp) = &cfg.target {
        // ---- bundle: one line, the bundle holds every definition once
        let bundle = root.join(bp);
        if lines.len() != 1 || lines[0] != bundle {
            return fail(
                "filelist/bundle-line",
                format!("bundle target: the filelist must name exactly {}", s(&bundle)),
            );
        }
        let Ok(text) = std::fs::read_to_string(&bundle) else {
            return fail("filelist/names-file-not-emitted", format!("{} does not exist", s(&bundle)));
        };
        let defs = sv_definitions(&text);
        let mut span: BTreeMap<FileId, (usize, usize)> = BTreeMap::new();
        for (f, ex) in &files {
            if *ex {
                continue;
            }
            let must = f.owner == Owner::Root || reachable.contains(f);
            for name in names_of(&p, f) {
                let hits: Vec<usize> = defs.iter().filter(|(id, _)| matches_name(id, &name)).map(|x| x.1).collect();
                if hits.len() > 1 {
                    return Outcome::fail(
                        "bundle/definition-duplicated",
                        format!(
                            "{name} (from {}) is defined {} times in the bundle {} (lines {hits:?})\nproject: {summary}",
                            f.show(),
                            hits.len(),
                            s(&bundle)
                        ),
                        mk_input(json!({"bundle": text})),
                    );
                }
                if hits.is_empty() && must {
                    return Outcome::fail(
                        "bundle/definition-missing",
                        format!("{name} (from {}) is not in the bundle {}\nproject: {summary}", f.show(), s(&bundle)),
                        mk_input(json!({"bundle": text})),
                    );
                }
                if let Some(h) = hits.first() {
                    let e = span.entry(f.clone()).or_insert((*h, *h));
                    e.0 = e.0.min(*h);
                    e.1 = e.1.max(*h);
                }
            }
        }
        let mut bad: Vec<(bool, String, FileId, FileId)> = vec![];
        for (a, b) in &edges {
            if is_example.get(a).copied().unwrap_or(false) {
                continue;
            }
            if let (Some(sa), Some(sb)) = (span.get(a), span.get(b)) {
                if let (Some(ia), Some(ib)) = (mapped.idx.get(a), mapped.idx.get(b))
                    && ib > ia
                {
                    nontrivial_edge = true;
                }
                if sb.1 >= sa.0 {
                    bad.push((
                        p.explained_by_first_definition(a, b),
                        format!(
                            "{} references {}, but its definitions (from line {}) do not come after those of {} (up to line {}) in {}",
                            a.show(),
                            b.show(),
                            sa.0,
                            b.show(),
                            sb.1,
                            s(&bundle)
                        ),
                        a.clone(),
                        b.clone(),
                    ));
                }
            }
        }
        bad.sort_by_key(|x| x.0);
        if let Some((explained, msg, a, b)) = bad.first() {
            return Outcome::fail(
                if *explained { ORDER_KNOWN } else { "bundle/order" },
                format!("{msg}\nproject: {summary}"),
                mk_input(json!({"bundle": text, "a": a.show(), "b": b.show()})),
            );
        }
    } else {
        // ---- one line per emitted file
        let mut pos: BTreeMap<PathBuf, usize> = BTreeMap::new();
        for (i, l) in lines.iter().enumerate() {
            if pos.insert(l.clone(), i).is_some() {
                return fail("filelist/duplicate-line", format!("{} is listed twice", s(l)));
            }
        }
        for l in &lines {
            let known = emitted.iter().any(|x| &x.dst == l);
            if !known {
                let ex = paths.iter().any(|x| x.example && &x.dst == l);
                return fail(
                    if ex { "filelist/names-an-example" } else { "filelist/names-file-not-emitted" },
                    format!("{} is not the output path of any emitted source file", s(l)),
                );
            }
            if !l.is_file() {
                return fail("filelist/names-file-not-emitted", format!("{} does not exist", s(l)));
            }
        }
        for (f, ex) in &files {
            if *ex {
                continue;
            }
            let Some(dst) = dst_of(f) else { continue };
            if (f.owner == Owner::Root || reachable.contains(f)) && !dst.is_file() {
                return fail(
                    "build/source-not-emitted",
                    format!("{} was not emitted ({} does not exist)", f.show(), s(&dst)),
                );
            }
            if f.owner == Owner::Root && !pos.contains_key(&dst) {
                return fail(
                    "filelist/missing-project-file",
                    format!("{} ({}) was emitted but is not listed", f.show(), s(&dst)),
                );
            }
            if f.owner != Owner::Root && reachable.contains(f) && !pos.contains_key(&dst) {
                return fail(
                    "filelist/missing-dependency-file",
                    format!("{} ({}) is used by the project, was emitted, but is not listed", f.show(), s(&dst)),
                );
            }
            if f.owner != Owner::Root && !reachable.contains(f) {
                classes.insert(
                    if pos.contains_key(&dst) {
                        "unused_dependency_file_listed"
                    } else {
                        "unused_dependency_file_emitted_not_listed"
                    }
                    .into(),
                );
            }
        }
        let mut bad: Vec<(bool, String)> = vec![];
        for (a, b) in &edges {
            if is_example.get(a).copied().unwrap_or(false) {
                continue;
            }
            let (Some(da), Some(db)) = (dst_of(a), dst_of(b)) else { continue };
            if b.owner == Owner::Std && !pos.contains_key(&db) {
                return fail(
                    "filelist/missing-dependency-file",
                    format!("{} uses $std {} but {} is not listed", a.show(), b.rel, s(&db)),
                );
            }
            let (Some(pa), Some(pb)) = (pos.get(&da), pos.get(&db)) else { continue };
            if let (Some(ia), Some(ib)) = (mapped.idx.get(a), mapped.idx.get(b))
                && ib > ia
            {
                nontrivial_edge = true;
                if a.owner != b.owner {
                    classes.insert("cross_project_edge_against_processing_order".into());
                }
            }
            if pb >= pa {
                bad.push((
                    p.explained_by_first_definition(a, b),
                    format!(
                        "{} references {} (acyclic), but line {} ({}) does not precede line {} ({})",
                        a.show(),
                        b.show(),
                        pb + 1,
                        s(&db),
                        pa + 1,
                        s(&da)
                    ),
                ));
            }
        }
        bad.sort_by_key(|x| x.0);
        if let Some((explained, msg)) = bad.first() {
            return fail(if *explained { ORDER_KNOWN } else { "filelist/order" }, msg.clone());
        }
    }

    // ------------------------------------------------------------- evidence
    let dirs: BTreeSet<PathBuf> = emitted
        .iter()
        .filter(|x| x.prj == cfg.name)
        .filter_map(|x| x.src.parent().map(|d| d.to_path_buf()))
        .collect();
    let nontrivial = dirs.len() >= 2 && nontrivial_edge;
    classes.insert(
        match &cfg.target {
            Target::Source => "target=source",
            Target::Directory(_) => "target=directory",
            Target::Bundle(_) => "target=bundle",
        }
        .into(),
    );
    classes.insert(
        match &cfg.sourcemap {
            SrcMap::Target => "sourcemap=target",
            SrcMap::Directory(_) => "sourcemap=directory",
            SrcMap::None => "sourcemap=none",
        }
        .into(),
    );
    classes.insert(format!("filelist={:?}", cfg.filelist).to_lowercase());
    classes.insert(p.sources.label().into());
    classes.insert(format!("deps={}", p.deps.len()));
    if p.deps.iter().any(|x| x.dir.starts_with("vendor/")) {
        classes.insert("dep_nested_in_project_dir".into());
    }
    if p.deps.iter().any(|x| !x.deps.is_empty()) {
        classes.insert("dep_depends_on_dep".into());
    }
    if p.deps.iter().any(|x| !x.direct) {
        classes.insert("dep_only_transitive".into());
    }
    if p.deps.iter().any(|x| x.key != x.prj.cfg.name) {
        classes.insert("dep_alias_key".into());
    }
    if !cfg.exclude_std {
        classes.insert("std_included".into());
    }
    if p.std_user {
        classes.insert("std_module_used".into());
    }
    if p.root.has_tests() {
        classes.insert("has_test_module".into());
    }
    if paths.iter().any(|x| x.example) {
        classes.insert("has_examples_dir".into());
    }
    let mut names: BTreeMap<String, usize> = BTreeMap::new();
    for x in emitted.iter().filter(|x| x.prj == cfg.name) {
        *names.entry(x.src.file_name().map(|n| s(Path::new(n))).unwrap_or_default()).or_default() += 1;
    }
    if names.values().any(|n| *n > 1) {
        classes.insert("same_file_name_in_two_directories".into());
    }
    classes.insert(if p.single_def { "one_definition_per_file" } else { "files_with_several_definitions" }.into());
    if p.extra.iter().any(|e| e.defines.is_empty()) {
        classes.insert("alias_only_file".into());
    }
    if p.excluded_collisions > 0 {
        classes.insert("known_collision_excluded_by_renaming".into());
    }
    if dirs.len() >= 2 {
        classes.insert("two_or_more_directories".into());
    }
    if nontrivial_edge {
        classes.insert("edge_against_processing_order".into());
    }
    if cfg.omit_project_prefix {
        classes.insert("omit_project_prefix".into());
    }
    classes.insert(format!("root_files={}", emitted.iter().filter(|x| x.prj == cfg.name).count().min(9)));
    let text = format!("{summary}\n{fl_text}");
    Outcome::pass(hash_str(&text), nontrivial, classes.into_iter().collect(), text)
}

fn first_line(x: &str) -> String {
    x.lines().next().unwrap_or("").chars().take(100).collect()
}

pub fn run(ctx: &Ctx) {
    let thorough = !ctx.is_quick();
    // `Metadata::paths` runs in this process: std expansion and the lock
    // directories go to a scratch cache, never to the user's
    let xdg = vcore::util::Scratch::new("c25-xdg");
    // SAFETY: no other thread exists yet
    unsafe { std::env::set_var("XDG_CACHE_HOME", &xdg.path) };
    // expand the standard library once, before any worker thread may race on it
    // (concurrent expansion is C30's subject, not this property's)
    if let Err(e) = veryl_std::expand() {
        println!("INCONCLUSIVE property={}: cannot expand the standard library: {e}", ctx.id);
        std::process::exit(2);
    }
    let mut n = ctx.scale(150, 10_000);
    if let Some(k) = std::env::var("VERIF_C25_CASES").ok().and_then(|x| x.parse().ok()) {
        n = k; // development aid
    }
    if !ctx.replay_mode() {
        for name in ["bundle-same-file-name", "two-sources-same-relative-path", "multi-definition-file-order"] {
            let out = fixed_case(name);
            ctx.record("fixed", out, json!({"reproducer": name}));
        }
    }
    ctx.run("filelist", CaseCfg::cases(n).choices(2500).timeout_s(900).shrink_iters(40), move |d| {
        one_case(d, thorough)
    });
    drop(xdg);
    ctx.assume("`veryl` is /repo's own main.rs built by harness package vcli; `Metadata::paths(&[], true, true)` is called in-process exactly as cmd_build calls it, on the project written to disk");
    ctx.assume("clause (i) is asserted for emitted (non-example) files; an examples/ file sharing a dst with an emitted file is only counted (examples are never emitted)");
    ctx.assume("clause (ii): the filelist is documented to hold the files connected from the project; dependency and std files that nothing in the project reaches are emitted but not listed and are not demanded");
    ctx.assume("clause (iii) is checked for the generator's reference graph (const/type/struct/enum/function uses, imports incl. wildcard, generic packages and modules, instances, modports, port defaults, test -> dut, root -> dependency, dependency -> dependency, $std::ram); file-level dependencies are acyclic by construction");
    ctx.assume("the two known colliding shapes (bundle: equal file names; directory target: equal relative paths in two sources dirs) are avoided by renaming (class known_collision_excluded_by_renaming) and forced in ~4 % of the cases");
    ctx.finish(
        "exploration",
        "p2_gen projects (vproj model + several sources dirs + path dependencies + std user + extra dependency-user modules) x target x sourcemap_target x filelist_type; one real `veryl build` per case; non-trivial = the root project's emitted files live in >= 2 directories and a known reference A -> B exists where B is processed after A (contradicts the alphabetical processing order); distinct by project summary + filelist text",
    );
}
