//! C27 — check modes agree with write modes.
//!
//! A generated project (`vproj`, every Veryl.toml variant incl. bundle targets,
//! incremental on or off) is brought into a generated tree state: formatted or
//! not, never built or built, then 0–4 state operations (source edited after
//! the build, output deleted / hand-edited / touched, file added / deleted /
//! renamed, layout of a source loosened, Veryl.toml changed, warning added).
//! From that one state S (saved with `cp -a`, restored to the same path before
//! every command):
//!
//!   `veryl fmt --check` exits 0  <=>  `veryl fmt` changes no `*.veryl` file
//!   `veryl build --check` exits 0 <=>  `veryl build` changes no emitted `.sv`
//!                                      of the project (directory / source
//!                                      target) resp. the bundle file
//!
//! Which files count for `build --check` follows cmd_build.rs: it compares the
//! emitted text of every analysed, non-example, non-`$std` source with its
//! `dst` file, or the assembled bundle with the bundle file.  Source maps, the
//! filelist and the `$std` outputs under `dependencies/` are written by
//! `veryl build` but are not looked at by `--check`; they are excluded (their
//! changes are counted as a class, not asserted).

use serde_json::json;
use std::collections::BTreeSet;
use vcore::{CaseCfg, Ctx, Draw, Outcome, hash_str};
use vproj::cli::{OutTree, Workspace};
use vproj::edit::{EditPolicy, Editor};
use vproj::toml::Target;
use vproj::{GenOpts, gen_project};

fn sources(t: &OutTree) -> OutTree {
    t.iter()
        .filter(|(k, _)| k.ends_with(".veryl"))
        .map(|(k, v)| (k.clone(), v.clone()))
        .collect()
}

fn changed(before: &OutTree, after: &OutTree) -> Vec<String> {
    vproj::cli::changed_files(before, after)
}

fn reason(r: &vproj::CliResult) -> String {
    if r.panicked {
        return format!("panic {}", r.panic_line());
    }
    r.diags
        .iter()
        .find(|x| !x.code.is_empty())
        .map(|x| x.code.clone())
        .unwrap_or_else(|| format!("exit {:?}: {}", r.code, r.tail(2).chars().take(120).collect::<String>()))
}

fn one_case(d: &mut Draw) -> Outcome {
    let gopts = GenOpts {
        loose_per_mille: if d.chance(1, 3) { 300 } else { 0 },
        ..GenOpts::default()
    };
    let pol = EditPolicy {
        output_edit: true,
        output_delete: true,
        output_touch: true,
        loose: true,
        errors: false,
        gen_opts: gopts.clone(),
        ..EditPolicy::default()
    };
    let mut p = gen_project(d, &gopts);
    p.cfg.incremental = d.chance(1, 2);
    let ws = Workspace::new("c27", &p.cfg.name);
    let mut ed = Editor::create(&p, &ws);
    let initial = p.summary();
    let cyclic_replaced = p.counter_cyclic_placements > 0;
    let mut steps: Vec<String> = vec![];
    let mut classes: BTreeSet<String> = BTreeSet::new();

    if cyclic_replaced {
        classes.insert("excluded_file_cycle_placement_replaced".into());
    }
    // ---- bring the tree into a state ---------------------------------------
    let formatted = d.chance(8, 10);
    if formatted {
        let r = ws.veryl(&["fmt"]);
        if r.timed_out {
            return Outcome::skip("a command timed out");
        }
        if r.code != Some(0) {
            return Outcome::skip(format!("generated project not accepted by veryl fmt ({})", reason(&r)));
        }
        // (Editor::disk keeps the model rendering last written, so the files
        // are not considered out of sync with the model after formatting)
        steps.push("veryl fmt".into());
    } else {
        classes.insert("never_formatted".into());
    }
    let built = d.chance(8, 10);
    if built {
        let r = ws.veryl(&["build"]);
        if r.timed_out {
            return Outcome::skip("a command timed out");
        }
        if r.panicked {
            return Outcome::skip(format!("veryl build panics on the generated project (C11's domain): {}", r.panic_line()));
        }
        if r.code != Some(0) {
            return Outcome::skip(format!("generated project not accepted by veryl build ({})", reason(&r)));
        }
        steps.push("veryl build".into());
    } else {
        classes.insert("never_built".into());
    }
    let n_ops = d.weighted(&[3, 5, 3, 2, 1]);
    let mut hand_written = false;
    for _ in 0..n_ops {
        let op = ed.draw(d, &p, &ws, &pol);
        let a = ed.apply(d, &mut p, &ws, &op, &pol);
        for c in &a.classes {
            classes.insert(c.to_string());
        }
        // text written by the editor after `veryl fmt` is not formatter output
        if !a.touched.is_empty() {
            hand_written = true;
        }
        steps.push(format!("{:?}", a.desc));
    }
    if p.cfg.is_bundle() {
        classes.insert("bundle_target".into());
    }
    if p.cfg.incremental {
        classes.insert("incremental".into());
    }
    let nontrivial = n_ops > 0 || !built || !formatted;
    ws.save_state("s");

    let mk_input = |extra: serde_json::Value, steps: &Vec<String>| {
        json!({"project": initial, "state": steps, "detail": extra, "script": ws.script()})
    };

    // ---- fmt --check vs fmt -------------------------------------------------
    let fc = ws.veryl(&["fmt", "--check"]);
    ws.restore_state("s", false);
    let before = sources(&ws.all_files());
    let fw = ws.veryl(&["fmt"]);
    let after = sources(&ws.all_files());
    ws.restore_state("s", false);
    if fc.timed_out || fw.timed_out {
        return Outcome::skip("a command timed out");
    }
    let fmt_changed = changed(&before, &after);
    if fw.code == Some(0) && !fw.panicked && !fc.panicked {
        let passes = fc.code == Some(0);
        if passes != fmt_changed.is_empty() {
            let sig = if passes { "fmt/check-passes-but-fmt-rewrites" } else { "fmt/check-fails-but-fmt-changes-nothing" };
            return Outcome::fail(
                sig,
                format!(
                    "`veryl fmt --check` exits {:?}, `veryl fmt` from the same state changes {:?}\nstate: {:#?}\ncheck output tail:\n{}",
                    fc.code,
                    fmt_changed,
                    steps,
                    fc.tail(12)
                ),
                mk_input(json!({"fmt_check_exit": fc.code, "fmt_changed": fmt_changed}), &steps),
            );
        }
        classes.insert(if passes { "fmt_check_passes".into() } else { "fmt_check_fails".into() });
    } else {
        classes.insert("fmt_write_mode_failed_not_compared".into());
    }
    if hand_written && fmt_changed.is_empty() {
        classes.insert("editor_text_already_formatted".into());
    }

    // ---- build --check vs build ---------------------------------------------
    let bc = ws.veryl(&["build", "--check"]);
    ws.restore_state("s", false);
    let before = ws.outputs();
    let bw = ws.veryl(&["build"]);
    let after = ws.outputs();
    if bc.timed_out || bw.timed_out {
        return Outcome::skip("a command timed out");
    }
    let all_changed = changed(&before, &after);
    let bundle_file = match &p.cfg.target {
        Target::Bundle(b) => Some(b.clone()),
        _ => None,
    };
    let counted: Vec<String> = all_changed
        .iter()
        .filter(|k| {
            let name = k.trim_end_matches(" (removed)");
            match &bundle_file {
                Some(b) => name == b,
                None => name.ends_with(".sv") && !name.starts_with("dependencies/"),
            }
        })
        .cloned()
        .collect();
    if bw.code == Some(0) && !bw.panicked && !bc.panicked {
        let passes = bc.code == Some(0);
        if passes != counted.is_empty() {
            let sig = match (passes, bundle_file.is_some()) {
                (true, false) => "build/check-passes-but-build-rewrites-sv",
                (true, true) => "build/check-passes-but-build-rewrites-bundle",
                (false, false) => "build/check-fails-but-build-changes-no-sv",
                (false, true) => "build/check-fails-but-build-changes-no-bundle",
            };
            return Outcome::fail(
                sig,
                format!(
                    "`veryl build --check` exits {:?} (restored {:?}); `veryl build` from the same state (restored {:?}) changes {:?} (all emitted changes: {:?})\nstate: {:#?}\ncheck output tail:\n{}",
                    bc.code,
                    bc.restored,
                    bw.restored,
                    counted,
                    all_changed,
                    steps,
                    bc.tail(14)
                ),
                mk_input(
                    json!({"build_check_exit": bc.code, "counted_changes": counted, "all_changes": all_changed}),
                    &steps,
                ),
            );
        }
        classes.insert(if passes { "build_check_passes".into() } else { "build_check_fails".into() });
        if passes && !all_changed.is_empty() {
            classes.insert("check_passes_while_only_map_filelist_or_std_outputs_change".into());
        }
        if bw.restored.is_some_and(|(k, _)| k > 0) {
            classes.insert("build_restored_fragments".into());
        }
    } else {
        classes.insert("build_write_mode_failed_not_compared".into());
    }

    let text = format!("{initial}\n{}", steps.join("\n"));
    Outcome::pass(hash_str(&text), nontrivial, classes.into_iter().collect(), text)
}

pub fn run(ctx: &Ctx) {
    let mut n = ctx.scale(220, 8000);
    if let Some(k) = std::env::var("VERIF_C27_CASES").ok().and_then(|x| x.parse().ok()) {
        n = k; // development aid
    }
    ctx.run("state", CaseCfg::cases(n).choices(1200).timeout_s(2400).shrink_iters(30), one_case);
    ctx.assume("check mode and write mode both start from the same saved tree state (cp -a, mtimes kept) restored to the same path, so cache entries / build info / absolute filelists refer to the same paths");
    ctx.assume("fmt: a file counts as changed if the bytes of a *.veryl file differ after `veryl fmt` (exit 0); cases where write mode itself fails are not compared");
    ctx.assume("build: counted files are the emitted .sv files of project sources (outside dependencies/) for source/directory targets, the bundle file for bundle targets (cmd_build.rs check branch / check_bundle). Source maps, the filelist and $std outputs are written by `veryl build` but not examined by `--check`; they are excluded");
    ctx.assume("with incremental = true a file restored from the fragment cache is neither compared by --check nor written by build; the oracle is CLI against CLI, so this is consistent by itself");
    ctx.finish(
        "exploration",
        "vproj projects x tree states (formatted or not, built or not, then 0-4 state operations of vproj::edit incl. output deleted/hand-edited/touched, source edited, layout loosened, Veryl.toml changed, bundle targets, incremental on/off); non-trivial = the state differs from 'formatted and freshly built'; distinct by project+state text",
    );
}
