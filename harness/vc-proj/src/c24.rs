//! C24 — build results do not depend on file order or the run.
//!
//! Generated error-free projects (`p2_gen` on `vproj`: packages, interfaces,
//! modules, generics across files, wildcard / item imports, path dependency
//! projects, several source directories, `#[test]` modules, `examples/`,
//! sometimes an injected warning so that the diagnostic multiset is not empty).
//!
//! sub `permute` (in-process, carries the permutation clause): the project is
//! written to disk, `Metadata::paths` yields the `PathSet` list `veryl build`
//! would process, and `veryl::pipeline::analyze` + `Emitter` (what cmd_build
//! runs) are executed for the list in its own order, reversed, and in k
//! generated permutations — each on a fresh thread (all analyzer state is
//! thread-local).  Oracle: every order is error-free, the emitted text and the
//! source-map bytes of every file are byte-identical, the multiset of
//! diagnostics is identical.  (The order `sort_filelist` returns is recorded
//! as a class only: any topological order is a correct filelist, C25.)
//!
//! sub `cli` (separate processes): `veryl build` on two copies of the project
//! whose files were created in opposite orders gives byte-identical output
//! trees (absolute paths normalised); building again after `veryl clean` and
//! building a second time on top of the outputs gives the same bytes; passing
//! all project files explicitly in a permuted order (`veryl build f3 f1 …`,
//! the one way the CLI lets a user choose the processing order) gives the same
//! `.sv` / `.sv.map` bytes and the same set of filelist lines.

use crate::p2_gen::{P2Opts, P2Project, draw_perm, gen_p2};
use miette::Diagnostic;
use serde_json::json;
use std::collections::{BTreeMap, BTreeSet};
use std::path::PathBuf;
use vcore::{CaseCfg, Ctx, Draw, Outcome, hash_str};
use veryl::cmd_build::CmdBuild;
use veryl::pipeline::{self, AnalyzeOptions, Diag};
use veryl_emitter::Emitter;
use veryl_metadata::{Metadata, SourceMapTarget};
use veryl_parser::resource_table;
use veryl_path::PathSet;
use vproj::cli::{CliResult, OutTree, Workspace};
use vproj::genp::GenOpts;
use vproj::toml::Target;

/// Known finding: the specialisations of a generic module / package are
/// emitted into the defining file in the order their users were analysed.
const GENERIC_ORDER_KNOWN: &str = "emitted-sv-depends-on-order:generic-specialisations-in-registration-order";

/// Known finding: files that need each other (here: through a constant passed
/// as generic argument by a third file) make `type_dag::insert_file_edge`
/// panic (`WouldCycle`) — but only in some processing orders.
const CYCLE_KNOWN: &str = "order-dependent-panic:file-dag-WouldCycle";

/// Top-level `module|package|interface … end…` blocks of an emitted file and
/// the lines outside of them.
fn sv_blocks(text: &str) -> (Vec<String>, Vec<String>) {
    let mut blocks = vec![];
    let mut outside = vec![];
    let mut cur: Option<String> = None;
    for line in text.lines() {
        match cur.as_mut() {
            Some(b) => {
                b.push_str(line);
                b.push('\n');
                if line.starts_with("endmodule") || line.starts_with("endpackage") || line.starts_with("endinterface") {
                    blocks.push(cur.take().unwrap());
                }
            }
            None => {
                if line.starts_with("module ") || line.starts_with("package ") || line.starts_with("interface ") {
                    cur = Some(format!("{line}\n"));
                } else {
                    outside.push(line.to_string());
                }
            }
        }
    }
    if let Some(b) = cur {
        blocks.push(b);
    }
    (blocks, outside)
}

/// Same blocks, same lines around them, only the order of the blocks differs.
/// Runs of blanks are compared as one blank: the specialisations of one
/// generic definition share their source lines, so the emitter's vertical
/// alignment of one specialisation takes its column widths from the one
/// emitted last (`logic          clk` vs `logic         clk`) — a consequence of
/// the same order.
fn only_block_order_differs(a: &str, b: &str) -> bool {
    let squeeze = |v: Vec<String>| -> Vec<String> {
        v.into_iter()
            .map(|x| {
                let mut o = String::with_capacity(x.len());
                let mut prev = false;
                for c in x.chars() {
                    if c == ' ' {
                        if !prev {
                            o.push(c);
                        }
                        prev = true;
                    } else {
                        o.push(c);
                        prev = false;
                    }
                }
                o
            })
            .collect()
    };
    let (ba, oa) = sv_blocks(a);
    let (bb, ob) = sv_blocks(b);
    let (mut ba, mut bb) = (squeeze(ba), squeeze(bb));
    if oa != ob || ba == bb {
        return false;
    }
    ba.sort();
    bb.sort();
    ba == bb
}

// ------------------------------------------------------------ in-process

#[derive(Clone, Debug, Default, PartialEq)]
struct RunOut {
    /// src path -> (emitted text, source-map bytes)
    emitted: BTreeMap<String, (String, Vec<u8>)>,
    /// sorted
    diags: Vec<String>,
    /// `sort_filelist` order (src paths, examples removed)
    filelist: Vec<String>,
    /// analysis stopped with errors (fail-fast), rendered
    failed: Option<String>,
}

fn diag_key(d: &Diag) -> String {
    let code = d.code().map(|c| c.to_string()).unwrap_or_default();
    let sev = format!("{:?}", d.severity());
    let labels: Vec<String> = d
        .labels()
        .map(|ls| {
            ls.map(|l| format!("{}+{}:{}", l.offset(), l.len(), l.label().unwrap_or("")))
                .collect()
        })
        .unwrap_or_default();
    let file: Option<PathBuf> = match d {
        Diag::Analyzer(x) => x.token_source().get_path().and_then(resource_table::get_path_value),
        Diag::Cached(x) => x.token_path().map(PathBuf::from),
    };
    format!(
        "{sev} [{code}] {d} @ {} {}",
        file.map(|f| f.to_string_lossy().into_owned()).unwrap_or_default(),
        labels.join(",")
    )
}

/// What cmd_build does between `Metadata::paths` and writing files.
fn build_in_process(md: &Metadata, paths: &[PathSet]) -> RunOut {
    let opts = AnalyzeOptions {
        defines: &[],
        emit_mode: true,
        incremental: false,
        fail_fast: true,
    };
    let out = match pipeline::analyze(md, paths, opts, None, None) {
        Ok(o) => o,
        Err(e) => {
            let mut text = e.to_string();
            if let Some(ce) = e.downcast_ref::<pipeline::CheckError>() {
                let mut v: Vec<String> = ce.related.iter().map(diag_key).collect();
                v.sort();
                text = format!("{text}: {}", v.join(" ; "));
            }
            return RunOut {
                failed: Some(text),
                ..Default::default()
            };
        }
    };
    let mut r = RunOut::default();
    r.diags = out.check_error.related.iter().map(diag_key).collect();
    r.diags.sort();
    for context in out.contexts {
        if context.skip || context.path.example {
            continue;
        }
        let path = &context.path;
        let mut emitter = Emitter::new(md, &path.prj, &path.src, &path.dst, &path.map);
        emitter.emit(&context.parser.veryl, &context.input);
        let text = emitter.as_str().to_string();
        let map = if md.build.sourcemap_target != SourceMapTarget::None {
            let sm = emitter.source_map();
            sm.set_source_content(&context.input);
            sm.to_bytes().unwrap_or_else(|e| format!("source map error: {e}").into_bytes())
        } else {
            vec![]
        };
        r.emitted.insert(path.src.to_string_lossy().into_owned(), (text, map));
    }
    r.filelist = CmdBuild::sort_filelist(md, paths, false)
        .into_iter()
        .filter(|x| !x.example)
        .map(|x| x.src.to_string_lossy().into_owned())
        .collect();
    r
}

/// Run one order on a fresh thread; Err = panic message.
fn run_order(md: &Metadata, paths: Vec<PathSet>) -> Result<RunOut, String> {
    let md = md.clone();
    let h = std::thread::Builder::new()
        .stack_size(8 << 20)
        .spawn(move || build_in_process(&md, &paths))
        .expect("spawn");
    h.join().map_err(|e| {
        if let Some(s) = e.downcast_ref::<String>() {
            s.clone()
        } else if let Some(s) = e.downcast_ref::<&str>() {
            s.to_string()
        } else {
            "panic".to_string()
        }
    })
}

fn common_classes(p: &P2Project, n_files: usize) -> BTreeSet<String> {
    let mut c = BTreeSet::new();
    c.insert(format!("files={}", n_files.min(12)));
    c.insert(format!("deps={}", p.deps.len()));
    c.insert(p.sources.label().to_string());
    c.insert(
        match &p.root.cfg.target {
            Target::Source => "target=source",
            Target::Directory(_) => "target=directory",
            Target::Bundle(_) => "target=bundle",
        }
        .to_string(),
    );
    if p.has_wildcard() {
        c.insert("wildcard_import".into());
    }
    if p.has_generic_across_files() {
        c.insert("generic_used_across_files".into());
    }
    if !p.root.cfg.exclude_std {
        c.insert("std_included".into());
    }
    if p.root.has_tests() {
        c.insert("has_test_module".into());
    }
    if p.deps.iter().any(|x| !x.deps.is_empty()) {
        c.insert("dep_depends_on_dep".into());
    }
    if p.root.cfg.omit_project_prefix {
        c.insert("omit_project_prefix".into());
    }
    if p.root.cfg.strip_comments {
        c.insert("strip_comments".into());
    }
    if p.extra.iter().filter(|e| e.defines.is_empty()).count() >= 2 {
        c.insert("two_or_more_alias_only_files".into());
    }
    if p.excluded_hidden_cycles > 0 {
        c.insert("file_cycle_through_generic_argument_excluded".into());
    }
    c.insert(if p.unified_generics { "one_specialisation_per_generic" } else { "generics_with_several_specialisations_possible" }.into());
    c
}

fn gen_opts(thorough: bool, std_per_mille: u32, dep_weights: [u32; 3]) -> P2Opts {
    P2Opts {
        gopts: GenOpts {
            min_items: 5,
            max_items: if thorough { 13 } else { 10 },
            max_files: if thorough { 9 } else { 7 },
            warn_per_mille: 350,
            ..GenOpts::default()
        },
        multi_sources: true,
        deps: true,
        alias_per_mille: 300,
        twin_warning_per_mille: 300,
        dep_weights,
        std_per_mille,
        collide_per_mille: 0,
        ensure_wildcard: true,
        single_def_per_mille: 250,
        unify_generics_per_mille: 700,
    }
}

fn permute_case(d: &mut Draw, thorough: bool) -> Outcome {
    let p = gen_p2(d, &gen_opts(thorough, 25, [5, 3, 3]));
    let ws = Workspace::new("c24a", &p.root.cfg.name);
    p.write(&ws, false);
    let summary = p.summary();
    let Ok(root) = ws.root.canonicalize() else {
        return Outcome::skip("scratch directory vanished");
    };
    let mut md = match Metadata::load(root.join("Veryl.toml")) {
        Ok(m) => m,
        Err(e) => return Outcome::skip(format!("Veryl.toml not accepted: {}", first_line(&e.to_string()))),
    };
    let paths = match md.paths::<PathBuf>(&[], true, true) {
        Ok(x) => x,
        Err(e) => return Outcome::skip(format!("Metadata::paths failed: {}", first_line(&e.to_string()))),
    };
    {
        // the known C25 collisions are excluded by the generator; a collision
        // would make "the emitted file of a source" ambiguous
        let mut seen = BTreeSet::new();
        for x in paths.iter().filter(|x| !x.example) {
            if !seen.insert(x.dst.clone()) {
                return Outcome::skip("two sources share an output path (C25's domain)");
            }
        }
    }
    let n = paths.len();
    let k = if thorough { 6 } else { 3 };
    let mut orders: Vec<(String, Vec<usize>)> = vec![("reversed".into(), (0..n).rev().collect())];
    for i in 0..k {
        let mut perm = draw_perm(d, n);
        if perm.iter().enumerate().all(|(a, b)| a == *b) {
            perm.rotate_left(1);
        }
        orders.push((format!("perm{i}"), perm));
    }
    let base = match run_order(&md, paths.clone()) {
        Ok(b) => b,
        Err(m) => return Outcome::skip(format!("analysis panics in metadata order (C11's domain): {}", first_line(&m))),
    };
    if let Some(f) = &base.failed {
        if std::env::var_os("VERIF_P2_KEEP").is_some() {
            let name = ws.scratch.path.file_name().map(|x| x.to_string_lossy().into_owned()).unwrap_or_default();
            let _ = std::fs::write(
                format!("{}/reject-{name}.sh", vcore::util::work_root()),
                format!("{}\n# {}", ws.script(), f.replace('\n', "\n# ")),
            );
        }
        return Outcome::skip(format!(
            "project is not error-free in metadata order ({})",
            f.split('[').nth(1).and_then(|x| x.split(']').next()).unwrap_or("error")
        ));
    }
    let rel = |s: &str| s.replace(&format!("{}/", ws.scratch.path.to_string_lossy()), "");
    let mut filelist_varies = false;
    let mut repeat_varies = false;
    let mut known: Option<(String, serde_json::Value)> = None;
    for (name, perm) in &orders {
        let permuted: Vec<PathSet> = perm.iter().map(|i| paths[*i].clone()).collect();
        let order_txt: Vec<String> = permuted.iter().map(|x| rel(&x.src.to_string_lossy())).collect();
        let mk = |extra: serde_json::Value| {
            json!({"project": summary, "order": name, "processing_order": order_txt, "detail": extra, "script": ws.script()})
        };
        let got = match run_order(&md, permuted) {
            Ok(g) => g,
            Err(m) => {
                return Outcome::fail(
                    if m.contains("WouldCycle") {
                        CYCLE_KNOWN.to_string()
                    } else {
                        format!("order-dependent-panic:{}", first_line(&m).chars().take(60).collect::<String>())
                    },
                    format!("analysis/emission panics for processing order {order_txt:?} but not for the metadata order: {m}\nproject: {summary}"),
                    mk(json!(null)),
                );
            }
        };
        if let Some(f) = &got.failed {
            return Outcome::fail(
                "diagnostics-depend-on-order/error-only-in-some-order",
                format!("error-free in metadata order, but processing order {order_txt:?} reports: {}\nproject: {summary}", rel(f)),
                mk(json!({"errors": rel(f)})),
            );
        }
        // the property speaks of the *set* of diagnostics: how often one and
        // the same diagnostic is repeated (once per elaborated instance of the
        // module it sits in) is recorded, not asserted
        let set = |v: &Vec<String>| -> BTreeSet<String> { v.iter().cloned().collect() };
        if got.diags != base.diags && set(&got.diags) == set(&base.diags) {
            repeat_varies = true;
        }
        if set(&got.diags) != set(&base.diags) {
            let only_b: Vec<String> = base.diags.iter().filter(|x| !got.diags.contains(x)).map(|x| rel(x)).collect();
            let only_g: Vec<String> = got.diags.iter().filter(|x| !base.diags.contains(x)).map(|x| rel(x)).collect();
            return Outcome::fail(
                "diagnostics-depend-on-order",
                format!(
                    "diagnostic multiset differs for processing order {order_txt:?}\nonly in metadata order: {only_b:#?}\nonly in this order: {only_g:#?}\ncounts {} / {}\nmetadata order: {:#?}\nthis order: {:#?}\nproject: {summary}",
                    base.diags.len(),
                    got.diags.len(),
                    base.diags.iter().map(|x| rel(x)).collect::<Vec<_>>(),
                    got.diags.iter().map(|x| rel(x)).collect::<Vec<_>>()
                ),
                mk(json!({"only_metadata_order": only_b, "only_this_order": only_g})),
            );
        }
        for (src, (text, map)) in &base.emitted {
            let Some((t2, m2)) = got.emitted.get(src) else {
                return Outcome::fail(
                    "emitted-file-set-depends-on-order",
                    format!("{} is emitted in metadata order but not for {order_txt:?}\nproject: {summary}", rel(src)),
                    mk(json!(null)),
                );
            };
            if text != t2 && only_block_order_differs(text, t2) {
                // known finding: specialisations of a generic definition are
                // emitted in the order the instantiations were registered;
                // keep comparing everything else
                if known.is_none() {
                    known = Some((
                        format!(
                            "the top-level definitions emitted for {} are the same but come in another order for processing order {order_txt:?} (specialisations of a generic definition follow the order in which the files using them were analysed)\nproject: {summary}",
                            rel(src)
                        ),
                        mk(json!({"file": rel(src), "metadata_order": text, "this_order": t2})),
                    ));
                }
                continue;
            }
            if text != t2 {
                let first = text
                    .lines()
                    .zip(t2.lines())
                    .enumerate()
                    .find(|(_, (a, b))| a != b)
                    .map(|(n, (a, b))| format!("line {}: {a:?} / {b:?}", n + 1))
                    .unwrap_or_else(|| format!("lengths {} / {}", text.len(), t2.len()));
                return Outcome::fail(
                    "emitted-sv-depends-on-order",
                    format!("emitted text of {} differs for processing order {order_txt:?}: {first}\nproject: {summary}", rel(src)),
                    mk(json!({"file": rel(src), "metadata_order": text, "this_order": t2})),
                );
            }
            if map != m2 {
                return Outcome::fail(
                    "source-map-depends-on-order",
                    format!("source map of {} differs for processing order {order_txt:?} (text identical)\nproject: {summary}", rel(src)),
                    mk(json!({"file": rel(src)})),
                );
            }
        }
        if got.emitted.len() != base.emitted.len() {
            return Outcome::fail(
                "emitted-file-set-depends-on-order",
                format!("{} files emitted for {order_txt:?}, {} in metadata order\nproject: {summary}", got.emitted.len(), base.emitted.len()),
                mk(json!(null)),
            );
        }
        if got.filelist != base.filelist {
            filelist_varies = true;
        }
    }
    if let Some((msg, input)) = known {
        return Outcome::fail(GENERIC_ORDER_KNOWN, msg, input);
    }
    let mut classes = common_classes(&p, n);
    if !base.diags.is_empty() {
        classes.insert("has_warnings".into());
    }
    if filelist_varies {
        classes.insert("sort_filelist_order_varies_with_processing_order(not_asserted)".into());
    }
    if repeat_varies {
        classes.insert("repetition_count_of_one_warning_varies_with_processing_order(not_asserted)".into());
    }
    let cross = !p.edges().is_empty();
    let nontrivial = n >= 4 && cross && p.has_wildcard();
    let text = format!("{summary}\norders: {:?}", orders.iter().map(|x| &x.1).collect::<Vec<_>>());
    Outcome::pass(hash_str(&text), nontrivial, classes.into_iter().collect(), text)
}

/// The hand-written reproducer of the listed finding, decided by the same
/// comparison (metadata order vs reversed), independent of the generator.
fn fixed_case(name: &str) -> Outcome {
    let src = PathBuf::from("/verif/known/C24").join(name);
    if !src.is_dir() {
        return Outcome::skip(format!("reproducer {name} is missing"));
    }
    let ws = Workspace::new("c24f", "prj");
    for (rel, bytes) in vcore::util::read_tree(&src) {
        ws.write(&rel, &String::from_utf8_lossy(&bytes));
    }
    let Ok(root) = ws.root.canonicalize() else {
        return Outcome::skip("scratch directory vanished");
    };
    let Ok(mut md) = Metadata::load(root.join("Veryl.toml")) else {
        return Outcome::skip("reproducer Veryl.toml not accepted");
    };
    let Ok(paths) = md.paths::<PathBuf>(&[], true, true) else {
        return Outcome::skip("Metadata::paths failed on the reproducer");
    };
    let (Ok(a), Ok(b)) = (run_order(&md, paths.clone()), run_order(&md, paths.iter().rev().cloned().collect())) else {
        return Outcome::skip("reproducer panics");
    };
    if a.failed.is_some() || b.failed.is_some() {
        return Outcome::skip("reproducer is not error-free");
    }
    for (src, (text, _)) in &a.emitted {
        if let Some((t2, _)) = b.emitted.get(src)
            && t2 != text
        {
            let sig = if only_block_order_differs(text, t2) { GENERIC_ORDER_KNOWN } else { "emitted-sv-depends-on-order" };
            return Outcome::fail(
                sig,
                format!("{src}: emitted text differs between metadata order and reversed order\n--- metadata order\n{text}--- reversed\n{t2}reproducer: known/C24/{name}"),
                json!({"reproducer": name}),
            );
        }
    }
    Outcome::pass(hash_str(name), false, vec!["fixed_reproducer_passes(defect_fixed?)".into()], format!("known/C24/{name}: no difference"))
}

/// Reproducer of CYCLE_KNOWN: error-free in metadata order, panics in another.
fn fixed_cycle() -> Outcome {
    let src = PathBuf::from("/verif/known/C24/generic-arg-file-cycle");
    if !src.is_dir() {
        return Outcome::skip("reproducer generic-arg-file-cycle is missing");
    }
    let ws = Workspace::new("c24h", "prj");
    for (rel, bytes) in vcore::util::read_tree(&src) {
        ws.write(&rel, &String::from_utf8_lossy(&bytes));
    }
    let Ok(root) = ws.root.canonicalize() else {
        return Outcome::skip("scratch directory vanished");
    };
    let Ok(mut md) = Metadata::load(root.join("Veryl.toml")) else {
        return Outcome::skip("reproducer Veryl.toml not accepted");
    };
    let Ok(paths) = md.paths::<PathBuf>(&[], true, true) else {
        return Outcome::skip("Metadata::paths failed on the reproducer");
    };
    match run_order(&md, paths.clone()) {
        Ok(a) if a.failed.is_none() => {}
        _ => return Outcome::skip("reproducer is not error-free in metadata order"),
    }
    // a.veryl, pkg.veryl, util.veryl -> util, pkg, a
    let order: Vec<PathSet> = vec![paths[2].clone(), paths[1].clone(), paths[0].clone()];
    match run_order(&md, order) {
        Err(m) if m.contains("WouldCycle") => Outcome::fail(
            CYCLE_KNOWN,
            format!("known/C24/generic-arg-file-cycle builds in sorted order; for the order util, pkg, a the analysis panics: {m}"),
            json!({"reproducer": "generic-arg-file-cycle"}),
        ),
        Err(m) => Outcome::fail(
            format!("order-dependent-panic:{}", first_line(&m).chars().take(60).collect::<String>()),
            m,
            json!({"reproducer": "generic-arg-file-cycle"}),
        ),
        Ok(_) => Outcome::pass(
            hash_str("generic-arg-file-cycle"),
            false,
            vec!["fixed_reproducer_passes(defect_fixed?)".into()],
            "no panic".into(),
        ),
    }
}

/// Reproducer of DEP_ORDER_KNOWN: build the fixed project with two path
/// dependencies up to 8 times in fresh processes and compare the filelists.
fn fixed_dep_order() -> Outcome {
    let src = PathBuf::from("/verif/known/C24/two-path-dependencies");
    if !src.is_dir() {
        return Outcome::skip("reproducer two-path-dependencies is missing");
    }
    let ws = Workspace::new("c24g", "prj");
    for (rel, bytes) in vcore::util::read_tree(&src) {
        // the tree holds prj/, dep_a/, dep_b/ side by side
        ws.write(&format!("../{rel}"), &String::from_utf8_lossy(&bytes));
    }
    let mut first: Option<String> = None;
    for i in 0..8 {
        let r = ws.veryl(&["build"]);
        if r.code != Some(0) {
            return Outcome::skip(format!("reproducer does not build (exit {:?})", r.code));
        }
        let fl = ws.read("prj.f").unwrap_or_default();
        match &first {
            None => first = Some(fl),
            Some(f) if *f != fl => {
                return Outcome::fail(
                    DEP_ORDER_KNOWN,
                    format!("build 1 and build {} of known/C24/two-path-dependencies/prj wrote different filelists:\n{f}---\n{fl}", i + 1),
                    json!({"reproducer": "two-path-dependencies"}),
                );
            }
            _ => {}
        }
    }
    Outcome::pass(hash_str("two-path-dependencies"), false, vec!["fixed_reproducer_passes(defect_fixed?)".into()], "8 builds, one filelist".into())
}

// ------------------------------------------------------------------- CLI

fn norm_tree(t: &OutTree, ws: &Workspace) -> OutTree {
    vproj::cli::normalise_root(t, &ws.scratch.path.to_string_lossy())
}

fn norm_diags(r: &CliResult, ws: &Workspace) -> Vec<String> {
    let sp = ws.scratch.path.to_string_lossy().into_owned();
    let mut v: Vec<String> = r.diags.iter().map(|d| d.short().replace(&sp, "<S>")).collect();
    v.sort();
    v
}

fn kind_of(diff: &str) -> &'static str {
    let first = diff.lines().next().unwrap_or("");
    let name = first.split(':').next().unwrap_or("");
    if name.ends_with(".sv.map") {
        "source-map"
    } else if name.ends_with(".sv") {
        "sv"
    } else {
        "filelist"
    }
}

/// Known finding: `Lockfile::paths` walks a `HashMap` with a per-process
/// random hasher, so the files of two or more dependency projects are
/// analysed in another order from run to run; the topological order
/// `sort_filelist` derives (lines of the filelist, order inside a bundle)
/// follows.
const DEP_ORDER_KNOWN: &str = "cli/run-to-run:dependency-projects-in-hashmap-order";

/// Are all differences between two output trees of the *same* build explained
/// by DEP_ORDER_KNOWN (same filelist lines in another order / same bundle
/// blocks in another order), given that the project has >= 2 dependencies?
fn explained_by_dep_order(p: &P2Project, a: &OutTree, b: &OutTree) -> bool {
    if p.deps.len() < 2 || a.len() != b.len() {
        return false;
    }
    let fl = p.root.cfg.filelist_name();
    let bundle = match &p.root.cfg.target {
        Target::Bundle(x) => Some(x.clone()),
        _ => None,
    };
    for (k, v) in a {
        let Some(w) = b.get(k) else { return false };
        if v == w {
            continue;
        }
        let (x, y) = (String::from_utf8_lossy(v), String::from_utf8_lossy(w));
        if *k == fl {
            let mut lx: Vec<&str> = x.lines().collect();
            let mut ly: Vec<&str> = y.lines().collect();
            lx.sort();
            ly.sort();
            if lx != ly {
                return false;
            }
        } else if Some(k) == bundle.as_ref() {
            // a bundle is the concatenation of the per-file outputs in filelist
            // order: the lines between definitions travel with their file
            let (mut bx, mut ox) = sv_blocks(&x);
            let (mut by, mut oy) = sv_blocks(&y);
            bx.sort();
            by.sort();
            ox.sort();
            oy.sort();
            if bx != by || ox != oy {
                return false;
            }
        } else {
            return false;
        }
    }
    true
}

fn cli_case(d: &mut Draw, thorough: bool) -> Outcome {
    let p = gen_p2(d, &gen_opts(thorough, 60, [8, 6, 1]));
    let ws1 = Workspace::new("c24b", &p.root.cfg.name);
    p.write(&ws1, false);
    let summary = p.summary();
    let r1 = ws1.veryl(&["build"]);
    if r1.timed_out {
        return Outcome::skip("veryl build timed out");
    }
    if r1.panicked {
        return Outcome::skip(format!("veryl build panics (C11's domain): {}", r1.panic_line()));
    }
    if r1.code != Some(0) {
        let why = r1
            .diags
            .iter()
            .find(|x| !x.code.is_empty())
            .map(|x| x.code.clone())
            .unwrap_or_else(|| format!("exit {:?}", r1.code));
        return Outcome::skip(format!("generated project not accepted ({why})"));
    }
    let t1 = ws1.outputs();
    let mk = |ws: &Workspace, other: &Workspace, extra: serde_json::Value| {
        json!({"project": summary, "detail": extra, "script_copy1": ws.script(), "script_copy2": other.script()})
    };

    // ---- second copy, files created in the opposite order, own process
    let ws2 = Workspace::new("c24c", &p.root.cfg.name);
    p.write(&ws2, true);
    let r2 = ws2.veryl(&["build"]);
    if r2.timed_out {
        return Outcome::skip("veryl build timed out");
    }
    let t2 = ws2.outputs();
    if r2.code != r1.code || norm_diags(&r1, &ws1) != norm_diags(&r2, &ws2) {
        return Outcome::fail(
            "cli/two-runs-differ:exit-or-diagnostics",
            format!(
                "two copies of one project: exit {:?} / {:?}, diagnostics {:?} / {:?}\nstderr tail of copy 2:\n{}\nproject: {summary}",
                r1.code,
                r2.code,
                norm_diags(&r1, &ws1),
                norm_diags(&r2, &ws2),
                r2.tail(10)
            ),
            mk(&ws1, &ws2, json!(null)),
        );
    }
    let mut dep_order_known: Option<String> = None;
    if let Some(diff) = vproj::cli::diff_trees(&norm_tree(&t1, &ws1), &norm_tree(&t2, &ws2), "copy1", "copy2") {
        if explained_by_dep_order(&p, &norm_tree(&t1, &ws1), &norm_tree(&t2, &ws2)) {
            dep_order_known = Some(format!("two copies of one project, `veryl build` in separate processes:\n{diff}"));
        } else {
        return Outcome::fail(
            format!("cli/two-runs-differ:{}", kind_of(&diff)),
            format!("`veryl build` on two copies of one project (separate processes) leaves different outputs:\n{diff}project: {summary}"),
            mk(&ws1, &ws2, json!({"diff": diff})),
        );
        }
    }
    let mut classes = common_classes(&p, p.files().len());

    // ---- clean, build again (same path: no normalisation)
    let c = ws1.veryl(&["clean"]);
    if c.code == Some(0) {
        if !ws1.outputs().is_empty() {
            classes.insert("clean_leaves_some_outputs(not_asserted)".into());
        }
        let r3 = ws1.veryl(&["build"]);
        if r3.timed_out {
            return Outcome::skip("veryl build timed out");
        }
        let t3 = ws1.outputs();
        if r3.code != r1.code {
            return Outcome::fail(
                "cli/rebuild-after-clean-differs:exit",
                format!("build exits {:?}, after `veryl clean` {:?}\n{}\nproject: {summary}", r1.code, r3.code, r3.tail(10)),
                mk(&ws1, &ws2, json!(null)),
            );
        }
        if let Some(diff) = vproj::cli::diff_trees(&t1, &t3, "first-build", "after-clean") {
            if explained_by_dep_order(&p, &t1, &t3) {
                dep_order_known.get_or_insert(format!("`veryl build`, `veryl clean`, `veryl build` in one directory:\n{diff}"));
            } else {
            return Outcome::fail(
                format!("cli/rebuild-after-clean-differs:{}", kind_of(&diff)),
                format!("`veryl build`, `veryl clean`, `veryl build` in one directory: outputs differ:\n{diff}project: {summary}"),
                mk(&ws1, &ws2, json!({"diff": diff})),
            );
            }
        }
        classes.insert("clean_and_rebuild".into());
    } else {
        classes.insert("clean_failed(not_asserted)".into());
    }

    // ---- a second build on top of the outputs
    let r4 = ws2.veryl(&["build"]);
    if r4.timed_out {
        return Outcome::skip("veryl build timed out");
    }
    let t4 = ws2.outputs();
    if r4.code != r2.code {
        return Outcome::fail(
            "cli/second-build-differs:exit",
            format!("second build exits {:?}, first {:?}\n{}\nproject: {summary}", r4.code, r2.code, r4.tail(10)),
            mk(&ws2, &ws1, json!(null)),
        );
    }
    if let Some(diff) = vproj::cli::diff_trees(&t2, &t4, "first-build", "second-build") {
        if explained_by_dep_order(&p, &t2, &t4) {
            dep_order_known.get_or_insert(format!("`veryl build` twice in one directory:\n{diff}"));
        } else {
        return Outcome::fail(
            format!("cli/second-build-differs:{}", kind_of(&diff)),
            format!("running `veryl build` twice in one directory changes the outputs:\n{diff}project: {summary}"),
            mk(&ws2, &ws1, json!({"diff": diff})),
        );
        }
    }
    if let Some(msg) = dep_order_known {
        // the remaining step compares against a moving target: stop here
        return Outcome::fail(
            DEP_ORDER_KNOWN,
            format!("{msg}(same lines / definitions in another order; the project has {} dependency projects)\nproject: {summary}", p.deps.len()),
            mk(&ws1, &ws2, json!(null)),
        );
    }

    // ---- all root files as explicit arguments, permuted
    let mut files: Vec<String> = p
        .files()
        .into_iter()
        .filter(|(f, _)| f.owner == crate::p2_gen::Owner::Root)
        .map(|(f, _)| f.rel)
        .collect();
    files.sort();
    let perm = draw_perm(d, files.len());
    let permuted: Vec<String> = perm.iter().map(|i| files[*i].clone()).collect();
    if ws2.veryl(&["clean"]).code == Some(0) {
        let mut args: Vec<&str> = vec!["build"];
        args.extend(permuted.iter().map(|x| x.as_str()));
        let r5 = ws2.veryl(&args);
        if r5.timed_out {
            return Outcome::skip("veryl build timed out");
        }
        let t5 = ws2.outputs();
        if r5.code != r2.code {
            return Outcome::fail(
                "cli/explicit-file-order:exit",
                format!("`veryl build {}` exits {:?}, `veryl build` {:?}\n{}\nproject: {summary}", permuted.join(" "), r5.code, r2.code, r5.tail(12)),
                mk(&ws2, &ws1, json!({"args": permuted})),
            );
        }
        let bundle = matches!(p.root.cfg.target, Target::Bundle(_));
        let fl = p.root.cfg.filelist_name();
        let strip = |t: &OutTree| -> OutTree {
            t.iter()
                .filter(|(k, _)| **k != fl)
                .filter(|(k, _)| !(bundle && k.ends_with(".sv")))
                .map(|(k, v)| (k.clone(), v.clone()))
                .collect()
        };
        // known finding (see GENERIC_ORDER_KNOWN): files whose blocks only change order
        let mut t5c = strip(&t5);
        let t2c = strip(&t2);
        let mut known_files: Vec<String> = vec![];
        for (k, v) in t2c.iter() {
            if let Some(w) = t5c.get(k)
                && w != v
                && k.ends_with(".sv")
                && only_block_order_differs(&String::from_utf8_lossy(v), &String::from_utf8_lossy(w))
            {
                known_files.push(k.clone());
            }
        }
        for k in &known_files {
            // its source map necessarily differs too
            t5c.insert(k.clone(), t2c[k].clone());
            let mk_ = format!("{k}.map");
            if let Some(m) = t2c.get(&mk_) {
                t5c.insert(mk_, m.clone());
            }
            let alt = format!("maps/{}.map", k);
            if let Some(m) = t2c.get(&alt) {
                t5c.insert(alt, m.clone());
            }
        }
        if let Some(diff) = vproj::cli::diff_trees(&t2c, &t5c, "veryl-build", "explicit-permuted-files") {
            if !known_files.is_empty() && diff.lines().all(|l| l.contains(".sv.map")) {
                // a map of a reordered file stored elsewhere (sourcemap directory)
                return Outcome::fail(
                    GENERIC_ORDER_KNOWN,
                    format!("`veryl build {}` emits the definitions of {known_files:?} in another order than `veryl build`\nproject: {summary}", permuted.join(" ")),
                    mk(&ws2, &ws1, json!({"args": permuted, "files": known_files})),
                );
            }
            return Outcome::fail(
                format!("cli/explicit-file-order:{}", kind_of(&diff)),
                format!("`veryl build {}` (all project files, permuted) leaves other bytes than `veryl build`:\n{diff}project: {summary}", permuted.join(" ")),
                mk(&ws2, &ws1, json!({"args": permuted, "diff": diff})),
            );
        }
        let lines = |t: &OutTree| -> Vec<String> {
            let mut v: Vec<String> = t
                .get(&fl)
                .map(|b| String::from_utf8_lossy(b).lines().map(|x| x.to_string()).collect())
                .unwrap_or_default();
            v.sort();
            v
        };
        if lines(&t2) != lines(&t5) {
            return Outcome::fail(
                "cli/explicit-file-order:filelist-content",
                format!(
                    "`veryl build {}` lists other files than `veryl build`:\n{:?}\n{:?}\nproject: {summary}",
                    permuted.join(" "),
                    lines(&t2),
                    lines(&t5)
                ),
                mk(&ws2, &ws1, json!({"args": permuted})),
            );
        }
        if !known_files.is_empty() {
            return Outcome::fail(
                GENERIC_ORDER_KNOWN,
                format!("`veryl build {}` emits the definitions of {known_files:?} in another order than `veryl build`\nproject: {summary}", permuted.join(" ")),
                mk(&ws2, &ws1, json!({"args": permuted, "files": known_files})),
            );
        }
        if t2.get(&fl) != t5.get(&fl) {
            classes.insert("filelist_line_order_varies_with_argument_order(not_asserted)".into());
        }
        classes.insert("explicit_permuted_file_arguments".into());
    }
    if !r1.diags.is_empty() {
        classes.insert("has_warnings_printed".into());
    }
    let n_files = p.files().len();
    let nontrivial = n_files >= 4 && !p.edges().is_empty() && p.has_wildcard();
    let text = format!("{summary}\nargs: {permuted:?}");
    Outcome::pass(hash_str(&text), nontrivial, classes.into_iter().collect(), text)
}

fn first_line(x: &str) -> String {
    x.lines().next().unwrap_or("").chars().take(120).collect()
}

pub fn run(ctx: &Ctx) {
    let thorough = !ctx.is_quick();
    let xdg = vcore::util::Scratch::new("c24-xdg");
    // SAFETY: no other thread exists yet
    unsafe { std::env::set_var("XDG_CACHE_HOME", &xdg.path) };
    // expand the standard library once, before any worker thread may race on it
    // (concurrent expansion is C30's subject, not this property's)
    if let Err(e) = veryl_std::expand() {
        println!("INCONCLUSIVE property={}: cannot expand the standard library: {e}", ctx.id);
        std::process::exit(2);
    }
    let mut na = ctx.scale(200, 5000);
    let mut nb = ctx.scale(48, 2500);
    if let Some(k) = std::env::var("VERIF_C24_CASES").ok().and_then(|x| x.parse::<usize>().ok()) {
        na = k; // development aid
        nb = k / 3;
    }
    if !ctx.replay_mode() {
        let out = fixed_case("generic-instance-order");
        ctx.record("fixed", out, json!({"reproducer": "generic-instance-order"}));
        ctx.record("fixed", fixed_dep_order(), json!({"reproducer": "two-path-dependencies"}));
        ctx.record("fixed", fixed_cycle(), json!({"reproducer": "generic-arg-file-cycle"}));
    }
    let only = std::env::var("VERIF_C24_SUB").unwrap_or_default(); // development aid
    if only.is_empty() || only == "permute" {
    ctx.run("permute", CaseCfg::cases(na).choices(2500).timeout_s(600).shrink_iters(60), move |d| {
        permute_case(d, thorough)
    });
    }
    if only.is_empty() || only == "cli" {
    ctx.run("cli", CaseCfg::cases(nb).choices(2500).timeout_s(1200).shrink_iters(25), move |d| {
        cli_case(d, thorough)
    });
    }
    drop(xdg);
    ctx.assume("in-process sub: veryl::pipeline::analyze (fail_fast, incremental off) + Emitter::new/emit/source_map as cmd_build calls them, on the PathSet list of Metadata::paths; each order on a fresh 8 MiB thread; the fragment cache is not involved (C04)");
    ctx.assume("diagnostic identity = severity, code, rendered message, owning file, label offsets/lengths/texts; compared as a SET as the property states (the analyzer repeats a warning of a module once per elaboration of it, and how often depends on the processing order: counted as a class, not asserted)");
    ctx.assume("the order of the lines of the filelist (and so of a bundle) under a permuted processing order is not asserted here (any topological order satisfies C25); for identical processing order (two copies, rebuild, second build) the filelist must be byte-identical");
    ctx.assume("CLI sub: outputs = *.sv, *.sv.map, *.f, *.list.rb outside .build; the absolute scratch path is normalised when two copies at different paths are compared; `[build] incremental = false`");
    ctx.assume("projects with file-level dependency cycles are excluded by construction (veryl panics on them: known C06 side finding); projects the compiler rejects are skipped and counted");
    ctx.finish(
        "exploration",
        "p2_gen projects; permute: metadata order vs reversal vs k generated permutations of the PathSet list, each on a fresh thread; cli: two copies with opposite file creation order, clean + rebuild, second build, explicit permuted file arguments; non-trivial = >= 4 analysed files with cross-file references and a wildcard import; distinct by project summary + orders",
    );
}
